"""C03 -- .p8 text cart write/read round trip preserves the whole cart.

Round-trip EQUALITY is a runtime quantity; decided instead: writer and reader
are the same codec read in two directions, section by section.
Rules: R-C03-sections, R-C03-linelen, R-C03-layout, R-C03-text.
"""
import ast

from ..astutil import clone

from .. import rx
from ..absint.symx import Aff, TOP
from ..cfg import cfg_of
from ..consteval import UNKNOWN, Regex
from ..core import AnalysisError
from ..refs import formats as ref
from ..srcmodel import walk_own, const_str, FuncInfo
from .common import unparse, assignments_to
from . import codecs, layouts as LY
from .c18 import _region_sizes

EXPLANATION = (
    'R-C03-sections: the section headers P8Formatter.to_file writes equal '
    'the names from_file dispatches on; for each the class whose to_lines '
    'writes it is the class whose from_lines reads it (label <-> Gfx on both '
    'sides); the title line is the same constant on both sides, the version '
    'line the writer formats is in the language of HEADER_VERSION_RE '
    '(automaton membership), the parsed version is stored. R-C03-linelen: '
    'the length of a line each to_lines produces (from the extracted digit '
    'layout) equals the constant its from_lines filters on, and region size '
    '/ bytes-per-line is integral. R-C03-layout: writer map (memory bit -> '
    'hex digit) and reader map (hex digit -> memory bit), extracted '
    'independently by abstract interpretation, are inverse of each other for '
    'gfx, sfx header and notes, music flags and channels; every memory bit '
    'is carried except the one the format has no place for (bit 7 of music '
    'channel 3). R-C03-text: Lua lines go through p8scii_to_unicode + UTF-8 '
    'and back (C15), a final newline is written iff the last line had none, '
    '__label__ is written iff the cart has a label and the reader starts '
    'from "no label".')

ASSUMPTIONS = [
    'equality of the re-read cart for concrete carts follows from the rules '
    'modulo bytes.fromhex / format semantics and C06/C15 for the Lua part',
    'carts whose regions have non-canonical sizes are not covered',
]

P8 = 'pico8.game.formatter.p8'


def rule_sections(ctx, res, traced=False):
    model, ev = ctx.model, ctx.consts
    w = model.func(P8 + ':P8Formatter.to_file')
    r = model.func(P8 + ':P8Formatter.from_file')
    if not traced:
        _rule_sections_shape(ctx, res, w)
    _rule_header_lines(ctx, res, w, r)


def _rule_sections_shape(ctx, res, w):
    model, ev = ctx.model, ctx.consts
    outp = w.params()[2]
    written = []
    writer_attr = {}
    cur = None
    for st in w.node.body:
        for n in walk_own(st):
            if isinstance(n, ast.Call) and isinstance(n.func, ast.Attribute) \
                    and n.func.attr == 'write' and n.args:
                c = const_str(n.args[0])
                if isinstance(c, bytes) and c.startswith(b'__') and \
                        c.endswith(b'__\n'):
                    cur = c[2:-3].decode()
                    written.append(cur)
        if isinstance(st, ast.For) and cur is not None:
            it_e = st.iter
            if isinstance(it_e, ast.Name):
                from .. import norm as _nn
                it_e = _nn.reaching_value(st, it_e.id) or \
                    _resolve_local(w.node, it_e)
            it = ast.unparse(it_e).replace(' ', '')
            if it.startswith('game.') and '.to_lines(' in it:
                writer_attr[cur] = it.split('.')[1]
        if isinstance(st, ast.If) and 'game.label' in ast.unparse(st.test):
            for s2 in st.body:
                if isinstance(s2, ast.For):
                    it_e = s2.iter
                    if isinstance(it_e, ast.Name):
                        from .. import norm as _nn
                        it_e = _nn.reaching_value(s2, it_e.id) or \
                            _resolve_local(w.node, it_e)
                    it = ast.unparse(it_e).replace(' ', '')
                    if it.startswith('game.') and '.to_lines(' in it:
                        writer_attr['label'] = it.split('.')[1]
    r = model.func(P8 + ':P8Formatter.from_file')
    accepted = {}
    for n in walk_own(r.node):
        if isinstance(n, ast.If) and isinstance(n.test, ast.Compare) and \
                isinstance(n.test.ops[0], ast.Eq) and \
                ast.unparse(n.test.left) == 'section' and \
                isinstance(const_str(n.test.comparators[0]), str):
            name = const_str(n.test.comparators[0])
            for s2 in n.body:
                if isinstance(s2, ast.Assign) and \
                        isinstance(s2.targets[0], ast.Attribute) and \
                        isinstance(s2.value, ast.Call):
                    fn = ast.unparse(s2.value.func)
                    accepted[name] = (s2.targets[0].attr, fn)
    # table-driven form: if section in <dict of classes>: setattr(game,
    # section, <dict>[section].from_lines(...))
    from .. import norm as _n
    from ..consteval import ClassRef
    for n in walk_own(r.node):
        if isinstance(n, ast.If) and isinstance(n.test, ast.Compare) and \
                len(n.test.ops) == 1 and isinstance(n.test.ops[0], ast.In) \
                and ast.unparse(n.test.left) == 'section':
            d = _n.fold(ctx, r, n.test.comparators[0])
            body_src = ' '.join(ast.unparse(x) for x in n.body)
            if isinstance(d, dict) and 'setattr(' in body_src and \
                    '[section].from_lines(' in body_src.replace(' ', ''):
                for k, v in d.items():
                    if isinstance(k, str) and isinstance(v, ClassRef):
                        accepted[k] = (k, v.name + '.from_lines')
    res.tables['p8_sections_written'] = written
    res.check(sorted(written) == sorted(accepted) and len(written) == 7,
              'R-C03-sections', w.qual, 'sections written == sections read',
              '{}'.format(written),
              'writer emits {} but the reader accepts {}'.format(
                  sorted(written), sorted(accepted)), w.loc)
    # class agreement
    g = model.func('pico8.game.game:Game.make_empty_game')
    cls_of_attr = {}
    for n in walk_own(g.node):
        if isinstance(n, ast.Assign) and \
                isinstance(n.targets[0], ast.Attribute):
            v = _resolve_local(g.node, n.value)
            if isinstance(v, ast.Call):
                fn = ast.unparse(v.func)
                cls_of_attr[n.targets[0].attr] = \
                    fn.split('.')[0].split('(')[0]
    for sec in sorted(set(written) & set(accepted)):
        wattr = writer_attr.get(sec, 'lua' if sec == 'lua' else None)
        rattr, rfn = accepted[sec]
        wcls = cls_of_attr.get(wattr)
        rcls = rfn.split('.')[-2] if '.' in rfn else rfn
        if sec == 'lua':
            ok = rattr == 'lua' and rfn.endswith('Lua.from_lines')
        else:
            ok = wattr == rattr and wcls == rcls and \
                rfn.endswith('.from_lines')
        res.check(ok, 'R-C03-sections', w.qual,
                  '__{}__: written by and read into the same section '
                  'class'.format(sec),
                  'game.{} ({})'.format(wattr, wcls),
                  '__{}__ is written from game.{} ({}) but read into '
                  'game.{} with {}'.format(sec, wattr, wcls, rattr, rfn),
                  w.loc)


def _rule_header_lines(ctx, res, w, r):
    model, ev = ctx.model, ctx.consts
    from .. import norm as _n
    # title and version lines
    raw = model.func(P8 + ':_get_raw_data_from_p8_file')
    t_ok = any(isinstance(n, ast.Compare) and 'HEADER_TITLE_STR' in
               ast.unparse(n) for n in walk_own(raw.node)) and any(
        isinstance(n, ast.Call) and 'HEADER_TITLE_STR' in ast.unparse(n)
        and 'write' in ast.unparse(n.func) for n in walk_own(w.node))
    res.check(t_ok, 'R-C03-sections', w.qual,
              'title line is the same constant on both sides', '',
              'title line written / compared with different values', w.loc)
    vre = ev.module_const(P8, 'HEADER_VERSION_RE')
    fmt = None
    for n in walk_own(w.node):
        if isinstance(n, ast.BinOp) and isinstance(n.op, ast.Mod) and \
                isinstance(const_str(n.left), str) and \
                'version' in const_str(n.left):
            fmt = const_str(n.left)
    v_ok = False
    if isinstance(vre, Regex) and fmt is not None and fmt.count('%s') == 1:
        nfa = rx.build(vre.pattern, vre.flags)
        v_ok = all(rx.accepts(nfa, (fmt % v).encode())
                   for v in ('0', '8', '33', '41', '255'))
        v_ok = v_ok and 'game.version' in ast.unparse(w.node)
    res.check(v_ok, 'R-C03-sections', w.qual,
              'version line is in the language of HEADER_VERSION_RE',
              '{!r}'.format(fmt), 'the version line {!r} is not matched by '
              'the reader\'s pattern'.format(fmt), w.loc)
    stores = any(isinstance(n, ast.Assign) and
                 ast.unparse(n.targets[0]) == 'new_game.version' and
                 ast.unparse(_n.subst_locals(r.node, n.value)) ==
                 'data.version' for n in walk_own(r.node))
    res.check(stores, 'R-C03-sections', r.qual,
              'parsed version stored on the game', '',
              'the version number read from the file is dropped', r.loc)
    res.require_min('R-C03-sections', 10)


def rule_sections_traced(ctx, res):
    """sections / label / title / version from the path-wise models of
    to_file and from_file (p8trace): independent of statement shape"""
    from . import p8trace as T
    w, out, traces = T.writer_trace(ctx)
    # ---- writer: section sequence per path ---------------------------------
    seqs = {}
    label_rule = []
    for (p, items) in traces:
        secs = T.sections_of(items)
        names = [n for (n, _l, _h) in secs]
        srcs = {n: (T.source_attr(l) if l is not None else None)
                for (n, l, _h) in secs}
        has_label = 'label' in names
        pol = None
        for (t, v) in p.conds:
            q = T.truth_polarity(t, v, 'game.label')
            if q is not None:
                pol = q
        label_rule.append((has_label, pol, p))
        key = tuple(n for n in names if n != 'label')
        seqs.setdefault(key, []).append(srcs)
    if len(seqs) != 1:
        raise AnalysisError('to_file writes different section sequences on '
                            'different paths: {}'.format(sorted(seqs)))
    (written, src_list), = seqs.items()
    written = list(written)
    srcs = {}
    for d in src_list:
        for k, v in d.items():
            if srcs.setdefault(k, v) != v:
                raise AnalysisError('section {} written from different '
                                    'sources on different paths'.format(k))
    has_label_anywhere = any(h for (h, _p, _q) in label_rule)
    names = written + (['label'] if has_label_anywhere else [])
    # ---- reader dispatch ----------------------------------------------------
    r, disp = T.reader_dispatch(ctx, names + ['no_such_section'])
    accepted = {}
    for n in names:
        st = disp.get(n)
        if isinstance(st, list):
            game_stores = [(t, c) for (t, c, _n) in st
                           if t.count('.') == 1]
            if game_stores:
                accepted[n] = game_stores
    res.tables['p8_sections_written'] = names
    res.check(sorted(names) == sorted(accepted) and len(names) == 7,
              'R-C03-sections', w.qual, 'sections written == sections read',
              '{}'.format(names),
              'writer emits {} but the reader accepts {}'.format(
                  sorted(names), sorted(accepted)), w.loc)
    res.check(disp.get('no_such_section') == 'raise', 'R-C03-sections',
              r.qual, 'an unknown section is refused', '',
              'an unknown section name is accepted silently', r.loc)
    # ---- same attribute, same class on both sides -------------------------
    g = ctx.model.func('pico8.game.game:Game.make_empty_game')
    cls_of_attr = {}
    from ..absint.symbody import SymBody
    for p in SymBody(ctx, g, no_inline={'empty', 'from_lines'}).run(
            g.node.body):
        for ev in p.events:
            if ev[0] == 'set' and isinstance(ev[2], ast.Call):
                fn = ev[2].func
                base = fn.value if isinstance(fn, ast.Attribute) else fn
                cn = T._class_name(ctx, g, base)
                if cn:
                    cls_of_attr[ev[1].split('.')[-1]] = cn
    for sec in names:
        if sec not in accepted:
            continue
        wattr = srcs.get(sec)
        rattr, rcls = accepted[sec][0]
        rattr = rattr.split('.')[-1]
        if sec == 'lua':
            ok = wattr == 'lua' and rattr == 'lua' and rcls == 'Lua'
            wcls = 'Lua'
        else:
            wcls = cls_of_attr.get(wattr)
            if wattr is None or wcls is None:
                res.undecided('R-C03-sections', w.qual,
                              '__{}__: written by and read into the same '
                              'section class'.format(sec),
                              'source of the written lines / class of '
                              'game.{} not followed'.format(wattr), w.loc)
                continue
            ok = wattr == rattr and wcls == rcls
        res.check(ok, 'R-C03-sections', w.qual,
                  '__{}__: written by and read into the same section '
                  'class'.format(sec), 'game.{} ({})'.format(wattr, wcls),
                  '__{}__ is written from game.{} ({}) but read into '
                  'game.{} with {}.from_lines'.format(sec, wattr, wcls, rattr,
                                                      rcls), w.loc)
    # ---- label iff the cart has one ---------------------------------------
    bad = None
    for (has, pol, p) in label_rule:
        if has and pol is not True:
            bad = 'the label section is written on a path that does not ' \
                  'test game.label ({})'.format(p.cond_text()[-80:] or
                                                'unconditionally')
        if not has and pol is True:
            bad = 'a cart with a label is written without its __label__ ' \
                  'section'
    if not has_label_anywhere:
        bad = 'no path writes a __label__ section'
    res.check(bad is None, 'R-C03-text', w.qual,
              '__label__ written iff the cart has a label', '', bad or '',
              w.loc)
    lab_src = srcs.get('label')
    res.check(lab_src == 'label' or not has_label_anywhere, 'R-C03-text',
              w.qual, '__label__ lines come from game.label', '',
              'label lines are taken from game.{}'.format(lab_src), w.loc)
    # reader: starts without a label
    init_none = False
    for p in SymBody(ctx, r, no_inline={'from_lines'}).run(r.node.body):
        for ev in p.events:
            if ev[0] == 'loop':
                break
            if ev[0] == 'set' and ev[1].endswith('.label') and isinstance(
                    ev[2], ast.Constant) and ev[2].value is None:
                init_none = True
    res.check(init_none, 'R-C03-text', r.qual,
              'reader starts without a label and sets it from __label__',
              '', 'a cart without __label__ is read with a label (the '
              'reader does not reset game.label before the sections)', r.loc)
    return written, traces, w, r


def _part(res, rule, sec, fn):
    """run one per-section part; an extraction failure is an UNDECIDED of
    that section only"""
    try:
        fn()
    except AnalysisError as e:
        res.undecided(rule, 'section ' + sec, 'analysis', str(e))


def rule_roundtrip(ctx, res, sizes):
    """whole-function evaluation of every section codec on symbolic memory:
    from_lines(to_lines(memory)) must be that memory, for all contents.
    -> set of sections decided this way"""
    from . import cxcodecs as XC
    decided = set()
    for sec in ('gfx', 'gff', 'map', 'sfx', 'music'):
        try:
            se = XC.evaluate(ctx, sec, sizes[sec])
        except AnalysisError:
            continue
        rt = se.roundtrip
        skip = set(ref.MUSIC_UNREPRESENTABLE) if sec == 'music' else set()
        if isinstance(rt, AnalysisError):
            ok, d, note = se.prefix_check('writer', skip)
            f = ctx.model.lookup_method(se.cls, 'from_lines')
            if ok:
                res.check(d is None, 'R-C03-layout', se.cls.qual,
                          '{}: from_lines(to_lines(memory)) == memory on '
                          'every path (tests on content bits followed)'
                          .format(sec), note,
                          '{} section does not survive write-then-read: '
                          '{}'.format(sec, d), f.loc if f else '',
                          semantic=True)
                decided.add(sec)
            else:
                res.info('R-C03-layout', se.cls.qual,
                         '{}: whole-function evaluation could not follow '
                         'the codec'.format(sec),
                         (str(rt) + ' / ' + note)[:200])
            continue
        d = se.mem_diff(rt, skip)
        f = ctx.model.lookup_method(se.cls, 'from_lines')
        res.check(d is None, 'R-C03-layout', se.cls.qual,
                  '{}: from_lines(to_lines(memory)) == memory for every '
                  'content of the {} bytes'.format(sec, se.size),
                  '{} lines evaluated'.format(
                      len(se.writer) if isinstance(se.writer, list) else 0),
                  '{} section does not survive write-then-read: {}'.format(
                      sec, d), f.loc if f else '', semantic=True)
        decided.add(sec)
    return decided


def rule_linelen(ctx, res, sizes, skip=()):
    ev = ctx.consts

    def gfx():
        gw = codecs.gfx_writer_layout(ctx)
        gr = codecs.gfx_reader_layout(ctx)
        hl = ev.class_const(ctx.model.cls('pico8.gfx.gfx:Gfx'),
                            'HEX_LINE_LENGTH_BYTES')
        res.check(gr['filter'] == 2 * hl + 1 and sizes['gfx'] % hl == 0,
                  'R-C03-linelen', gr['func'].qual,
                  'gfx/label: lines of 2*{}+1 characters'.format(hl),
                  'filter {}'.format(gr['filter']),
                  'gfx to_lines produces {}-character lines, from_lines '
                  'keeps only lines of {}'.format(2 * hl + 1, gr['filter']),
                  gr['func'].loc)

    def sfx():
        sw = codecs.sfx_writer_layout(ctx)
        sr = codecs.sfx_reader_layout(ctx)
        n_notes = sw['notes'][1] - sw['notes'][0]
        length = len(sw['header']) + n_notes * len(sw['note']) + 1
        res.check(length == sr['filter'], 'R-C03-linelen', sr['func'].qual,
                  'sfx: lines of {} characters'.format(length),
                  'filter {}'.format(sr['filter']),
                  'sfx to_lines produces {}-character lines, from_lines '
                  'keeps only lines of {}'.format(length, sr['filter']),
                  sr['func'].loc)
        rng = sr['irange']
        res.check(rng[0] == len(sw['header']) and rng[2] == len(sw['note'])
                  and (rng[1] - rng[0]) // rng[2] == n_notes,
                  'R-C03-linelen', sr['func'].qual,
                  'sfx reader walks the notes the writer emits',
                  'from digit {} in steps of {}'.format(rng[0], rng[2]),
                  'reader range {} does not match {} header digits + {} '
                  'notes of {} digits'.format(rng, len(sw['header']), n_notes,
                                              len(sw['note'])),
                  sr['func'].loc)

    def music():
        mw = codecs.music_writer_layout(ctx)
        mr = codecs.music_reader_layout(ctx)
        spaces = max(([x for x in l if x == ('lit', b' ')]
                      for (_a, l) in mw['lines']),
                     key=lambda v: abs(len(v) - 1))
        res.check(len(spaces) == 1 and mr['sep'] == b' ' and mr['filter'],
                  'R-C03-linelen', mr['func'].qual,
                  'music: exactly one space separates flags and channels',
                  '', 'music line has {} spaces / reader splits on '
                  '{!r}'.format(len(spaces), mr['sep']), mr['func'].loc)

    for sec, fn in (('gfx', gfx), ('sfx', sfx), ('music', music)):
        if sec not in skip:
            _part(res, 'R-C03-linelen', sec, fn)
    for name, clsq in (('gff', 'pico8.gff.gff:Gff'),
                       ('map', 'pico8.map.map:Map')):
        hl2 = ev.class_const(ctx.model.cls(clsq), 'HEX_LINE_LENGTH_BYTES')
        res.check(sizes[name] % hl2 == 0, 'R-C03-linelen', clsq,
                  '{}: {} full rows of {} bytes'.format(
                      name, sizes[name] // hl2, hl2), '',
                  '{} region size is not a multiple of its row '
                  'length'.format(name))


def rule_layout(ctx, res, skip=()):
    def gfx():
        gw = codecs.gfx_writer_layout(ctx)
        gr = codecs.gfx_reader_layout(ctx)
        # writer: digit 2k <- bits digit0_bits (as a nibble), digit 2k+1 <- ...
        # reader: after swapping pairs and fromhex: byte hi nibble <- digit 2k+1,
        # lo nibble <- digit 2k
        w0, w1 = gw['digit0_bits'], gw['digit1_bits']
        reader_lo_digit, reader_hi_digit = 0, 1      # which text digit feeds
        if gr['swap'] is None:
            reader_lo_digit, reader_hi_digit = 1, 0
        ok = gr['fromhex'] and (
            (w0 == [0, 1, 2, 3] and w1 == [4, 5, 6, 7] and
             (reader_lo_digit, reader_hi_digit) == (0, 1)) or
            (w0 == [4, 5, 6, 7] and w1 == [0, 1, 2, 3] and
             (reader_lo_digit, reader_hi_digit) == (1, 0)))
        res.check(ok, 'R-C03-layout', gr['func'].qual,
                  'gfx: reader nibble map is the inverse of the writer\'s',
                  'writer digits carry bits {} / {}; reader swap {}'.format(
                      w0, w1, gr['swap']),
                  'gfx writer puts memory bits {} in the first and {} in the '
                  'second digit, the reader (swap={}) reads them the other way '
                  'round'.format(w0, w1, gr['swap']), gr['func'].loc)
    def sfx():
        sw = codecs.sfx_writer_layout(ctx)
        sr = codecs.sfx_reader_layout(ctx)
        # writer: digit d bit b <- RAM (off, bit); reader: RAM <- digit
        w_map = {}
        for d, cells in enumerate(sw['note']):
            for b, c in enumerate(cells):
                if c and c[0] == 'self._data':
                    w_map[(c[1], c[2])] = (d, b)
        nb = Aff({sr['id_var']: 68, sr['note_var']: 2}, 0)
        r_map = {}
        for (arr, idx, bv, node) in sr['note_stores']:
            d = idx - nb
            if not d.is_const():
                continue
            for bit in range(8):
                a = LY.cell_single(bv.cell(bit))
                if a is None:
                    continue
                p = codecs.digit_atom_pos(a, sr['note_var'], sr['irange'][0],
                                          sr['irange'][2])
                if p and p[0] == 'note':
                    r_map[(d.const, bit)] = (p[1], p[2])
        res.check(w_map == r_map and len(w_map) == 16, 'R-C03-layout',
                  sr['func'].qual, 'sfx notes: reader map is the inverse of the '
                  'writer map, all 16 bits carried', '',
                  'sfx note bits travel differently: writer {} reader {}'.format(
                      sorted((k, v) for k, v in w_map.items()
                             if r_map.get(k) != v)[:4],
                      sorted((k, v) for k, v in r_map.items()
                             if w_map.get(k) != v)[:4]), sr['func'].loc)
        hw = {}
        for d, cells in enumerate(sw['header']):
            for b, c in enumerate(cells):
                if c and c[0] == 'self._data':
                    hw[(c[1], c[2])] = (d, b)
        hr = {}
        idb = Aff({sr['id_var']: 68}, 0)
        for (arr, idx, bv, node) in sr['hdr_stores']:
            d = idx - idb
            if not d.is_const():
                continue
            for bit in range(8):
                a = LY.cell_single(bv.cell(bit))
                p = codecs.digit_atom_pos(a) if a else None
                if p and p[0] == 'abs':
                    hr[(d.const, bit)] = (p[1], p[2])
        res.check(hw == hr and len(hw) == 32, 'R-C03-layout', sr['func'].qual,
                  'sfx header: 4 bytes carried digit for digit', '',
                  'sfx header bytes travel differently', sr['func'].loc)
    def music():
        mw = codecs.music_writer_layout(ctx)
        mr = codecs.music_reader_layout(ctx)
        # writer digits after the space are channel digits 0..7; flag digits 0,1
        def writer_map(line):
            wm = {}
            pos = 0
            side = 'F'
            for item in line:
                if isinstance(item, tuple) and item[0] == 'lit':
                    if item[1] == b' ':
                        side, pos = 'C', 0
                    continue
                for b, c in enumerate(item):
                    if c and c[0] == 'self._data':
                        wm[(c[1], c[2])] = (side, pos, b)
                pos += 1
            return wm
        # every path through the writer must give the same map; report the one
        # that carries the fewest bits
        maps = [writer_map(l) for (_a, l) in mw['lines']]
        wm = min(maps, key=len)
        rm = {}
        for k, bv in enumerate(mr['bytes']):
            for bit in range(8):
                c = bv.cell(bit)
                if c is TOP:
                    continue
                for v in c.vars:
                    src, b = v
                    if src[0] == 'digit':
                        p = Aff(dict(src[2][0]), src[2][1]).const
                        # only the flag digit counts for bit 7 (channel digits'
                        # top bit is written as 0)
                        if bit == 7 and src[1] == 'C':
                            continue
                        rm[(k, bit)] = (src[1], p, b)
        carried = set(wm)
        missing = {(k, b) for k in range(4) for b in range(8)} - carried
        res.check(wm == rm, 'R-C03-layout', mr['func'].qual,
                  'music: reader map is the inverse of the writer map', '',
                  'music bits travel differently: {}'.format(sorted(
                      (k, wm.get(k), rm.get(k)) for k in set(wm) | set(rm)
                      if wm.get(k) != rm.get(k))[:4]), mr['func'].loc)
        res.check(missing == set(ref.MUSIC_UNREPRESENTABLE), 'R-C03-layout',
                  mw['func'].qual,
                  'every music bit is carried except bit 7 of channel 3', '',
                  'bits not carried by the .p8 music line: {}'.format(
                      sorted(missing)), mw['func'].loc)

    for sec, fn in (('gfx', gfx), ('sfx', sfx), ('music', music)):
        if sec not in skip:
            _part(res, 'R-C03-layout', sec, fn)


def _resolve_local(fnode, e, depth=0):
    """follow single-assignment locals"""
    while isinstance(e, ast.Name) and depth < 4:
        binds = [v for (_s, v) in assignments_to(fnode, e.id)]
        if len(binds) != 1 or binds[0] is None:
            break
        e = binds[0]
        depth += 1
    return e


def _is_utf8_of_conversion(model, f, e, var):
    """e == bytes(<p8scii_to_unicode>(var), 'utf-8') in any of its spellings"""
    e = _resolve_local(f.node, e)
    inner = None
    if isinstance(e, ast.Call) and isinstance(e.func, ast.Name) and \
            e.func.id == 'bytes' and e.args:
        enc = e.args[1] if len(e.args) > 1 else next(
            (k.value for k in e.keywords if k.arg == 'encoding'), None)
        if const_str(enc) in ('utf-8', 'utf8', 'UTF-8'):
            inner = e.args[0]
    elif isinstance(e, ast.Call) and isinstance(e.func, ast.Attribute) and \
            e.func.attr == 'encode':
        enc = e.args[0] if e.args else next(
            (k.value for k in e.keywords if k.arg == 'encoding'), None)
        if enc is None or const_str(enc) in ('utf-8', 'utf8', 'UTF-8'):
            inner = e.func.value
    if inner is None:
        return False
    inner = _resolve_local(f.node, inner)
    if not (isinstance(inner, ast.Call) and len(inner.args) == 1 and
            isinstance(inner.args[0], ast.Name) and inner.args[0].id == var):
        return False
    r = model.resolve_expr(f.module, inner.func)
    return bool(r and r[0] == 'func' and
                r[1].qual == 'pico8.lua.lua:p8scii_to_unicode')


def _subst(node, name, repl):
    import copy

    class T(ast.NodeTransformer):
        def visit_Name(self, n):
            if n.id == name and isinstance(n.ctx, ast.Load):
                return clone(repl)
            return n
    return T().visit(clone(node))


def rule_lua_lines(ctx, res):
    """Lua section of the .p8 writer: every line converted, a missing final
    newline -- and only a missing one -- supplied."""
    from ..predlang import pred_lang, NotAPredicate
    from ..lang import Lang
    model = ctx.model
    w = model.func(P8 + ':P8Formatter.to_file')
    loops = []
    for n in walk_own(w.node):
        if isinstance(n, ast.For) and isinstance(n.iter, ast.Call) and \
                isinstance(n.iter.func, ast.Attribute) and \
                n.iter.func.attr == 'to_lines' and \
                ast.unparse(n.iter.func.value).endswith('.lua') and \
                isinstance(n.target, ast.Name):
            writes = [c for c in walk_own(n) if isinstance(c, ast.Call) and
                      isinstance(c.func, ast.Attribute) and
                      c.func.attr == 'write']
            if writes:
                loops.append((n, writes))
    if len(loops) != 1:
        res.vanished('R-C03-text', w.qual, 'Lua line loop',
                     'expected one loop writing the lines of game.lua, '
                     'found {}'.format(len(loops)))
        return
    lp, writes = loops[0]
    var = lp.target.id
    conv = len(writes) == 1 and len(writes[0].args) == 1 and \
        _is_utf8_of_conversion(model, w, writes[0].args[0], var) and \
        any(s is writes[0]._parent for s in lp.body
            if isinstance(s, ast.Expr))
    res.check(conv, 'R-C03-text', w.qual,
              'every Lua line written once as UTF-8 of p8scii_to_unicode',
              '', 'a Lua line is written {} / not as bytes('
              'p8scii_to_unicode(line), utf-8) / conditionally'.format(
                  '{} times'.format(len(writes))), w.module.loc(lp))
    # the statement that supplies the final newline
    parent = lp._parent
    body = parent.body if lp in getattr(parent, 'body', []) else None
    fix = None
    if body is not None:
        for st in body[body.index(lp) + 1:]:
            if isinstance(st, ast.If) and not st.orelse and \
                    len(st.body) == 1 and isinstance(st.body[0], ast.Expr) \
                    and isinstance(st.body[0].value, ast.Call) and \
                    isinstance(st.body[0].value.func, ast.Attribute) and \
                    st.body[0].value.func.attr == 'write' and \
                    st.body[0].value.args and \
                    const_str(st.body[0].value.args[0]) == b'\n':
                fix = st
                break
            if isinstance(st, ast.Expr) and isinstance(st.value, ast.Call) \
                    and isinstance(st.value.func, ast.Attribute) and \
                    st.value.func.attr == 'write':
                break                      # next section begins
    if fix is None:
        res.violation('R-C03-text', w.qual,
                      'a missing final newline is supplied',
                      'no `if <last line lacks a newline>: write(b"\\n")` '
                      'follows the Lua lines: the next section header is '
                      'glued to the last code line', w.module.loc(lp))
        return
    # language of last lines for which the newline is added
    test = fix.test
    names = {x.id for x in walk_own(test) if isinstance(x, ast.Name)}
    added = None
    why = ''
    try:
        if len(names) == 1 and next(iter(names)) == var:
            # the loop variable itself keeps the last line
            added = pred_lang(test, var)
            names = set()
        if len(names) == 1:
            nm = names.pop()
            inloop = [(st, v) for (st, v) in assignments_to(w.node, nm)
                      if any(st is x for x in walk_own(lp))]
            if len(inloop) == 1 and inloop[0][1] is not None:
                e = inloop[0][1]
                if isinstance(e, ast.Name) and e.id == var:
                    added = pred_lang(test, nm)
                else:
                    try:
                        pl = pred_lang(e, var)
                    except NotAPredicate:
                        pl = None
                    if pl is not None:
                        # test is `flag` / `not flag`
                        t = test
                        neg = False
                        while isinstance(t, ast.UnaryOp) and \
                                isinstance(t.op, ast.Not):
                            neg = not neg
                            t = t.operand
                        if isinstance(t, ast.Name):
                            added = pl.complement() if neg else pl
                        elif isinstance(t, ast.Compare) and \
                                len(t.ops) == 1 and isinstance(
                                    t.comparators[0], ast.Constant) and \
                                isinstance(t.comparators[0].value, bool) or \
                                (isinstance(t, ast.Compare) and
                                 t.comparators[0].value is None
                                 if isinstance(t, ast.Compare) and
                                 isinstance(t.comparators[0], ast.Constant)
                                 else False):
                            c = t.comparators[0].value
                            isop = isinstance(t.ops[0], (ast.Is, ast.Eq))
                            if c is True:
                                added = pl if isop else pl.complement()
                            elif c is False:
                                added = pl.complement() if isop else pl
                            if added is not None and neg:
                                added = added.complement()
    except NotAPredicate as ex:
        why = str(ex)
    if added is None:
        res.undecided('R-C03-text', w.qual,
                      'a missing final newline is supplied',
                      'the newline test is outside the predicate model: ' +
                      (why or ast.unparse(test)[:60]), w.module.loc(fix))
        return
    want = Lang.all_strings().concat(Lang.literal(b'\n')).complement()
    # the lexer never yields an empty line; ignore the empty string
    d = added.union(Lang.literal(b'')).difference_witness(
        want.union(Lang.literal(b'')))
    res.check(d is None, 'R-C03-text', w.qual,
              'a missing final newline -- and only a missing one -- is '
              'supplied', 'newline added iff the last line does not end in '
              '\\n (language equality)',
              'when the last Lua line is {!r} the newline is {}: {}'.format(
                  d[0], 'added although the line has one' if d and
                  d[1] == 'left' else 'NOT added', 'the next section header '
                  'is glued to the code' if d and d[1] == 'right' else
                  'an extra blank line appears') if d else '',
              w.module.loc(fix))


def rule_reader_lines(ctx, res, rule_id):
    """every line of a section reaches lua.unicode_to_p8scii decoded as
    UTF-8 and otherwise exactly as it was read from the file"""
    from . import p8trace
    raw, flows = p8trace.reader_line_flow(ctx)
    if not flows:
        res.undecided(rule_id, raw.qual, 'section lines decoded UTF-8 -> '
                      'P8SCII', 'no call of unicode_to_p8scii found on the '
                      'paths of the reading loop', raw.loc)
        return
    bad = None
    unknown = None
    for (cond, decoded, L, _same, node) in flows:
        if not decoded:
            bad = ('the line is not decoded as UTF-8 before the conversion: '
                   + ast.unparse(L)[:80], node)
            continue
        k = p8trace.classify_line_source(ctx, raw, L)
        if k == 'changed':
            bad = ('the text handed to the conversion is not the line as '
                   'read but `{}` (when {}): bytes of the file are altered '
                   'before they are converted'.format(
                       ast.unparse(L)[:80], cond[-120:] or 'always'), node)
        elif k == 'unknown':
            unknown = (ast.unparse(L)[:80], node)
    if bad:
        res.violation(rule_id, raw.qual, 'section lines reach the '
                      'conversion unchanged (UTF-8 decode only)', bad[0],
                      raw.module.loc(bad[1]), semantic=True)
    elif unknown:
        res.undecided(rule_id, raw.qual, 'section lines reach the '
                      'conversion unchanged (UTF-8 decode only)',
                      'provenance of `{}` not followed'.format(unknown[0]),
                      raw.module.loc(unknown[1]))
    else:
        res.holds(rule_id, raw.qual, 'section lines reach the conversion '
                  'unchanged (UTF-8 decode only)', '{} conversion site(s) '
                  'on the paths of the reading loop'.format(len(flows)),
                  raw.loc)


def rule_text(ctx, res, traced=False):
    model = ctx.model
    w = model.func(P8 + ':P8Formatter.to_file')
    rule_lua_lines(ctx, res)
    rule_reader_lines(ctx, res, 'R-C03-text')
    r = model.func(P8 + ':P8Formatter.from_file')
    rs = ast.unparse(r.node).replace(' ', '')
    if not traced:
        _rule_label_shape(ctx, res, w, r, rs)
    # the gfx of the map is re-linked when gfx is read after map
    linked = '._gfx=new_game.gfx' in rs and (
        'gfx=my_gfx' in rs or 'gfx=new_game.gfx' in rs)
    if linked:
        res.holds('R-C03-text', r.qual,
                  'map and gfx stay linked whatever the section order', '',
                  r.loc)
    else:
        res.undecided('R-C03-text', r.qual,
                      'map and gfx stay linked whatever the section order',
                      'the re-linking of map and gfx is not written in the '
                      'recognised form', r.loc)


def _rule_label_shape(ctx, res, w, r, rs):
    model = ctx.model
    lab = False
    for n in w.node.body:
        if isinstance(n, ast.If) and ast.unparse(n.test) == 'game.label':
            t = ast.unparse(n).replace(' ', '')
            lab = "outstr.write(b'__label__\\n')" in t and \
                'game.label.to_lines()' in t and not n.orelse
    res.check(lab, 'R-C03-text', w.qual, '__label__ written iff the cart '
              'has a label', '', 'label section is written unconditionally '
              'or from another source', w.loc)
    res.check('new_game.label=None' in rs and
              "new_game.label=Gfx.from_lines(" in rs, 'R-C03-text', r.qual,
              'reader starts without a label and sets it from __label__',
              '', 'label reading changed', r.loc)


def run(ctx, res):
    sizes = _region_sizes(ctx)
    decided = set()
    try:
        decided = rule_roundtrip(ctx, res, sizes)
    except AnalysisError as e:
        res.info('R-C03-layout', 'rule_roundtrip', 'analysis', str(e))
    traced = False
    try:
        rule_sections_traced(ctx, res)
        traced = True
    except AnalysisError as e:
        res.info('R-C03-sections', 'rule_sections_traced', 'path-wise model '
                 'of to_file / from_file not extracted', str(e)[:160])
    for rule, args in ((rule_sections, (traced,)),
                       (rule_linelen, (sizes, decided)),
                       (rule_layout, (decided,)), (rule_text, (traced,))):
        try:
            rule(ctx, res, *args)
        except AnalysisError as e:
            res.undecided('R-C03-' + rule.__name__[5:], rule.__name__,
                          'analysis', str(e))
    # "identical Lua code": the __lua__ section is written through the echo
    # writer, which re-spells every string literal from its decoded value
    # (TokString.code); reading it back must give the same value (shared with
    # C06 -- a literal that closes early changes the code that follows it)
    from . import c06
    from .. import leximpl
    try:
        c06.rule_escapes(ctx, res, leximpl.LexerSource(ctx))
    except AnalysisError as e:
        res.undecided('R-C06-escapes', 'pico8.lua.lexer:TokString.code',
                      'analysis', str(e))
