"""C13 -- build takes each section from exactly the source the arguments name.

Rules: R-C13-sections (four sibling tables agree), R-C13-select (symbolic
dataflow over the selection loop), R-C13-fail (error exits precede the only
write), R-C01-wiring for the `build` subparser, R-C04-label (shared, run by
C11).
"""
import ast

from ..core import AnalysisError

from ..cfg import cfg_of
from ..srcmodel import walk_own, FuncInfo, const_str
from .common import assignments_to, unparse
from . import cli

EXPLANATION = (
    'R-C13-sections: the tuple iterated by build.do_build (evaluated), the '
    'set of X for which the `build` subparser declares both --X and '
    '--empty-X, the section attributes Game.make_empty_game assigns, and the '
    'regions of the cart memory map plus lua are one and the same set. '
    'R-C13-select: the loop body is analysed with the loop variable kept '
    'symbolic: every store into result.<section> is classified by the '
    'origin of its value (getattr(<cart loaded from the file the --X option '
    'names>, <same symbol>), getattr(<make_empty_game()>, <same symbol>), or '
    'the .lua file path for lua) and by the CFG edges that dominate it (the '
    '"source given" test, the "--empty-X" test on the else side); any other '
    'store is a violation; `result` starts as from_file(OUT) iff '
    'os.path.exists(OUT), else an empty game. R-C13-fail: the conflict, '
    'missing-file and wrong-extension tests each dominate the load of the '
    'section, each leads to a non-zero return, and no error exit is '
    'reachable after, or can reach, the single file.to_file call -- with C11 '
    'this gives "fail => OUT untouched". R-C01-wiring: every option declared '
    'for `build` is consumed where it has an effect.')

ASSUMPTIONS = [
    'equality of section bytes in OUT additionally needs the codecs (C03/C04)',
    'argparse maps --empty-x to attribute empty_x (stdlib semantics)',
]


def rule_sections(ctx, res):
    model, ev = ctx.model, ctx.consts
    qual = 'pico8.build.build:do_build'
    f = model.func(qual)
    loops = [n for n in walk_own(f.node) if isinstance(n, ast.For)]
    loop_sets = []
    for lp in loops:
        v = ev.eval_expr(f.module, lp.iter)
        if isinstance(v, (tuple, list)) and v and \
                all(isinstance(x, str) for x in v):
            loop_sets.append((lp, list(v)))
    if len(loop_sets) != 1:
        res.vanished('R-C13-sections', qual, 'section loop',
                     'expected exactly one loop over a tuple of section '
                     'names, found {}'.format(len(loop_sets)))
        return None
    loop, sections = loop_sets[0]
    res.tables['do_build.sections'] = sections
    glob, subs = cli.argparser_table(model)
    build = subs.get('build')
    if build is None:
        res.vanished('R-C13-sections', 'pico8.tool:_get_argparser', 'build',
                     'subcommand missing')
        return None
    both = sorted(d for d in build.options
                  if 'empty_' + d in build.options)
    either = sorted({d for d in build.options if d.startswith('empty_')})
    res.tables['build.options'] = sorted(build.options)
    # make_empty_game attributes
    g = model.func('pico8.game.game:Game.make_empty_game')
    attrs = []
    for n in walk_own(g.node):
        if isinstance(n, ast.Assign):
            for t in n.targets:
                if isinstance(t, ast.Attribute) and \
                        isinstance(t.value, ast.Name):
                    attrs.append(t.attr)
    game_sections = sorted(set(attrs) - {'label', 'version'})
    # memory map regions
    w = model.func('pico8.game.game:Game.write_cart_data')
    from .c18 import extract_rows
    try:
        regions = {n for (_a, _b, n) in extract_rows(ctx, w)}
    except AnalysisError as e:
        # a cross-check with a sibling table that belongs to C18; when that
        # table is not extractable the comparison is skipped, not failed
        res.info('R-C13-sections', w.qual, 'memory map',
                 'memory map not extracted (sibling cross-check skipped): ' +
                 str(e)[:120], w.loc)
        regions = None
    mem_sections = sorted(regions | {'lua'}) if regions is not None \
        else None
    ref = sorted(sections)
    for name, other, loc in (
            ('argparse --X/--empty-X pairs', both,
             'pico8.tool:_get_argparser'),
            ('Game.make_empty_game attributes', game_sections, g.qual),
            ('memory map regions + lua', mem_sections, w.qual)):
        if other is None:
            continue
        res.check(other == ref, 'R-C13-sections', qual,
                  'loop sections == ' + name,
                  '{} == {}'.format(ref, other),
                  'section tables disagree: loop {} vs {} {}'.format(
                      ref, name, other), f.module.loc(loop))
    for e in either:
        x = e[len('empty_'):]
        res.check(x in build.options, 'R-C13-sections',
                  'pico8.tool:_get_argparser', '--empty-{} has --{}'.format(
                      x, x), '', '--empty-{0} declared without --{0}'.format(x))
    # option shapes: --X is a string option with default None, --empty-X a flag
    for s in sections:
        o, eo = build.options.get(s), build.options.get('empty_' + s)
        if o is None or eo is None:
            continue
        res.check(o.action == 'store' and o.default is None and
                  eo.action == 'store_true' and eo.default is False,
                  'R-C13-sections', 'pico8.tool:_get_argparser',
                  'option shapes for ' + s,
                  '--{0} stores a name (default None), --empty-{0} is a '
                  'flag'.format(s),
                  'option shape changed: {} / {}'.format(o, eo),
                  model.func('pico8.tool:_get_argparser').module.loc(o.call))
    res.require_min('R-C13-sections', 3 + 6)
    return loop, sections


def _is_getattr(e, obj=None):
    return (isinstance(e, ast.Call) and isinstance(e.func, ast.Name) and
            e.func.id == 'getattr' and len(e.args) >= 2 and
            (obj is None or (isinstance(e.args[0], ast.Name) and
                             e.args[0].id == obj)))


def _origin(model, f, name):
    """Classify a local by the call that produced it:
    ('from_file', arg) | ('empty', None) | ('lua_from_lines', arg) | None"""
    kinds = []
    for (st, v) in assignments_to(f.node, name):
        if not isinstance(v, ast.Call):
            kinds.append(None)
            continue
        kind, targets = model.resolve_call(f, v)
        quals = {t.qual for t in targets if isinstance(t, FuncInfo)}
        if 'pico8.game.file:from_file' in quals:
            kinds.append(('from_file', v.args[0] if v.args else None))
        elif 'pico8.game.game:Game.make_empty_game' in quals:
            kinds.append(('empty', None))
        else:
            kinds.append(None)
    return kinds


def rule_select(ctx, res, loop, sections):
    model = ctx.model
    qual = 'pico8.build.build:do_build'
    f = model.func(qual)
    cfg = cfg_of(f)
    argname = f.params()[0]
    if not isinstance(loop.target, ast.Name):
        res.undecided('R-C13-select', qual, 'loop variable',
                      'loop target is not a simple name')
        return
    sec = loop.target.id
    in_loop = set(id(n) for s in loop.body for n in walk_own(s))
    # classify tests in the loop
    given_tests, empty_tests = [], []
    from .. import norm
    given_label = 'true'
    for n in cfg.nodes:
        if n.kind != 'test' or id(n.ast) not in in_loop:
            continue
        t = norm.subst_locals(f.node, n.ast)
        neg = False
        while isinstance(t, ast.UnaryOp) and isinstance(t.op, ast.Not):
            t, neg = t.operand, not neg
        # getattr(args, section, None) is [not] None
        if isinstance(t, ast.Compare) and len(t.ops) == 1 and \
                isinstance(t.ops[0], (ast.IsNot, ast.Is)) and \
                _is_getattr(t.left, argname) and \
                isinstance(t.left.args[1], ast.Name) and \
                t.left.args[1].id == sec and \
                isinstance(t.comparators[0], ast.Constant) and \
                t.comparators[0].value is None:
            if not given_tests:
                pos = isinstance(t.ops[0], ast.IsNot) != neg
                given_label = 'true' if pos else 'false'
            given_tests.append(n)
        elif _is_getattr(t, argname) and _is_empty_key(t.args[1], sec) \
                and not neg:
            empty_tests.append(n)
    if not given_tests:
        res.violation('R-C13-select', qual, 'source-given test',
                      'no test "getattr(args, section, None) is not None" '
                      'in the selection loop', f.module.loc(loop))
        return
    given = given_tests[0]
    # the file name variable: fn = getattr(args, section)
    fn_names = set()
    for n in walk_own(loop):
        if isinstance(n, ast.Assign) and _is_getattr(n.value, argname) and \
                isinstance(n.value.args[1], ast.Name) and \
                n.value.args[1].id == sec:
            for t in n.targets:
                if isinstance(t, ast.Name):
                    fn_names.add(t.id)
    # result variable
    result_names = set()
    for n in walk_own(f.node):
        if isinstance(n, ast.Call):
            kind, targets = model.resolve_call(f, n)
            if any(isinstance(t, FuncInfo) and
                   t.qual == 'pico8.game.file:to_file' for t in targets):
                if n.args and isinstance(n.args[0], ast.Name):
                    result_names.add(n.args[0].id)
                for k in n.keywords:
                    if k.arg == 'game' and isinstance(k.value, ast.Name):
                        result_names.add(k.value.id)
    if len(result_names) != 1:
        res.vanished('R-C13-select', qual, 'result variable',
                     'cannot identify the game handed to file.to_file')
        return
    result = result_names.pop()
    # stores into result
    stores = []
    for n in walk_own(loop):
        if isinstance(n, ast.Call) and isinstance(n.func, ast.Name) and \
                n.func.id == 'setattr' and len(n.args) == 3 and \
                isinstance(n.args[0], ast.Name) and n.args[0].id == result:
            stores.append((n, n.args[1], n.args[2]))
        elif isinstance(n, ast.Assign):
            for t in n.targets:
                if isinstance(t, ast.Attribute) and \
                        isinstance(t.value, ast.Name) and t.value.id == result:
                    stores.append((n, ast.Constant(t.attr), n.value))
    n_src = n_empty = 0
    expanded = []
    for (node, key, val) in stores:
        for _ in range(3):      # see through single-assignment local aliases
            if isinstance(val, ast.Name):
                asg = assignments_to(f.node, val.id)
                if len(asg) == 1 and asg[0][1] is not None and \
                        id(asg[0][0]) in in_loop:
                    val = asg[0][1]
        if isinstance(val, ast.Name):
            asg = [(st_, v_) for (st_, v_) in assignments_to(f.node, val.id)
                   if v_ is not None and id(st_) in in_loop]
            if len(asg) > 1 and len(asg) == len(
                    assignments_to(f.node, val.id)):
                # several definitions reach the store: judge each where it
                # is made (its own guards), the store itself being common
                for (st_, v_) in asg:
                    expanded.append((st_, key, v_))
                continue
        expanded.append((node, key, val))
    for (node, key, val) in expanded:
        for _ in range(3):
            if isinstance(val, ast.Name):
                asg = assignments_to(f.node, val.id)
                if len(asg) == 1 and asg[0][1] is not None and \
                        id(asg[0][0]) in in_loop:
                    val = asg[0][1]
        loc = f.module.loc(node)
        cnodes = cfg.nodes_of(node)
        under_given = all(cfg.edge_dominates(given, given_label, c)
                          for c in cnodes)
        sym = isinstance(key, ast.Name) and key.id == sec
        const_key = key.value if isinstance(key, ast.Constant) else None
        inst = 'result.{} := {}'.format(
            '<section>' if sym else const_key, unparse(val, 60))
        # value classification
        if _is_getattr(val) and isinstance(val.args[0], (ast.Name,
                                                         ast.Call)):
            same = ast.dump(val.args[1]) == ast.dump(key)
            if isinstance(val.args[0], ast.Name):
                src = val.args[0].id
                origins = _origin(model, f, src)
            else:
                src = unparse(val.args[0], 40)
                c_ = val.args[0]
                kind_, targets_ = model.resolve_call(f, c_)
                quals_ = {t.qual for t in targets_ if isinstance(t, FuncInfo)}
                origins = []
                if 'pico8.game.file:from_file' in quals_ and c_.args:
                    origins = [('from_file', c_.args[0])]
            if origins and all(o and o[0] == 'from_file' for o in origins):
                arg_ok = all(isinstance(o[1], ast.Name) and o[1].id in fn_names
                             for o in origins)
                ok = same and sym and under_given and arg_ok
                n_src += 1
                res.check(ok, 'R-C13-select', qual, inst,
                          'section taken from the cart the --<section> '
                          'option names, same symbol on both sides, under '
                          'the source-given test',
                          'source selection broken: same-symbol={} symbolic='
                          '{} under-given-test={} loads-named-file={}'.format(
                              same, sym, under_given, arg_ok), loc)
                continue
            if origins and all(o and o[0] == 'empty' for o in origins):
                under_empty = any(
                    all(cfg.edge_dominates(e, 'true', c) for c in cnodes)
                    for e in empty_tests)
                not_given = all(cfg.edge_dominates(
                    given, 'false' if given_label == 'true' else 'true', c)
                    for c in cnodes)
                ok = same and sym and under_empty and not_given
                n_empty += 1
                res.check(ok, 'R-C13-select', qual, inst,
                          'empty default taken only when no source is given '
                          'and --empty-<section> is set',
                          'empty selection broken: same-symbol={} symbolic={} '
                          'under-empty-flag={} on-else-side={}'.format(
                              same, sym, under_empty, not_given), loc)
                continue
            res.violation('R-C13-select', qual, inst,
                          'section value comes from `{}`, which is neither '
                          'the named source cart nor the empty game'.format(
                              src), loc)
            continue
        # result.lua = <parsed .lua file>
        if sym and not _is_getattr(val):
            for cand in ('lua',):
                g_eq = [n for n in cfg.nodes
                        if n.kind == 'test' and id(n.ast) in in_loop and
                        _mentions_eq(n.ast, sec, cand)]
                if any(all(cfg.edge_dominates(g, 'true', c) for c in cnodes)
                       for g in g_eq):
                    const_key = cand
        if const_key == 'lua' or (sym is False and const_key):
            guards_eq = [
                n for n in cfg.nodes
                if n.kind == 'test' and id(n.ast) in in_loop and
                _mentions_eq(n.ast, sec, const_key)]
            under_eq = any(all(cfg.edge_dominates(g, 'true', c)
                               for c in cnodes) for g in guards_eq)
            derives = _derives_from_named_file(model, f, val, fn_names, result,
                                               const_key)
            ok = under_eq and under_given and derives
            res.check(ok, 'R-C13-select', qual, inst,
                      'direct store guarded by section == {!r} under the '
                      'source-given test; value parsed from the named '
                      'file'.format(const_key),
                      'direct store to result.{}: guarded-by-section-test={} '
                      'under-given-test={} value-from-named-file={}'.format(
                          const_key, under_eq, under_given, derives), loc)
            n_src += 1
            continue
        res.violation('R-C13-select', qual, inst,
                      'unclassified store into the result cart', loc)
    res.check(n_src >= 1, 'R-C13-select', qual, 'a source store exists',
              '', 'no store takes a section from the named source',
              f.module.loc(loop))
    res.check(n_empty >= 1, 'R-C13-select', qual, 'an empty store exists',
              '', '--empty-X has no effect: no store from the empty game',
              f.module.loc(loop))
    # result := from_file(OUT) iff exists(OUT) else empty game
    rasg = [(st, v) for (st, v) in assignments_to(f.node, result)
            if id(st) not in in_loop]
    kinds = _origin(model, f, result)
    kinds = [k for (k, (st, v)) in zip(kinds, assignments_to(f.node, result))
             if id(st) not in in_loop]
    ok = False
    detail = 'initial value of the result cart not recognised'
    if len(rasg) == 2 and all(kinds):
        by = {k[0]: (st, k) for k, (st, _v) in zip(kinds, rasg)}
        if set(by) == {'from_file', 'empty'}:
            st_ff, k_ff = by['from_file']
            st_em, _ = by['empty']
            p = getattr(st_ff, '_parent', None)
            if isinstance(p, ast.If) and st_ff in p.body and \
                    st_em in p.orelse:
                t = p.test
                is_exists = (isinstance(t, ast.Call) and model.ext_name(
                    f.module, t.func) == 'os.path.exists')
                same_arg = is_exists and k_ff[1] is not None and \
                    ast.dump(t.args[0]) == ast.dump(k_ff[1]) and \
                    'filename' in ast.unparse(t.args[0])
                ok = is_exists and same_arg
                detail = 'exists-test={} same-path={}'.format(is_exists,
                                                              same_arg)
    res.check(ok, 'R-C13-select', qual,
              'result := from_file(OUT) iff exists(OUT) else empty',
              'unspecified sections keep OUT\'s previous content, or the '
              'empty default if OUT did not exist', detail, f.loc)
    res.require_min('R-C13-select', 5)


def _is_empty_key(e, sec):
    return (isinstance(e, ast.BinOp) and isinstance(e.op, ast.Add) and
            isinstance(e.left, ast.Constant) and e.left.value == 'empty_' and
            isinstance(e.right, ast.Name) and e.right.id == sec)


def _mentions_eq(test, sec, const):
    for c in walk_own(test):
        if isinstance(c, ast.Compare) and len(c.ops) == 1 and \
                isinstance(c.ops[0], ast.Eq):
            l, r = c.left, c.comparators[0]
            for a, b in ((l, r), (r, l)):
                if isinstance(a, ast.Name) and a.id == sec and \
                        isinstance(b, ast.Constant) and b.value == const:
                    # must be a conjunct (and-chain), not under `or`/`not`
                    p = getattr(c, '_parent', None)
                    okp = True
                    while p is not None and p is not test and \
                            not isinstance(p, ast.stmt):
                        if isinstance(p, ast.BoolOp) and \
                                isinstance(p.op, ast.Or):
                            okp = False
                        if isinstance(p, ast.UnaryOp):
                            okp = False
                        p = getattr(p, '_parent', None)
                    if isinstance(test, ast.BoolOp) and \
                            isinstance(test.op, ast.Or):
                        okp = False
                    if okp:
                        return True
    return False


def _derives_from_named_file(model, f, val, fn_names, result, attr):
    """val is computed from a stream opened on the named file, or from the
    previous result.<attr> (post-processing such as prepending packages)."""
    for x in walk_own(val):
        if isinstance(x, ast.Attribute) and isinstance(x.value, ast.Name) \
                and x.value.id == result and x.attr == attr:
            return True
    seen = set()
    work = [x.id for x in walk_own(val) if isinstance(x, ast.Name)]
    while work:
        nm = work.pop()
        if nm in seen:
            continue
        seen.add(nm)
        if nm in fn_names:
            return True
        for (st, v) in assignments_to(f.node, nm):
            if isinstance(st, ast.With):
                for it in st.items:
                    for a in walk_own(it.context_expr):
                        if isinstance(a, ast.Name) and a.id in fn_names:
                            return True
            if v is None:
                continue
            for a in walk_own(v):
                if isinstance(a, ast.Name):
                    if a.id in fn_names:
                        return True
                    work.append(a.id)
    return False


def rule_fail(ctx, res, loop):
    model = ctx.model
    qual = 'pico8.build.build:do_build'
    f = model.func(qual)
    cfg = cfg_of(f)
    writes = []
    for n in model.own_nodes(f.node):
        if isinstance(n, ast.Call):
            kind, targets = model.resolve_call(f, n)
            if any(isinstance(t, FuncInfo) and
                   t.qual == 'pico8.game.file:to_file' for t in targets):
                writes.append(n)
    if len(writes) != 1:
        res.violation('R-C13-fail', qual, 'single write',
                      '{} calls to file.to_file (expected exactly one, after '
                      'all checks)'.format(len(writes)), f.loc)
        return
    w = writes[0]
    wnodes = cfg.nodes_of(w)
    in_loop = any(w is x for s in loop.body for x in walk_own(s))
    res.check(not in_loop, 'R-C13-fail', qual, 'write outside the loop',
              'the cart is written once, after every section was selected',
              'file.to_file is called inside the selection loop: a later '
              'section\'s error leaves OUT partially built',
              f.module.loc(w))
    # error exits
    err_returns = []
    for n in cfg.nodes:
        if isinstance(n.ast, ast.Return) and n.ast.value is not None:
            v = n.ast.value
            if isinstance(v, ast.Constant) and isinstance(v.value, int) \
                    and v.value != 0:
                err_returns.append(n)
    after = cfg.reachable_from([m for wn in wnodes for (m, l) in wn.succ
                                if l != 'exc'])
    for r in err_returns:
        res.check(r not in after, 'R-C13-fail', qual,
                  'error return not after the write',
                  'non-zero return precedes the only write',
                  'a failing exit follows file.to_file: OUT is modified '
                  'although the command fails', f.module.loc(r.ast))
    raises = [n for n in cfg.nodes if isinstance(n.ast, ast.Raise)]
    for r in raises:
        res.check(r not in after, 'R-C13-fail', qual,
                  'raise not after the write', '', 'raise after the write',
                  f.module.loc(r.ast))
    # output filename extension check dominates everything else
    ext_guard = None
    for n in cfg.nodes:
        if n.kind == 'test' and 'endswith' in ast.unparse(n.ast) and \
                'filename' in ast.unparse(n.ast) and \
                all(id(n.ast) != id(x) for s in loop.body
                    for x in walk_own(s)):
            ext_guard = n
    res.check(ext_guard is not None and all(
        cfg.dominates(ext_guard, wn) for wn in wnodes),
        'R-C13-fail', qual, 'output extension test',
        'OUT\'s extension is validated before anything is loaded',
        'no extension test on the output file name', f.loc)
    # three per-section validations dominating the load
    loads = []
    for n in walk_own(loop):
        if isinstance(n, ast.Call):
            kind, targets = model.resolve_call(f, n)
            quals = {t.qual for t in targets if isinstance(t, FuncInfo)}
            ext = model.ext_name(f.module, n.func)
            if 'pico8.game.file:from_file' in quals or ext == 'open':
                loads.append(n)
    if not loads:
        res.vanished('R-C13-fail', qual, 'loads', 'no source load in loop')
        return
    kinds = {'conflict': [], 'missing': [], 'extension': []}
    for n in cfg.nodes:
        if n.kind != 'test' or not any(
                n.ast is x for s in loop.body for x in walk_own(s)):
            continue
        for label in ('true', 'false'):
            succ = cfg.succ_by_label(n, label)
            loop_heads = set(cfg.nodes_of(loop)) & {
                x for x in cfg.nodes if x.kind == 'iter'}
            reach = cfg.reachable_from(succ, avoid={n} | loop_heads)
            hits_err = any(r in reach for r in err_returns)
            other = 'false' if label == 'true' else 'true'
            rejoins = any(m in reach for m in cfg.succ_by_label(n, other))
            if hits_err and not rejoins and cfg.exit in reach and \
                    not any(ld in reach for l in loads
                            for ld in cfg.nodes_of(l)):
                from .. import norm as _norm
                src = ast.unparse(_norm.subst_locals(f.node, n.ast))
                if "'empty_'" in src:
                    kinds['conflict'].append(n)
                elif 'os.path.exists' in src:
                    kinds['missing'].append(n)
                elif 'endswith' in src:
                    kinds['extension'].append(n)
    for k, tests in kinds.items():
        ok = bool(tests) and all(
            any(cfg.dominates(t, ln) for t in tests)
            for l in loads for ln in cfg.nodes_of(l))
        res.check(ok, 'R-C13-fail', qual, k + ' check dominates the load',
                  'failing {} test returns non-zero before any source is '
                  'read'.format(k),
                  'the {} validation is missing or does not dominate the '
                  'load of the section'.format(k), f.module.loc(loop))
    res.require_min('R-C13-fail', 6)


def run(ctx, res):
    from . import c13eval
    evaluated = c13eval.report(ctx, res)
    sections = c13eval.SECTIONS
    # the statement-form rules read the same facts off the loop's shape and
    # see what an evaluation of single calls cannot (a cache around the cart
    # loader, a source that is neither the named file nor OUT); where they
    # cannot follow a rewritten do_build the evaluated verdict stands and
    # their "cannot follow" is kept as information only
    mark = len(res.instances)
    try:
        r = rule_sections(ctx, res)
        if r is not None:
            loop, sections = r
            rule_select(ctx, res, loop, sections)
            rule_fail(ctx, res, loop)
    except AnalysisError as e:
        if not evaluated:
            raise
        res.info('R-C13-select', 'pico8.build.build:do_build',
                 'statement-form rules', 'not followed: ' + str(e)[:120])
    if evaluated:
        for i in res.instances[mark:]:
            if i.verdict in ('UNDECIDED', 'VANISHED'):
                i.verdict = 'INFO'
                i.detail = 'statement form not recognised (the evaluated ' \
                    'rule decides): ' + (i.detail or '')
    secs = set(sections) | {'empty_' + s for s in sections} | {
        'filename', 'lua_path'}
    cli.rule_wiring(ctx, res, 'build', check_writer=False, only_options=secs)
