"""C06 -- unchanged code stays unchanged: the default writer echoes the source
losslessly.  Rules: R-C06-cover, R-C06-echo, R-C06-escapes.
"""
import ast

from .. import rx, leximpl
from ..cfg import cfg_of
from ..consteval import UNKNOWN
from ..core import AnalysisError
from ..refs import escapes as ref
from ..srcmodel import walk_own, const_str, FuncInfo
from .common import assignments_to, unparse
from . import strenc

EXPLANATION = (
    'R-C06-cover: per branch of Lexer._process_token the extent stored in the '
    'token equals the extent consumed: table rows store m.group(0) and '
    'consume len(m.group(0)) (and no row has class None, C07); block '
    'comments store s[:i] with i = index(terminator)+len(terminator) or the '
    'whole chunk; long strings store the text before the closing bracket and '
    'TokString.code regenerates opener and closer from the recorded level; '
    'the driver loop stops only when nothing was consumed and then raises on '
    'a non-empty remainder. R-C06-echo: LuaEchoWriter appends the code of '
    'every token exactly once, in order, flushes at each newline token and '
    'once more at the end; Lua.to_lines defaults to it and the cart writers '
    'pass no other writer by default. R-C06-escapes: the string re-encoder '
    '(TokString.code) and the in-string decoder are both extracted as '
    'specifications (evaluated escape tables, the decimal / hex escape '
    'patterns as automata, the digit-padding rule); their composition is '
    'checked exhaustively over every byte value in every right context '
    '(256 x 257 x 2 quote kinds): decode(encode(b)) == b and the closing '
    'quote still closes; and every escape form of refs/escapes.py decodes to '
    'its reference value.')

ASSUMPTIONS = [
    'byte-for-byte equality of a concrete echo is the composition of the '
    'three rules (paper argument)',
    'sources the lexer rejects are outside the property',
    '\\ddd > 255 is an invalid literal in Lua too (out of scope)',
]

LX = 'pico8.lua.lexer'


# ------------------------------------------------------------------ cover --

def rule_cover(ctx, res, src):
    f = src.f
    where = f.qual
    s = src.s_name
    table = [l for l in src.links if l['kind'] == 'table'][0]
    loop = table['loop']
    # token data and consumed length are the same expression
    data_e = None
    len_e = None
    for n in walk_own(loop):
        if isinstance(n, ast.Call) and isinstance(n.func, ast.Name) and \
                n.func.id == 'tok_class' and n.args:
            data_e = n.args[0]
        if isinstance(n, ast.Assign) and isinstance(n.targets[0], ast.Name) \
                and n.targets[0].id == 'i' and \
                isinstance(n.value, ast.Call) and \
                isinstance(n.value.func, ast.Name) and \
                n.value.func.id == 'len':
            len_e = n.value.args[0]
    ok = data_e is not None and len_e is not None and \
        ast.dump(data_e) == ast.dump(len_e) and \
        ast.unparse(data_e).endswith('.group(0)')
    res.check(ok, 'R-C06-cover', where, 'table rows: stored == consumed',
              'token data m.group(0), consumed len(m.group(0))',
              'token stores {} but {} bytes are consumed'.format(
                  unparse(data_e) if data_e is not None else '?',
                  unparse(len_e) if len_e is not None else '?'),
              f.module.loc(loop))
    # the match is anchored at the start of the remaining text
    anchored = any(isinstance(n, ast.Call) and isinstance(n.func, ast.Attribute)
                   and n.func.attr == 'match' and n.args and
                   isinstance(n.args[0], ast.Name) and n.args[0].id == s
                   for n in walk_own(loop))
    res.check(anchored, 'R-C06-cover', where,
              'rows are matched at the start of the remaining text', '',
              'rows are searched, not matched: skipped text disappears',
              f.module.loc(loop))
    # block comment
    for op in src.openers:
        cont = op.get('cont')
        if cont is None:
            continue
        state = cont['state']
        body_src = [ast.unparse(x) for x in cont['body']]
        if op['kind'] == 'prefix' and len(op['prefixes']) == 1 and \
                len(op['prefixes'][0]) > 1:
            pre = op['prefixes'][0]
            # opener stores its own text
            init_ok = any(
                isinstance(n, ast.Assign) and
                isinstance(n.targets[0], ast.Attribute) and
                n.targets[0].attr == state and
                isinstance(n.value, ast.List) and len(n.value.elts) == 1 and
                const_str(n.value.elts[0]) == pre
                for st in op['body'] for n in walk_own(st))
            appends = [n for st in cont['body'] for n in walk_own(st)
                       if isinstance(n, ast.Call) and
                       isinstance(n.func, ast.Attribute) and
                       n.func.attr == 'append' and
                       state in ast.unparse(n.func.value)]
            forms = sorted(ast.unparse(a.args[0]) for a in appends)
            ok = init_ok and forms == [s, s + '[:i]']
            joined = any('join(self.' + state + ')' in x.replace(' ', '')
                         for x in body_src) or any(
                "b''.join(self." + state + ")" in ast.unparse(n)
                for st in cont['body'] for n in walk_own(st))
            res.check(ok and joined, 'R-C06-cover', where,
                      'block comment: every consumed byte is stored',
                      'opener text + chunks + text up to and including the '
                      'terminator', 'block comment storage changed: opener '
                      'stored={} appended={}'.format(init_ok, forms),
                      f.module.loc(cont['node']))
        elif op['kind'] == 'regex':
            appends = [n for st in cont['body'] for n in walk_own(st)
                       if isinstance(n, ast.Call) and
                       isinstance(n.func, ast.Attribute) and
                       n.func.attr == 'append' and
                       state in ast.unparse(n.func.value)]
            forms = sorted(ast.unparse(a.args[0]) for a in appends)
            consumed = any(isinstance(n, ast.Assign) and
                           isinstance(n.targets[0], ast.Name) and
                           n.targets[0].id == 'i' and
                           ast.unparse(n.value) == 'm.end()'
                           for st in cont['body'] for n in walk_own(st))
            ok = forms == [s, s + '[:m.start()]'] and consumed
            res.check(ok, 'R-C06-cover', where,
                      'long string: text before the closer stored, closer '
                      'consumed', '', 'long string storage changed: {} '
                      'consumed-to-m.end()={}'.format(forms, consumed),
                      f.module.loc(cont['node']))
            # level recorded at the opener and used by the re-encoder
            lvl = any(isinstance(n, ast.Assign) and
                      isinstance(n.targets[0], ast.Attribute) and
                      n.targets[0].attr.endswith('_delim') and
                      ast.unparse(n.value) == 'm.group(1)'
                      for st in op['body'] for n in walk_own(st))
            passes = any(k.arg == 'multiline_quote'
                         for st in cont['body'] for n in walk_own(st)
                         if isinstance(n, ast.Call)
                         for k in n.keywords)
            res.check(lvl and passes, 'R-C06-cover', where,
                      'long string level recorded and handed to the token',
                      '', 'bracket level is not recorded / passed on',
                      f.module.loc(op['node']))
    # TokString.code regenerates the long brackets
    code = ctx.model.func(LX + ':TokString.code')
    rets = [r for r in walk_own(code.node) if isinstance(r, ast.Return)]
    long_ok = False
    for r in rets:
        parts = []

        def flat(x):
            if isinstance(x, ast.BinOp) and isinstance(x.op, ast.Add):
                flat(x.left)
                flat(x.right)
            else:
                parts.append(x)
        flat(r.value)
        txt = [const_str(p) if isinstance(const_str(p), bytes)
               else ast.unparse(p) for p in parts]
        if txt == [b'[', 'self._multiline_quote', b'[', 'self._data', b']',
                   'self._multiline_quote', b']']:
            long_ok = True
    res.check(long_ok, 'R-C06-cover', code.qual,
              'long string re-spelled as [level[ data ]level]', '',
              'long bracket re-spelling changed', code.loc)
    # driver loop
    pl = ctx.model.func(LX + ':Lexer._process_line')
    src_pl = ast.unparse(pl.node)
    ok = 'line = line[i:]' in src_pl and 'if i == 0' in src_pl
    res.check(ok, 'R-C06-cover', pl.qual,
              'driver consumes exactly what a step reports', '',
              'driver loop no longer slices by the consumed length', pl.loc)
    res.require_min('R-C06-cover', 6)


# ------------------------------------------------------------------- echo --

def rule_echo(ctx, res):
    model = ctx.model
    q = 'pico8.lua.lua:LuaEchoWriter.to_lines'
    f = model.func(q)
    loops = [n for n in f.node.body if isinstance(n, ast.For)]
    ok = False
    detail = 'loop over self._tokens not found'
    if len(loops) == 1 and ast.unparse(loops[0].iter) == 'self._tokens' and \
            isinstance(loops[0].target, ast.Name):
        lp = loops[0]
        tok = lp.target.id
        appends = [n for n in walk_own(lp) if isinstance(n, ast.Call) and
                   isinstance(n.func, ast.Attribute) and
                   n.func.attr == 'append']
        first = lp.body[0] if lp.body else None
        app_ok = len(appends) == 1 and isinstance(first, ast.Expr) and \
            first.value is appends[0] and \
            ast.unparse(appends[0].args[0]) == tok + '.code'
        buf = ast.unparse(appends[0].func.value) if appends else '?'
        flush = [n for n in lp.body if isinstance(n, ast.If)]
        fl_ok = False
        if len(flush) == 1:
            t = ast.unparse(flush[0].test)
            ys = [y for s in flush[0].body for y in walk_own(s)
                  if isinstance(y, ast.Yield)]
            clears = any('clear' in ast.unparse(s) or
                         ast.unparse(s).replace(' ', '') == buf + '=[]'
                         for s in flush[0].body)
            fl_ok = 'TokNewline' in t and len(ys) == 1 and \
                ast.unparse(ys[0].value).replace(' ', '') == \
                "b''.join({})".format(buf) and clears and \
                not flush[0].orelse
        # trailing flush after the loop
        after = f.node.body[f.node.body.index(lp) + 1:]
        tail_ok = len(after) == 1 and isinstance(after[0], ast.If) and \
            ast.unparse(after[0].test) == buf and any(
                isinstance(y, ast.Yield) for s in after[0].body
                for y in walk_own(s))
        no_filter = not any(isinstance(n, ast.Continue) for n in walk_own(lp))
        ok = app_ok and fl_ok and tail_ok and no_filter
        detail = ('append-code-first={} flush-at-newline={} trailing-flush={} '
                  'no-skip={}'.format(app_ok, fl_ok, tail_ok, no_filter))
    res.check(ok, 'R-C06-echo', q,
              'every token\'s code once, in order; flush per line and at the '
              'end', detail, 'echo writer changed: ' + detail, f.loc)
    # default writer selection
    tl = model.func('pico8.lua.lua:Lua.to_lines')
    sel = False
    for n in walk_own(tl.node):
        if isinstance(n, ast.If) and 'writer_cls is None' in ast.unparse(
                n.test):
            for s in n.body:
                if ast.unparse(s).replace(' ', '') == \
                        'writer_cls=LuaEchoWriter':
                    sel = True
    res.check(sel, 'R-C06-echo', tl.qual, 'default writer is LuaEchoWriter',
              '', 'Lua.to_lines no longer defaults to the echo writer',
              tl.loc)
    passes_tokens = 'tokens=self._lexer.tokens' in ast.unparse(
        tl.node).replace(' ', '')
    res.check(passes_tokens, 'R-C06-echo', tl.qual,
              'writer receives the lexer\'s token list', '',
              'writer is handed something other than the lexed tokens',
              tl.loc)
    # callers that must echo: writep8, file.to_file default, build copy
    for q2 in ('pico8.tool:writep8',):
        g = model.func(q2)
        calls = [c for c in walk_own(g.node) if isinstance(c, ast.Call) and
                 'to_file' in ast.unparse(c.func)]
        ok = bool(calls) and all(
            not any(k.arg in ('lua_writer_cls', 'lua_writer_args')
                    for k in c.keywords) for c in calls)
        res.check(ok, 'R-C06-echo', q2, 'writes with the default writer', '',
                  'a transforming writer is selected for a plain write',
                  g.loc)
    for q2, pname in (('pico8.game.formatter.p8:P8Formatter.to_file',
                       'lua_writer_cls'),
                      ('pico8.game.formatter.p8png:P8PNGFormatter.to_file',
                       'lua_writer_cls')):
        g = model.func(q2)
        a = g.node.args
        names = [x.arg for x in a.args]
        defaults = dict(zip(names[len(names) - len(a.defaults):], a.defaults))
        d = defaults.get(pname)
        ok = isinstance(d, ast.Constant) and d.value is None
        res.check(ok, 'R-C06-echo', q2, 'writer parameter defaults to None',
                  '', 'default writer of the formatter changed', g.loc)
    res.require_min('R-C06-echo', 5)


# ---------------------------------------------------------------- escapes --

def extract_encoder(ctx, quote):
    f = ctx.model.func(LX + ':TokString.code')
    return f, strenc.extract(ctx, f, quote)


class DecoderSpec:
    def __init__(self, handlers, table):
        self.handlers = handlers      # [('dec'|'hex', nfa, base, skip)]
        self.table = table

    def decode(self, text, q):
        """-> (bytes, index just after the closing quote) or (bytes, None)
        when the text ends before a closing quote."""
        out = bytearray()
        i = 0
        n = len(text)
        while i < n:
            c = text[i:i + 1]
            if c == q:
                return bytes(out), i + 1
            if c == b'\\':
                rest = text[i + 1:]
                done = False
                for (kind, nfa, base, skip) in self.handlers:
                    ln = rx.match_len(nfa, rest)
                    # python re.match: leftmost-first == longest for these
                    if ln is not None and ln > 0:
                        digits = rest[skip:ln]
                        v = int(digits, base)
                        if v > 255:
                            raise ValueError('escape > 255')
                        out.append(v)
                        i += ln
                        done = True
                        break
                if not done:
                    nx = text[i + 1:i + 2]
                    if nx in self.table:
                        out += self.table[nx]
                        i += 1
                    else:
                        out += c
            else:
                out += c
            i += 1
        return bytes(out), None


def extract_decoder(ctx, src):
    ev = ctx.consts
    cont = [l for l in src.links if l['kind'] == 'state' and
            l['state'] == '_in_string']
    if not cont:
        raise AnalysisError('in-string branch not found')
    cont = cont[0]
    esc_if = None
    for st in cont['body']:
        for n in walk_own(st):
            if isinstance(n, ast.If) and ast.unparse(n.test).replace(
                    ' ', '') == "c==b'\\\\'":
                esc_if = n
    if esc_if is None:
        raise AnalysisError('backslash branch not found')
    # pattern matches: name = re.match(PAT, s[i+1:])
    pats = {}
    for st in esc_if.body:
        if isinstance(st, ast.Assign) and isinstance(st.value, ast.Call) and \
                src.model.ext_name(src.module, st.value.func) == 're.match':
            p = ev.eval_expr(src.module, st.value.args[0])
            arg = ast.unparse(st.value.args[1]).replace(' ', '')
            if not isinstance(p, bytes) or arg != src.s_name + '[i+1:]':
                raise AnalysisError('escape pattern outside the model')
            pats[st.targets[0].id] = p
    handlers = []
    uses_table = False
    node = [s for s in esc_if.body if isinstance(s, ast.If)]
    if len(node) != 1:
        raise AnalysisError('escape dispatch outside the model')
    cur = node[0]
    while True:
        t = cur.test
        if isinstance(t, ast.Name) and t.id in pats:
            body = ' '.join(ast.unparse(x) for x in cur.body).replace(' ', '')
            nm = t.id
            if 'c=bytes([int({}.group(0))])'.format(nm) in body and \
                    'i+=len({}.group(0))'.format(nm) in body:
                handlers.append(('dec', rx.build(pats[nm]), 10, 0))
            elif 'c=bytes([int({}.group(1),16)])'.format(nm) in body and \
                    'i+=len({}.group(0))'.format(nm) in body:
                handlers.append(('hex', rx.build(pats[nm]), 16, 1))
            else:
                raise AnalysisError('numeric escape body outside the model')
            if len(cur.orelse) == 1 and isinstance(cur.orelse[0], ast.If):
                cur = cur.orelse[0]
                continue
            tail = cur.orelse
            break
        raise AnalysisError('escape dispatch test outside the model: ' +
                            ast.unparse(t))
    tail_src = ' '.join(ast.unparse(x) for x in tail).replace(' ', '')
    if 'next_c=' + src.s_name + '[i+1:i+2]' in tail_src and \
            'ifnext_cin_STRING_ESCAPES' in tail_src and \
            'c=_STRING_ESCAPES[next_c]' in tail_src and 'i+=1' in tail_src:
        uses_table = True
    else:
        raise AnalysisError('table escape branch outside the model')
    # after the escape handling the byte is appended and i advances by one
    loop_src = ' '.join(ast.unparse(x) for x in cont['body']).replace(' ', '')
    if 'self._in_string.append(c)' not in loop_src:
        raise AnalysisError('decoded byte is not appended')
    table = {k: v for k, v in src.escapes.items() if len(k) == 1}
    return DecoderSpec(handlers, table), esc_if


def rule_escapes(ctx, res, src):
    try:
        encs = {}
        for q in (b'"', b"'"):
            f_enc, encs[q] = extract_encoder(ctx, q)
        dec, esc_if = extract_decoder(ctx, src)
    except AnalysisError as e:
        res.undecided('R-C06-escapes', LX + ':TokString.code', 'extraction',
                      str(e))
        return
    where = LX + ':TokString.code'
    rev = ctx.consts.module_const(LX, '_STRING_REVERSE_ESCAPES')
    res.tables['_STRING_REVERSE_ESCAPES'] = len(rev) if isinstance(
        rev, dict) else None
    res.tables['decoder_handlers'] = [h[0] for h in dec.handlers] + ['table']
    res.tables['encoder_context_conditions'] = sorted(
        {cd.text for e in encs.values() for cd in e.conds})
    for q, enc in sorted(encs.items()):
        res.check(enc.prefix == q and enc.suffix == q, 'R-C06-escapes', where,
                  'text wrapped in its own quote ({})'.format(q.decode()),
                  'quote + pieces + quote',
                  'the literal is written as {!r} + text + {!r} instead of '
                  'being wrapped in its quote character'.format(
                      enc.prefix, enc.suffix), f_enc.loc)
    n = 0
    bad = {}
    for q, enc in sorted(encs.items()):
        ctxdep = [c for c in range(256) if enc.context_dependent(c)]
        reps = sorted({b for b in b'0123456789az \n\\\x00\xff' + q} |
                      set(ctxdep))
        res.stats['context_dependent_bytes'] = len(ctxdep)
        for c in range(256):
            rests = [b''] + [bytes([x]) for x in range(256)]
            if c in ctxdep:
                # the condition may look further than one byte: two-byte
                # remainders (every next byte x representative third byte) and
                # three-byte remainders over the representatives
                rests += [bytes([x, y]) for x in range(256) for y in reps]
                rests += [bytes([x, y, z]) for x in reps for y in reps
                          for z in reps]
            for rest in rests:
                n += 1
                want = bytes([c]) + rest
                text = enc.encode(want) + q
                try:
                    got, end = dec.decode(text, q)
                except ValueError:
                    got, end = None, None
                if got != want or end != len(text):
                    nxt = rest[0] if rest else None
                    key = (c, 'digit' if (nxt is not None and
                                          bytes([nxt]).isdigit()) else
                           ('quote' if nxt == q[0] else 'other'))
                    old = bad.get(key)
                    if old is None or len(old[3]) > len(want):
                        bad[key] = (q, c, nxt, want, text, got)
    res.stats['escape_roundtrip_cases'] = n
    by_byte = {}
    for (c, ctxk), v in bad.items():
        by_byte.setdefault(c, []).append((ctxk, v))
    for c, lst in sorted(by_byte.items()):
        (ctxk, (q, cc, nxt, want, text, got)) = lst[0]
        res.violation(
            'R-C06-escapes', where,
            'byte 0x{:02x} round-trips ({})'.format(
                c, ','.join(sorted(k for (k, _v) in lst))),
            'string {!r} is re-spelled {!r}, which decodes to {!r}: the '
            'rewritten literal denotes a different string'.format(
                want, q + text, got), f_enc.loc)
    if not bad:
        res.holds('R-C06-escapes', where,
                  'decode(encode(b)) == b in every right context',
                  '{} (byte, remainder, quote) cases: every byte x every '
                  'next byte, and for context-dependent bytes every '
                  'two-byte and representative three-byte remainder'.format(
                      n), f_enc.loc)
    # reference forms
    miss = []
    for (text, want) in ref.ESCAPE_FORMS:
        try:
            got, end = dec.decode(text + b'"', b'"')
        except ValueError:
            got, end = None, None
        if got != want:
            miss.append((text, got, want))
    groups = {}
    for (text, got, want) in miss:
        kind = ('\\x' if text.startswith(b'\\x') else
                '\\ddd' if text[1:2].isdigit() else 'other')
        groups.setdefault(kind, (text, got, want))
    for kind, (text, got, want) in sorted(groups.items()):
        res.violation(
            'R-C06-escapes', LX + ':Lexer._process_token',
            'escape form {} decodes to its reference value'.format(kind),
            'the literal "{}" denotes {!r} but the lexer decodes it to '
            '{!r}; written back it becomes a different string'.format(
                text.decode('latin-1'), want, got),
            src.module.loc(esc_if))
    if not miss:
        res.holds('R-C06-escapes', LX + ':Lexer._process_token',
                  'every reference escape form decodes to its value',
                  '{} forms'.format(len(ref.ESCAPE_FORMS)),
                  src.module.loc(esc_if))


def extra_coverage(res):
    return {'exhaustive': True}


def run(ctx, res):
    src = leximpl.LexerSource(ctx)
    rule_cover(ctx, res, src)
    rule_echo(ctx, res)
    rule_escapes(ctx, res, src)
