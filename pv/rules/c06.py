"""C06 -- unchanged code stays unchanged: the default writer echoes the source
losslessly.  Rules: R-C06-cover, R-C06-echo, R-C06-escapes.
"""
import ast

from .. import rx, leximpl, norm
from ..cfg import cfg_of
from ..consteval import UNKNOWN
from ..core import AnalysisError
from ..refs import escapes as ref
from ..srcmodel import walk_own, const_str, FuncInfo
from .common import assignments_to, unparse
from . import strenc

EXPLANATION = (
    'R-C06-cover: per branch of Lexer._process_token the extent stored in the '
    'token equals the extent consumed: table rows store m.group(0) and '
    'consume len(m.group(0)) (and no row has class None, C07); block '
    'comments store s[:i] with i = index(terminator)+len(terminator) or the '
    'whole chunk; long strings store the text before the closing bracket and '
    'TokString.code regenerates opener and closer from the recorded level; '
    'the driver loop stops only when nothing was consumed and then raises on '
    'a non-empty remainder. R-C06-echo: LuaEchoWriter appends the code of '
    'every token exactly once, in order, flushes at each newline token and '
    'once more at the end; Lua.to_lines defaults to it and the cart writers '
    'pass no other writer by default. R-C06-escapes: the string re-encoder '
    '(TokString.code) and the in-string decoder are both extracted as '
    'specifications (evaluated escape tables, the decimal / hex escape '
    'patterns as automata, the digit-padding rule); their composition is '
    'checked exhaustively over every byte value in every right context '
    '(256 x 257 x 2 quote kinds): decode(encode(b)) == b and the closing '
    'quote still closes; and every escape form of refs/escapes.py decodes to '
    'its reference value.')

ASSUMPTIONS = [
    'byte-for-byte equality of a concrete echo is the composition of the '
    'three rules (paper argument)',
    'sources the lexer rejects are outside the property',
    '\\ddd > 255 is an invalid literal in Lua too (out of scope)',
]

LX = 'pico8.lua.lexer'


# ------------------------------------------------------------------ cover --

def _appends_to(p, state):
    """argument expressions of <self.state>.append(x) events of a path"""
    out = []
    for e in p.events:
        if e[0] == 'call' and isinstance(e[1], ast.Call) and \
                isinstance(e[1].func, ast.Attribute) and \
                e[1].func.attr == 'append' and \
                ast.unparse(e[1].func.value) == 'self.' + state and \
                len(e[1].args) == 1:
            out.append(e[1].args[0])
    return out


def _token_calls(p):
    """constructor calls handed to self._tokens.append on a path"""
    out = []
    for e in p.events:
        if e[0] == 'call' and isinstance(e[1], ast.Call) and \
                isinstance(e[1].func, ast.Attribute) and \
                e[1].func.attr == 'append' and \
                ast.unparse(e[1].func.value) == 'self._tokens' and \
                e[1].args and isinstance(e[1].args[0], ast.Call):
            out.append(e[1].args[0])
    return out


def _flat_add(e):
    parts = []

    def flat(x):
        if isinstance(x, ast.BinOp) and isinstance(x.op, ast.Add):
            flat(x.left)
            flat(x.right)
        else:
            parts.append(x)
    flat(e)
    return parts


def rule_cover(ctx, res, src):
    from ..absint.symbody import SymBody
    f = src.f
    where = f.qual
    s = src.s_name
    u = ast.unparse
    table = [l for l in src.links if l['kind'] == 'table'][0]
    loop = table['loop']
    lf = table['loop_func']
    # ---- table rows: the token stores exactly the text that is consumed ----
    pairs = []                 # (stored expr text, consumed expr text)
    lsym = SymBody(ctx, lf)
    for q in lsym.run(loop.body, {}):
        for c in ([e[1].args[0] for e in q.events
                   if e[0] == 'call' and isinstance(e[1], ast.Call) and
                   isinstance(e[1].func, ast.Attribute) and
                   e[1].func.attr == 'append' and e[1].args and
                   isinstance(e[1].args[0], ast.Call)]):
            if c.args and 'i' in q.env:
                pairs.append((u(c.args[0]), u(q.env['i'])))
        if q.end == 'return' and isinstance(q.ret, ast.Tuple) and \
                len(q.ret.elts) == 2 and \
                'group(0)' in u(q.ret.elts[1]):
            # helper form: returns (class, matched text); the caller stores
            # element 1 and consumes its length
            for p in table['paths']:
                for c in _token_calls(p):
                    if c.args and p.ret is not None:
                        d = u(c.args[0])
                        if d.endswith('[1]'):
                            pairs.append((u(q.ret.elts[1]) if u(p.ret) ==
                                          'len({})'.format(d) else d,
                                          'len({})'.format(u(q.ret.elts[1]))
                                          if u(p.ret) == 'len({})'.format(d)
                                          else u(p.ret)))
    ok = bool(pairs)
    detail = ''
    for (d, c) in pairs:
        good = d.endswith('.group(0)') and (
            c == 'len({})'.format(d) or c == d[:-len('.group(0)')] + '.end()')
        if not good:
            ok = False
            detail = 'token stores {} but {} bytes are consumed'.format(d, c)
    res.check(ok, 'R-C06-cover', where, 'table rows: stored == consumed',
              'token data m.group(0), consumed its length',
              detail or 'token construction in the table loop not found',
              f.module.loc(loop))
    # the match is anchored at the start of the remaining text
    subj = lf.params()[-1] if lf is not f else s
    anchored = False
    for n in walk_own(loop):
        ru = norm.regex_use(ctx, lf, n)
        if ru is not None and ru.method == 'match' and ru.pos is None and \
                isinstance(ru.subject, ast.Name) and ru.subject.id == subj:
            anchored = True
        if isinstance(n, ast.Call) and isinstance(n.func, ast.Attribute) and \
                n.func.attr == 'match' and len(n.args) == 1 and \
                isinstance(n.args[0], ast.Name) and n.args[0].id == subj:
            anchored = True
    res.check(anchored, 'R-C06-cover', where,
              'rows are matched at the start of the remaining text', '',
              'rows are searched, not matched: skipped text disappears',
              f.module.loc(loop))
    # ---- multi-line constructs -----------------------------------------------
    for op in src.openers:
        cont = op.get('cont')
        if cont is None:
            continue
        state = cont['state']
        loc = f.module.loc(f.node)
        if op['kind'] == 'prefix' and len(op['prefixes']) == 1 and \
                len(op['prefixes'][0]) > 1:
            pre = op['prefixes'][0]
            # opener stores its own text
            init_ok = all(any(
                e[0] == 'set' and e[1] == 'self.' + state and
                isinstance(e[2], ast.List) and len(e[2].elts) == 1 and
                const_str(e[2].elts[0]) == pre for e in p.events)
                for p in op['paths'])
            found, notfound, _nd = src.found_split(cont)
            forms = []
            ok = init_ok and bool(found) and bool(notfound)
            for p in found:
                a = [u(x) for x in _appends_to(p, state)]
                forms.append(a)
                toks = _token_calls(p)
                if a != ['{}[:{}]'.format(s, u(p.ret))] or len(toks) != 1 \
                        or not toks[0].args or u(toks[0].args[0]) != \
                        "b''.join(self.{})".format(state):
                    ok = False
            for p in notfound:
                a = [u(x) for x in _appends_to(p, state)]
                forms.append(a)
                if a != [s] or u(p.ret) != 'len({})'.format(s):
                    ok = False
            res.check(ok, 'R-C06-cover', where,
                      'block comment: every consumed byte is stored',
                      'opener text + chunks + text up to and including the '
                      'terminator', 'block comment storage changed: opener '
                      'stored={} appended={}'.format(init_ok, forms), loc)
        elif op['kind'] == 'regex':
            found, notfound, nd = src.found_split(cont)
            ok = bool(found) and bool(notfound)
            forms = []
            for p in found:
                a = [u(x) for x in _appends_to(p, state)]
                forms.append(a)
                r = u(p.ret)
                good = False
                if len(a) == 1 and a[0].startswith(s + '[:') and \
                        a[0].endswith(']'):
                    upto = a[0][len(s) + 2:-1]
                    if upto.endswith('.start()') and \
                            r == upto[:-len('.start()')] + '.end()':
                        good = True
                    elif nd is not None and upto in (
                            '{}.find({})'.format(s, u(nd)),
                            '{}.index({})'.format(s, u(nd))) and \
                            r == '{} + len({})'.format(upto, u(nd)):
                        good = True
                if not good:
                    ok = False
            for p in notfound:
                a = [u(x) for x in _appends_to(p, state)]
                forms.append(a)
                if a != [s] or u(p.ret) != 'len({})'.format(s):
                    ok = False
            res.check(ok, 'R-C06-cover', where,
                      'long string: text before the closer stored, closer '
                      'consumed', '', 'long string storage changed: '
                      '{}'.format(forms), loc)
            # level recorded at the opener and handed to the token
            lvl = all(any(e[0] == 'set' and e[1].endswith('_delim') and
                          u(e[2]).endswith('.group(1)') for e in p.events)
                      for p in op['paths'])
            passes = bool(found) and all(
                any(k.arg == 'multiline_quote' and
                    u(k.value).endswith('_delim')
                    for c in _token_calls(p) for k in c.keywords)
                for p in found)
            res.check(lvl and passes, 'R-C06-cover', where,
                      'long string level recorded and handed to the token',
                      '', 'bracket level is not recorded / passed on', loc)
    # TokString.code regenerates the long brackets
    code = ctx.model.func(LX + ':TokString.code')
    long_ok = False
    seen = []
    for p in SymBody(ctx, code).run(code.node.body):
        if p.end != 'return' or p.ret is None:
            continue
        if not any(val and u(t) == 'self._multiline_quote is not None'
                   or (not val and u(t) == 'self._multiline_quote is None')
                   for (t, val) in p.conds):
            continue
        txt = [const_str(x) if isinstance(const_str(x), bytes) else u(x)
               for x in _flat_add(p.ret)]
        seen.append(txt)
        if txt == [b'[', 'self._multiline_quote', b'[', 'self._data', b']',
                   'self._multiline_quote', b']']:
            long_ok = True
    res.check(long_ok, 'R-C06-cover', code.qual,
              'long string re-spelled as [level[ data ]level]', '',
              'long bracket re-spelling changed: {}'.format(seen[:1]),
              code.loc)
    # driver loop: the line shrinks by exactly what a step reports
    pl = ctx.model.func(LX + ':Lexer._process_line')
    ok, detail = _driver_ok(ctx, pl)
    res.check(ok, 'R-C06-cover', pl.qual,
              'driver consumes exactly what a step reports', '',
              'driver loop no longer slices by the consumed length: ' +
              detail, pl.loc)
    res.require_min('R-C06-cover', 6)


def _driver_ok(ctx, pl):
    """while-loop of _process_line: remaining := remaining[k:] with k the
    value _process_token returned for that very remaining text; stop at 0."""
    from ..absint.symbody import SymBody
    u = ast.unparse
    loops = [n for n in walk_own(pl.node) if isinstance(n, ast.While)]
    if len(loops) != 1:
        return False, 'expected one while loop'
    lp = loops[0]
    sym = SymBody(ctx, pl)
    pre = sym.run(pl.node.body[:pl.node.body.index(lp)]
                  if lp in pl.node.body else [])
    if len(pre) != 1:
        return False, 'prologue branches'
    env0 = pre[0].env
    paths = sym.run(lp.body, {})

    def is_step(e, var):
        return isinstance(e, ast.Call) and \
            u(e.func) == 'self._process_token' and len(e.args) == 1 and \
            u(e.args[0]) == var
    # form A: the step is taken inside the body, before the slice
    for line in [a.arg for a in pl.node.args.args[1:]] + list(env0):
        cont = [p for p in paths if p.end == 'fall']
        brk = [p for p in paths if p.end in ('break', 'return')]
        if cont and all(
                isinstance(p.env.get(line), ast.Subscript) and
                u(p.env[line].value) == line and
                isinstance(p.env[line].slice, ast.Slice) and
                p.env[line].slice.upper is None and
                is_step(p.env[line].slice.lower, line) for p in cont) and \
                brk and all(any(
                    u(t) in ('self._process_token({}) == 0'.format(line),
                             '0 == self._process_token({})'.format(line))
                    and v for (t, v) in p.conds) for p in brk) and \
                u(lp.test) == 'True':
            return True, ''
    # form B: invariant k == step(remaining) at the loop head
    t = lp.test
    if isinstance(t, ast.Compare) and len(t.ops) == 1 and \
            isinstance(t.ops[0], ast.NotEq) and \
            isinstance(t.left, ast.Name) and \
            isinstance(t.comparators[0], ast.Constant) and \
            t.comparators[0].value == 0:
        k = t.left.id
        init = env0.get(k)
        for line in list(env0) + [a.arg for a in pl.node.args.args[1:]]:
            src_line = u(env0[line]) if line in env0 else line
            if init is None or not (
                    isinstance(init, ast.Call) and
                    u(init.func) == 'self._process_token' and
                    len(init.args) == 1 and u(init.args[0]) == src_line):
                continue
            good = bool(paths) and all(p.end == 'fall' for p in paths)
            for p in paths:
                nl = p.env.get(line)
                nk = p.env.get(k)
                if not (isinstance(nl, ast.Subscript) and
                        u(nl) == '{}[{}:]'.format(line, k) and
                        isinstance(nk, ast.Call) and
                        u(nk) == 'self._process_token({})'.format(u(nl))):
                    good = False
            if good:
                return True, ''
    return False, 'loop shape not recognised'


# ------------------------------------------------------------------- echo --

def rule_echo(ctx, res):
    from ..absint.symbody import SymBody
    model = ctx.model
    u = ast.unparse
    q = 'pico8.lua.lua:LuaEchoWriter.to_lines'
    f = model.func(q)
    sym = SymBody(ctx, f)
    whole = sym.run(f.node.body)
    loops = [e for p in whole for e in p.events if e[0] == 'loop']
    loops = list({id(e[1]): e for e in loops}.values())
    problems = []
    detail = ''
    if len(loops) != 1 or not isinstance(loops[0][1], ast.For) or \
            u(sym.S(loops[0][1].iter, loops[0][2])) != 'self._tokens' or \
            not isinstance(loops[0][1].target, ast.Name):
        problems.append('one loop over self._tokens expected')
    else:
        lp, env0 = loops[0][1], loops[0][2]
        tok = lp.target.id
        code = tok + '.code'
        buf = None
        for pth in sym.run(lp.body, {}):
            ev = [e for e in pth.events]
            isnl = None
            for (t, val) in pth.conds:
                while isinstance(t, ast.UnaryOp) and \
                        isinstance(t.op, ast.Not):
                    t, val = t.operand, not val
                tt = u(t)
                if tt.startswith('isinstance({}, '.format(tok)) and \
                        tt.endswith('TokNewline)'):
                    isnl = val
                elif tt.startswith(tok + '.matches(') and 'TokNewline' in tt:
                    isnl = val
                else:
                    problems.append('a token is treated specially under '
                                    '`{}`'.format(tt[:50]))
            if pth.end not in ('fall', 'continue'):
                problems.append('the token loop is left early')
            if not ev or ev[0][0] != 'call' or not (
                    isinstance(ev[0][1], ast.Call) and
                    isinstance(ev[0][1].func, ast.Attribute) and
                    ev[0][1].func.attr == 'append' and
                    isinstance(ev[0][1].func.value, ast.Name) and
                    len(ev[0][1].args) == 1 and
                    u(ev[0][1].args[0]) == code):
                problems.append('the token\'s code is not appended first')
                continue
            b_ = ev[0][1].func.value.id
            buf = buf or b_
            if b_ != buf:
                problems.append('two buffers')
            rest = ev[1:]
            def is_reset(e):
                return (e[0] == 'call' and u(e[1]) == buf + '.clear()') or (
                    e[0] == 'bind' and e[1] == buf and
                    isinstance(e[2], ast.List) and not e[2].elts)
            cleared = any(is_reset(e) for e in rest)
            yields = [e for e in rest if e[0] == 'yield']
            others = [e for e in rest if e[0] != 'yield' and
                      not is_reset(e)]
            if cleared and yields and rest.index(yields[0]) > min(
                    i for i, e in enumerate(rest) if is_reset(e)):
                problems.append('the buffer is emptied before it is yielded')
            if isnl is True:
                if len(yields) != 1 or u(yields[0][1]) != \
                        "b''.join({})".format(buf) or not cleared or others:
                    problems.append('at a line end the buffer is not '
                                    'yielded once and emptied')
            else:
                if yields or cleared or others:
                    problems.append('text is emitted / dropped in the middle '
                                    'of a line')
        # after the loop: a non-empty buffer is flushed
        tail_ok = False
        for p in whole:
            ys = [e for e in p.events if e[0] == 'yield']
            for (t, val) in p.conds:
                nm = u(t)
                if val and buf and nm.split('$')[0] == buf and ys and \
                        u(ys[-1][1]) == "b''.join({})".format(nm):
                    tail_ok = True
        if not tail_ok:
            problems.append('the last (unterminated) line is not flushed')
        detail = 'buffer {}'.format(buf)
    res.check(not problems, 'R-C06-echo', q,
              'every token\'s code once, in order; flush per line and at the '
              'end', detail, 'echo writer changed: ' +
              '; '.join(sorted(set(problems))[:3]), f.loc)
    # default writer selection
    tl = model.func('pico8.lua.lua:Lua.to_lines')
    sel = False
    for n in walk_own(tl.node):
        if isinstance(n, ast.If) and 'writer_cls is None' in ast.unparse(
                n.test):
            for s in n.body:
                if ast.unparse(s).replace(' ', '') == \
                        'writer_cls=LuaEchoWriter':
                    sel = True
    res.check(sel, 'R-C06-echo', tl.qual, 'default writer is LuaEchoWriter',
              '', 'Lua.to_lines no longer defaults to the echo writer',
              tl.loc)
    passes_tokens = 'tokens=self._lexer.tokens' in ast.unparse(
        tl.node).replace(' ', '')
    res.check(passes_tokens, 'R-C06-echo', tl.qual,
              'writer receives the lexer\'s token list', '',
              'writer is handed something other than the lexed tokens',
              tl.loc)
    # callers that must echo: writep8, file.to_file default, build copy
    for q2 in ('pico8.tool:writep8',):
        g = model.func(q2)
        calls = [c for c in walk_own(g.node) if isinstance(c, ast.Call) and
                 'to_file' in ast.unparse(c.func)]
        ok = bool(calls) and all(
            not any(k.arg in ('lua_writer_cls', 'lua_writer_args')
                    for k in c.keywords) for c in calls)
        res.check(ok, 'R-C06-echo', q2, 'writes with the default writer', '',
                  'a transforming writer is selected for a plain write',
                  g.loc)
    for q2, pname in (('pico8.game.formatter.p8:P8Formatter.to_file',
                       'lua_writer_cls'),
                      ('pico8.game.formatter.p8png:P8PNGFormatter.to_file',
                       'lua_writer_cls')):
        g = model.func(q2)
        a = g.node.args
        names = [x.arg for x in a.args]
        defaults = dict(zip(names[len(names) - len(a.defaults):], a.defaults))
        d = defaults.get(pname)
        ok = isinstance(d, ast.Constant) and d.value is None
        res.check(ok, 'R-C06-echo', q2, 'writer parameter defaults to None',
                  '', 'default writer of the formatter changed', g.loc)
    res.require_min('R-C06-echo', 5)


# ---------------------------------------------------------------- escapes --

def extract_encoder(ctx, quote):
    f = ctx.model.func(LX + ':TokString.code')
    return f, strenc.extract(ctx, f, quote)


class DecoderSpec:
    def __init__(self, handlers, table):
        self.handlers = handlers      # [('dec'|'hex', nfa, base, skip)]
        self.table = table

    def decode(self, text, q):
        """-> (bytes, index just after the closing quote) or (bytes, None)
        when the text ends before a closing quote."""
        out = bytearray()
        i = 0
        n = len(text)
        while i < n:
            c = text[i:i + 1]
            if c == q:
                return bytes(out), i + 1
            if c == b'\\':
                rest = text[i + 1:]
                done = False
                for (kind, nfa, base, skip) in self.handlers:
                    ln = rx.match_len(nfa, rest)
                    # python re.match: leftmost-first == longest for these
                    if ln is not None and ln > 0:
                        digits = rest[skip:ln]
                        v = int(digits, base)
                        if v > 255:
                            raise ValueError('escape > 255')
                        out.append(v)
                        i += ln
                        done = True
                        break
                if not done:
                    nx = text[i + 1:i + 2]
                    if nx in self.table:
                        out += self.table[nx]
                        i += 1
                    else:
                        out += c
            else:
                out += c
            i += 1
        return bytes(out), None


def _lin(e, idx, matches):
    """linear view of an index expression over the symbols i (loop index) and
    mlen(M) (length of a regex match M): -> {sym: coef, 1: const} or None.
    M.end() = start offset of M + mlen(M); M.start() = its start offset;
    len(M.group(0)) = mlen(M)."""
    u = ast.unparse

    def add(a, b, k=1):
        out = dict(a)
        for s_, c in b.items():
            out[s_] = out.get(s_, 0) + k * c
        return {s_: c for s_, c in out.items() if c != 0 or s_ == 1}
    if isinstance(e, ast.Constant) and isinstance(e.value, int):
        return {1: e.value}
    if isinstance(e, ast.Name) and e.id == idx:
        return {idx: 1, 1: 0}
    if isinstance(e, ast.BinOp) and isinstance(e.op, (ast.Add, ast.Sub)):
        a, b = _lin(e.left, idx, matches), _lin(e.right, idx, matches)
        if a is None or b is None:
            return None
        return add(a, b, 1 if isinstance(e.op, ast.Add) else -1)
    if isinstance(e, ast.Call) and isinstance(e.func, ast.Name) and \
            e.func.id == 'len' and len(e.args) == 1:
        a = e.args[0]
        if isinstance(a, ast.Call) and isinstance(a.func, ast.Attribute) and \
                a.func.attr == 'group' and u(a.func.value) in matches and \
                len(a.args) == 1 and isinstance(a.args[0], ast.Constant) and \
                a.args[0].value == 0:
            return {('mlen', u(a.func.value)): 1, 1: 0}
        if isinstance(a, ast.Constant) and isinstance(a.value, bytes):
            return {1: len(a.value)}
    if isinstance(e, ast.Call) and isinstance(e.func, ast.Attribute) and \
            e.func.attr in ('end', 'start') and not e.args and \
            u(e.func.value) in matches:
        m = u(e.func.value)
        off = matches[m]['offset']        # linear or None (relative)
        base = off if off is not None else {1: 0}
        if e.func.attr == 'start':
            return dict(base)
        return add(base, {('mlen', m): 1, 1: 0})
    return None


def extract_decoder(ctx, src):
    """Escape decoding of the in-string loop, from its per-character paths:
    ordered numeric handlers (regex, base, group) and the table branch."""
    u = ast.unparse
    s = src.s_name
    cont = [l for l in src.links if l['kind'] == 'state' and
            l['state'] == '_in_string']
    if not cont:
        raise AnalysisError('in-string branch not found')
    cont = cont[0]
    loops = [x for x in src.loop_paths(
        cont, which=lambda n: isinstance(n, ast.While))]
    if len(loops) != 1:
        raise AnalysisError('in-string character loop not found')
    lp, paths, env0 = loops[0]
    t = lp.test
    if not (isinstance(t, ast.Compare) and len(t.ops) == 1 and
            isinstance(t.ops[0], ast.Lt) and isinstance(t.left, ast.Name)):
        raise AnalysisError('in-string loop test is not i < len(s)')
    idx = t.left.id
    bound = u(src.sym.S(t.comparators[0], env0))
    if bound != 'len({})'.format(s):
        raise AnalysisError('in-string loop bound is ' + bound)
    cur = '{0}[{1}:{1} + 1]'.format(s, idx)
    handlers = []
    seen_pats = []
    tried_before_table = []
    table_ok = plain_ok = unknown_ok = False
    esc_node = lp
    for q in paths:
        if q.end == 'raise':
            continue
        conds = [(u(c), v) for (c, v) in q.conds]
        is_close = any(v and c.startswith(cur + ' == self.') or
                       (v and c.endswith(' == ' + cur) and 'self.' in c)
                       for (c, v) in conds)
        if is_close:
            continue
        bs = [v for (c, v) in conds
              if c in (cur + " == b'\\\\'", "b'\\\\' == " + cur)]
        app = _appends_to(q, '_in_string')
        if len(app) != 1 or idx not in q.env:
            raise AnalysisError('in-string step stores {} values'.format(
                len(app)))
        app = app[0]
        # regex matches tried on this path
        matches = {}
        order = []
        for (c_ast, v) in q.conds:
            ru = None
            tt = c_ast
            neg = False
            while isinstance(tt, ast.UnaryOp) and isinstance(tt.op, ast.Not):
                tt, neg = tt.operand, not neg
            ru = norm.regex_use(ctx, src.f, tt)
            if ru is None or ru.method != 'match':
                continue
            # start offset of the match within s
            if ru.pos is not None and u(ru.subject) == s:
                off = _lin(ru.pos, idx, {})
                rel = off
            elif isinstance(ru.subject, ast.Subscript) and \
                    u(ru.subject.value) == s and \
                    isinstance(ru.subject.slice, ast.Slice) and \
                    ru.subject.slice.upper is None:
                off = _lin(ru.subject.slice.lower, idx, {})
                rel = None
            else:
                raise AnalysisError('escape regex subject outside the '
                                    'model: ' + u(ru.subject))
            if off != {idx: 1, 1: 1}:
                raise AnalysisError('escape regex is not matched right '
                                    'after the backslash')
            matches[u(tt)] = {'pattern': ru.pattern, 'offset': rel,
                              'taken': (v != neg)}
            order.append(u(tt))
        adv = _lin(q.env[idx], idx, matches)
        if adv is None:
            raise AnalysisError('in-string index update outside the model: '
                                + u(q.env[idx]))
        step = dict(adv)
        step[idx] = step.get(idx, 0) - 1
        step = {k: v for k, v in step.items() if v != 0}
        if not bs or not bs[-1]:
            # ordinary character: stored as it is, one byte consumed
            if u(app) == cur and step == {1: 1}:
                plain_ok = True
                continue
            raise AnalysisError('plain character step: stores {} advances '
                                '{}'.format(u(app), step))
        taken = [m for m in order if matches[m]['taken']]
        if taken:
            m = taken[0]
            if order.index(m) != len([x for x in order
                                      if not matches[x]['taken']]):
                raise AnalysisError('numeric escape order outside the model')
            # bytes([int(M.group(g)[, base])])
            a = app
            ok = isinstance(a, ast.Call) and u(a.func) == 'bytes' and \
                len(a.args) == 1 and isinstance(a.args[0], ast.List) and \
                len(a.args[0].elts) == 1
            base, grp = None, None
            if ok:
                ic = a.args[0].elts[0]
                ok = isinstance(ic, ast.Call) and u(ic.func) == 'int' and \
                    ic.args and isinstance(ic.args[0], ast.Call) and \
                    isinstance(ic.args[0].func, ast.Attribute) and \
                    ic.args[0].func.attr == 'group' and \
                    u(ic.args[0].func.value) == m and \
                    len(ic.args[0].args) == 1 and \
                    isinstance(ic.args[0].args[0], ast.Constant)
                if ok:
                    grp = ic.args[0].args[0].value
                    base = ic.args[1].value if len(ic.args) > 1 and \
                        isinstance(ic.args[1], ast.Constant) else 10
            if not ok:
                raise AnalysisError('numeric escape value outside the '
                                    'model: ' + u(app))
            if step != {('mlen', m): 1, 1: 1}:
                raise AnalysisError('numeric escape consumes {} instead of '
                                    'backslash + match'.format(step))
            pat = matches[m]['pattern']
            if pat not in seen_pats:
                seen_pats.append(pat)
                handlers.append(('dec' if base == 10 else 'hex',
                                 rx.build(pat), base, grp))
            continue
        # no numeric escape matched: table escape or unknown escape
        tried_before_table.append(len(order))
        nxt = '{0}[{1} + 1:{1} + 2]'.format(s, idx)
        tbl = [v for (c, v) in conds if c in (
            nxt + ' in _STRING_ESCAPES',
            '_STRING_ESCAPES.get({}) is not None'.format(nxt),
            '_STRING_ESCAPES.get({}) is None'.format(nxt))]
        tbl_pos = None
        for (c, v) in conds:
            if c == nxt + ' in _STRING_ESCAPES' or \
                    c == '_STRING_ESCAPES.get({}) is not None'.format(nxt):
                tbl_pos = v
            elif c == '_STRING_ESCAPES.get({}) is None'.format(nxt):
                tbl_pos = not v
        if tbl_pos is True:
            if u(app) in ('_STRING_ESCAPES[{}]'.format(nxt),
                          '_STRING_ESCAPES.get({})'.format(nxt)) and \
                    step == {1: 2}:
                table_ok = True
                continue
            raise AnalysisError('table escape: stores {} advances {}'.format(
                u(app), step))
        if tbl_pos is False:
            if u(app) in (cur, "b'\\\\'") and step == {1: 1}:
                unknown_ok = True
                continue
            raise AnalysisError('unknown escape: stores {} advances '
                                '{}'.format(u(app), step))
        raise AnalysisError('escape path outside the model: ' +
                            ' and '.join(c for (c, _v) in conds)[:120])
    if not (plain_ok and table_ok and unknown_ok and handlers):
        raise AnalysisError(
            'escape decoding incomplete: plain={} table={} unknown={} '
            'numeric handlers={}'.format(plain_ok, table_ok, unknown_ok,
                                         len(handlers)))
    if any(n != len(handlers) for n in tried_before_table):
        # DecoderSpec.decode tries the numeric forms first: a loop that
        # consults the table before one of them is not that decoder
        raise AnalysisError('the escape table is consulted before a numeric '
                            'escape form was tried')
    table = {k: v for k, v in src.escapes.items() if len(k) == 1}
    return DecoderSpec(handlers, table), esc_node


class EvaluatedDecoder:
    """The lexer evaluated on one quoted literal (absint/cx.py): `Lexer(8)`,
    `process_lines([quote + text])`, `tokens`.  Used when the statement forms
    of the in-string loop are outside the extraction, and as a cross-check of
    the extraction on the reference escape forms.  Same interface as
    DecoderSpec.decode; a clean result over the enumerated cases is not a
    proof, a failing case is a witness."""

    evaluated = True
    handlers = ()

    def __init__(self, ctx):
        from ..absint import cx as CX
        self.CX = CX
        self.cx = CX.Cx(ctx.model, ctx.consts)
        self.lexer = CX.ClassVal(ctx.model.cls(LX + ':Lexer'))
        self.cache = {}

    def decode(self, text, q):
        key = (text, q)
        if key not in self.cache:
            self.cache[key] = self._decode(text, q)
        return self.cache[key]

    def _decode(self, text, q):
        CX, cxi = self.CX, self.cx

        def go():
            lx = cxi.call(self.lexer, [], {'version': 8})
            cxi.call(cxi.getattr(lx, 'process_lines'), [[q + text]], {})
            out = []
            for t in cxi.items(cxi.getattr(lx, 'tokens')):
                v = cxi.getattr(t, 'value')
                if isinstance(v, CX.Seq):
                    if any(CX.is_sym(x) for x in v.items):
                        raise AnalysisError('symbolic token data')
                    v = bytes(v.items)
                out.append((t.cls.name, v))
            return out
        paths = cxi.explore(go)
        if len(paths) != 1 or paths[0][0]:
            raise AnalysisError('lexer evaluation forks on concrete data')
        kind, val = paths[0][1]
        if kind == 'raise':
            return None, None
        if not val or val[0][0] != 'TokString' or \
                not isinstance(val[0][1], (bytes, bytearray)):
            return None, None
        # the literal must be the whole line: one string token, nothing left
        return bytes(val[0][1]), (len(text) if len(val) == 1 else None)


class EvaluatedEncoder:
    """TokString.code evaluated on concrete strings (absint/cx.py) when the
    transducer extraction cannot read the re-spelling loop.  Same interface as
    the extracted encoder; since nothing is known about which bytes look at
    their right context, the caller enumerates a reduced set of remainders
    and a clean result is NOT a proof (reported as undecided), a failing case
    is a witness."""

    evaluated = True

    def __init__(self, ctx, quote):
        from ..absint import cx as CX
        self.CX = CX
        self.cx = CX.Cx(ctx.model, ctx.consts)
        self.cls = ctx.model.cls(LX + ':TokString')
        self.quote = quote
        self.prefix = self.suffix = quote
        self.conds = []
        self.cache = {}
        probe = self._code(b'a')
        if not (probe.startswith(quote) and probe.endswith(quote) and
                len(probe) >= 2):
            self.prefix, self.suffix = probe[:1], probe[-1:]

    def _code(self, data):
        CX = self.CX
        cxi = self.cx

        def go():
            o = CX.Obj(self.cls)
            o.attrs['_data'] = data
            o.attrs['_quote'] = self.quote
            o.attrs['_multiline_quote'] = None
            o.attrs['_lineno'] = o.attrs['_charno'] = 0
            return cxi.getattr(o, 'code')
        paths = cxi.explore(go)
        if len(paths) != 1 or paths[0][0]:
            raise AnalysisError('encoder evaluation forks on concrete data')
        kind, val = paths[0][1]
        if kind == 'raise':
            raise AnalysisError('TokString.code raises {} on {!r}'.format(
                val.tname, data))
        if isinstance(val, CX.Seq):
            if any(CX.is_sym(x) for x in val.items):
                raise AnalysisError('symbolic spelling')
            val = bytes(val.items)
        if not isinstance(val, (bytes, bytearray)):
            raise AnalysisError('TokString.code returns ' +
                                type(val).__name__)
        return bytes(val)

    def encode(self, want):
        if want not in self.cache:
            code = self._code(want)
            self.cache[want] = code[len(self.prefix):len(code) -
                                    len(self.suffix)]
        return self.cache[want]

    def context_dependent(self, c):
        return False


def rule_escapes(ctx, res, src):
    evaluated = False
    try:
        encs = {}
        try:
            for q in (b'"', b"'"):
                f_enc, encs[q] = extract_encoder(ctx, q)
        except AnalysisError as e:
            why = str(e)
            f_enc = ctx.model.func(LX + ':TokString.code')
            encs = {q: EvaluatedEncoder(ctx, q) for q in (b'"', b"'")}
            evaluated = True
        try:
            dec, esc_if = extract_decoder(ctx, src)
        except AnalysisError as e:
            why = 'decoder: ' + str(e)
            dec, esc_if = EvaluatedDecoder(ctx), src.f.node
            dec.decode(b'a"', b'"')       # cannot evaluate -> undecided
            evaluated = True
    except AnalysisError as e:
        res.undecided('R-C06-escapes', LX + ':TokString.code', 'extraction',
                      str(e))
        return
    where = LX + ':TokString.code'
    rev = ctx.consts.module_const(LX, '_STRING_REVERSE_ESCAPES')
    res.tables['_STRING_REVERSE_ESCAPES'] = len(rev) if isinstance(
        rev, dict) else None
    res.tables['decoder_handlers'] = [h[0] for h in dec.handlers] + ['table']
    res.tables['encoder_context_conditions'] = sorted(
        {cd.text for e in encs.values() for cd in e.conds})
    table_bytes = sorted({k[0] for k in rev if isinstance(k, bytes) and
                          len(k) == 1}) if isinstance(rev, dict) else []
    for q, enc in sorted(encs.items()):
        res.check(enc.prefix == q and enc.suffix == q, 'R-C06-escapes', where,
                  'text wrapped in its own quote ({})'.format(q.decode()),
                  'quote + pieces + quote',
                  'the literal is written as {!r} + text + {!r} instead of '
                  'being wrapped in its quote character'.format(
                      enc.prefix, enc.suffix), f_enc.loc)
    n = 0
    bad = {}
    for q, enc in sorted(encs.items()):
        ctxdep = [c for c in range(256) if enc.context_dependent(c)]
        reps = sorted({b for b in b'0123456789az \n\\\x00\xff' + q} |
                      set(ctxdep))
        res.stats['context_dependent_bytes'] = len(ctxdep)
        if evaluated:
            reps = sorted({b for b in b'019af \n\\\x00' + q})
        for c in range(256):
            rests = [b''] + [bytes([x]) for x in range(256)]
            if evaluated:
                # reduced enumeration (every case is one evaluation): the
                # representatives after every byte, two- and three-byte
                # remainders after the bytes of the escape table
                rests = [b''] + [bytes([x]) for x in reps]
                if c in table_bytes or c == q[0] or c == 0x5c:
                    rests += [bytes([x, y]) for x in reps for y in reps]
                    rests += [bytes([x, y, z]) for x in b'01a' + q
                              for y in b'09a\x00' for z in b'0a' + q]
            elif c in ctxdep:
                # the condition may look further than one byte: two-byte
                # remainders (every next byte x representative third byte) and
                # three-byte remainders over the representatives
                rests += [bytes([x, y]) for x in range(256) for y in reps]
                rests += [bytes([x, y, z]) for x in reps for y in reps
                          for z in reps]
            for rest in rests:
                n += 1
                want = bytes([c]) + rest
                text = enc.encode(want) + q
                try:
                    got, end = dec.decode(text, q)
                except ValueError:
                    got, end = None, None
                if got != want or end != len(text):
                    nxt = rest[0] if rest else None
                    key = (c, 'digit' if (nxt is not None and
                                          bytes([nxt]).isdigit()) else
                           ('quote' if nxt == q[0] else 'other'))
                    old = bad.get(key)
                    if old is None or len(old[3]) > len(want):
                        bad[key] = (q, c, nxt, want, text, got)
    res.stats['escape_roundtrip_cases'] = n
    # a witness whose proper suffix already fails says nothing about its
    # first byte
    failing = {v[3] for v in bad.values()}
    bad = {k: v for k, v in bad.items()
           if not any(v[3][j:] in failing for j in range(1, len(v[3])))}
    by_byte = {}
    for (c, ctxk), v in bad.items():
        by_byte.setdefault(c, []).append((ctxk, v))
    for c, lst in sorted(by_byte.items()):
        (ctxk, (q, cc, nxt, want, text, got)) = lst[0]
        res.violation(
            'R-C06-escapes', where,
            'byte 0x{:02x} round-trips ({})'.format(
                c, ','.join(sorted(k for (k, _v) in lst))),
            'string {!r} is re-spelled {!r}, which decodes to {!r}: the '
            'rewritten literal denotes a different string'.format(
                want, q + text, got), f_enc.loc, semantic=True)
    if not bad and evaluated:
        res.undecided('R-C06-escapes', where,
                      'decode(encode(b)) == b in every right context',
                      'the re-spelling loop or the in-string loop is outside '
                      'the extraction ({}); {} evaluated cases round-trip, '
                      'which bounds but does not decide the clause'.format(
                          why[:90], n), f_enc.loc)
    elif not bad:
        res.holds('R-C06-escapes', where,
                  'decode(encode(b)) == b in every right context',
                  '{} (byte, remainder, quote) cases: every byte x every '
                  'next byte, and for context-dependent bytes every '
                  'two-byte and representative three-byte remainder'.format(
                      n), f_enc.loc)
    # reference forms: through the extracted decoder and -- the extraction
    # reads statement forms, the evaluation follows the code -- through the
    # evaluated lexer
    miss = []
    decs = [dec]
    if not getattr(dec, 'evaluated', False):
        try:
            ev_dec = EvaluatedDecoder(ctx)
            ev_dec.decode(b'a"', b'"')
            decs.append(ev_dec)
        except AnalysisError as e:
            res.info('R-C06-escapes', LX + ':Lexer._process_token',
                     'reference escape forms through the evaluated lexer',
                     'not followed: ' + str(e)[:100])
    sem = False
    for d in decs:
        for (text, want) in ref.ESCAPE_FORMS:
            try:
                got, end = d.decode(text + b'"', b'"')
            except ValueError:
                got, end = None, None
            if got != want and not any(m[0] == text for m in miss):
                miss.append((text, got, want))
                sem = sem or getattr(d, 'evaluated', False)
    groups = {}
    for (text, got, want) in miss:
        kind = ('\\x' if text.startswith(b'\\x') else
                '\\ddd' if text[1:2].isdigit() else 'other')
        groups.setdefault(kind, (text, got, want))
    for kind, (text, got, want) in sorted(groups.items()):
        res.violation(
            'R-C06-escapes', LX + ':Lexer._process_token',
            'escape form {} decodes to its reference value'.format(kind),
            'the literal "{}" denotes {!r} but the lexer decodes it to '
            '{!r}; written back it becomes a different string'.format(
                text.decode('latin-1'), want, got),
            src.module.loc(esc_if), semantic=sem)
    if not miss:
        res.holds('R-C06-escapes', LX + ':Lexer._process_token',
                  'every reference escape form decodes to its value',
                  '{} forms'.format(len(ref.ESCAPE_FORMS)),
                  src.module.loc(esc_if))


def extra_coverage(res):
    return {'exhaustive': True}


def run(ctx, res):
    src = leximpl.LexerSource(ctx)
    rule_cover(ctx, res, src)
    rule_echo(ctx, res)
    rule_escapes(ctx, res, src)
