"""C14: the game-loop strip of `_evaluate_require`, decided by evaluation.

`_evaluate_require` is evaluated (concrete-control abstract interpreter,
absint/cx.py) on a stand-in package: the require walker, the file system and
the Lua parser are replaced by stand-ins, the required file is a token list
whose token spellings are distinct symbolic bytes, and its top-level
statements are parser node objects with concrete token ranges.  The text
handed to the re-parse is then read off by identity: it must be exactly the
tokens outside the ranges of the top-level callback definitions, in order --
whatever loop, comprehension, filter or cursor form computes it.

Scenarios: callbacks at the start / middle / end / adjacent / none, a nested
(non-top-level) callback, a look-alike name, option on and off."""
from ..absint import cx as CX
from ..absint.symx import BV
from ..core import AnalysisError
from ..refs import pico8_api

B = 'pico8.build.build'
PARSER = 'pico8.lua.parser'

#            kind, name, start, end   (kind 'f' = StatFunction, 'a' = other)
SCENARIOS = {
    'middle':   [('a', None, 0, 2), ('f', b'_update', 2, 5), ('a', None, 5, 7),
                 ('f', b'helper', 7, 9), ('f', b'_draw', 9, 11),
                 ('a', None, 11, 13)],
    'start':    [('f', b'_init', 0, 3), ('a', None, 3, 6)],
    'end':      [('a', None, 0, 4), ('f', b'_update60', 4, 8)],
    'adjacent': [('f', b'_init', 0, 2), ('f', b'_draw', 2, 4),
                 ('a', None, 4, 5), ('f', b'_update', 5, 9)],
    'none':     [('a', None, 0, 3), ('f', b'draw', 3, 6), ('f', b'_drawx', 6, 8)],
    'only':     [('f', b'_draw', 0, 4)],
}


class StripEval:
    def __init__(self, ctx):
        self.ctx = ctx
        self.model = ctx.model

    def _stats(self, cxi, spec):
        m = self.model
        # the parser's node classes are made with type(...) in a loop at
        # import time: stand-ins with their identity
        node = CX.StubClass('Node')
        stubs = {n: CX.StubClass(n, (node,)) for n in (
            'StatFunction', 'StatAssignment', 'FunctionName',
            'StatLocalFunction', 'StatFunctionCall', 'Chunk')}
        for n, c in stubs.items():
            cxi.module_vars[(PARSER, n)] = c
        cxi.module_vars[(PARSER, 'Node')] = node
        fcls, acls, ncls = stubs['StatFunction'], stubs['StatAssignment'], \
            stubs['FunctionName']
        tcls = m.cls('pico8.lua.lexer:TokName')
        out = []
        for (kind, name, a, b) in spec:
            o = CX.Obj(fcls if kind == 'f' else acls)
            o.attrs['start_pos'] = a
            o.attrs['end_pos'] = b
            o.attrs['_start_token_pos'] = a
            o.attrs['_end_token_pos'] = b
            if kind == 'f':
                tok = CX.Obj(tcls)
                tok.attrs['value'] = name
                tok.attrs['_data'] = name
                tok.attrs['code'] = name
                fn = CX.Obj(ncls)
                fn.attrs['namepath'] = [tok]
                fn.attrs['methodname'] = None
                o.attrs['funcname'] = fn
                o.attrs['funcbody'] = None
            out.append(o)
        return out

    def run(self, scen, use_game_loop):
        """-> ('ok', kept token indices or None when not re-parsed, stored is
        the re-parse?) | raises AnalysisError / CxError"""
        spec = SCENARIOS[scen]
        ntok = max(b for (_k, _n, _a, b) in spec)
        cxi = CX.Cx(self.model, self.ctx.consts)
        tcls = self.model.cls('pico8.lua.lexer:Token')
        toks = []
        codes = []
        for k in range(ntok):
            t = CX.Obj(tcls)
            code = CX.Seq('bytes', [BV.source(('tok', k), 8)])
            t.attrs['code'] = code
            t.attrs['_data'] = code
            t.attrs['value'] = code
            toks.append(t)
            codes.append(code.items[0])
        root = CX.Opaque('Chunk', attrs={'stats': self._stats(cxi, spec)})
        first = CX.Opaque('Lua(required file)',
                          attrs={'tokens': list(toks), 'root': root,
                                 '_tokens': list(toks), '_root': root})
        holder = {'parses': []}

        def from_lines(cx, args, kw, bound=None):
            src = args[0] if args else kw.get('lines')
            if isinstance(src, CX.Opaque) and src.name == 'file':
                return first
            holder['parses'].append(src)
            r = CX.Opaque('Lua(re-parse)', attrs={
                'tokens': [], 'root': CX.Opaque('Chunk', attrs={'stats': []}),
                '_tokens': [], '_root': None})
            holder['reparsed'] = r
            return r
        calls = {'walk': 0}

        def walk(cx, args, kw, bound=None):
            calls['walk'] += 1
            if calls['walk'] == 1:
                return [(b'pkg', use_game_loop,
                         CX.Opaque('require token'))]
            return []

        def locate(cx, args, kw, bound=None):
            return '/t/pkg.lua'

        fileobj = CX.Opaque('file', {
            'read': lambda c, a, k: b'', 'close': lambda c, a, k: None,
            '__enter__': lambda c, a, k: fileobj,
            '__exit__': lambda c, a, k: None})
        cxi.ext_hooks = {'open': lambda c, a, k: fileobj}
        cxi.hooks = {
            'pico8.lua.lua:Lua.from_lines': from_lines,
            B + ':_locate_require_file': locate,
            'pico8.lua.lua:BaseASTWalker.walk': walk,
            B + ':RequireWalker.walk': walk,
        }
        main = CX.Opaque('Lua(main)', attrs={
            'tokens': [], 'root': CX.Opaque('Chunk', attrs={'stats': []}),
            '_tokens': [], '_root': None})
        f = self.model.func(B + ':_evaluate_require')
        pkgs = {}
        holder['pkgs'] = pkgs

        def body():
            cxi.call_function(f, [main, '/t/main.lua', pkgs], {})
            return None
        paths = cxi.explore(body)
        if len(paths) != 1 or paths[0][0]:
            raise CX.CxError('control flow depends on token spellings')
        kind, val = paths[0][1]
        if kind == 'raise':
            raise CX.CxError('raises {}'.format(getattr(val, 'tname', val)))
        stored = None
        for k, v in cxi.items(pkgs) if not isinstance(pkgs, dict) \
                else pkgs.items():
            stored = v
        kept = None
        if holder['parses']:
            src = holder['parses'][-1]
            parts = cxi.items(src) if not isinstance(src, (list, tuple)) \
                else list(src)
            flat = []
            for p in parts:
                if isinstance(p, CX.Seq):
                    flat.extend(p.items)
                elif isinstance(p, (bytes, bytearray)):
                    flat.extend(p)
                else:
                    raise CX.CxError('re-parse input holds ' +
                                     type(p).__name__)
            kept = []
            for b in flat:
                idx = [i for i, c in enumerate(codes) if c is b]
                if len(idx) != 1:
                    raise CX.CxError('re-parse input holds a byte that is '
                                     'not one token spelling')
                kept.append(idx[0])
        return kept, stored is holder.get('reparsed'), stored is first, \
            len(holder['parses'])


def expected(scen, use_game_loop):
    spec = SCENARIOS[scen]
    ntok = max(b for (_k, _n, _a, b) in spec)
    drop = set()
    if not use_game_loop:
        for (kind, name, a, b) in spec:
            if kind == 'f' and name in pico8_api.CALLBACKS:
                drop.update(range(a, b))
    return [i for i in range(ntok) if i not in drop], bool(drop)


def report(ctx, res, rule='R-C14-strip'):
    """-> True when every scenario was followed"""
    q = B + ':_evaluate_require'
    try:
        f = ctx.model.func(q)
    except Exception:
        res.vanished(rule, q, 'function', 'not found')
        return False
    ev = StripEval(ctx)
    followed = True
    bad = []
    n = 0
    for scen in SCENARIOS:
        for ugl in (False, True):
            try:
                kept, is_reparse, is_first, nparse = ev.run(scen, ugl)
            except (AnalysisError, CX.CxError) as e:
                res.info(rule, q, 'strip evaluated: {} use_game_loop={}'
                         .format(scen, ugl), 'not followed: ' + str(e)[:120],
                         f.loc)
                followed = False
                continue
            n += 1
            want, any_drop = expected(scen, ugl)
            have = kept if kept is not None else list(range(len(want)))
            if kept is None and not is_first:
                bad.append('{} (use_game_loop={}): the stored package is '
                           'neither the parsed file nor a re-parse'.format(
                               scen, ugl))
            elif kept is not None and not is_reparse:
                bad.append('{} (use_game_loop={}): a re-parse is made but '
                           'the original is stored'.format(scen, ugl))
            elif have != want and not (kept is None and not any_drop):
                bad.append('{} (use_game_loop={}): tokens kept {} but the '
                           'tokens outside the callback definitions are {}'
                           .format(scen, ugl, have, want))
    if not followed:
        return False
    res.check(not bad, rule, q,
              'the re-parsed package text = the tokens outside the top-level '
              'callback definitions, in order (evaluated)',
              '{} scenario evaluations (callbacks at start / middle / end / '
              'adjacent / none / only, option on and off)'.format(n),
              '; '.join(bad[:3]), f.loc, semantic=True)
    return True
