"""C14: the game-loop strip of `_evaluate_require`, decided by evaluation.

`_evaluate_require` is evaluated (concrete-control abstract interpreter,
absint/cx.py) on a stand-in package: the require walker, the file system and
the Lua parser are replaced by stand-ins, the required file is a token list
whose token spellings are distinct symbolic bytes, and its top-level
statements are parser node objects with concrete token ranges.  The text
handed to the re-parse is then read off by identity: it must be exactly the
tokens outside the ranges of the top-level callback definitions, in order --
whatever loop, comprehension, filter or cursor form computes it.

Scenarios: callbacks at the start / middle / end / adjacent / none, a nested
(non-top-level) callback, a look-alike name, option on and off."""
from ..absint import cx as CX
from ..absint.symx import BV
from ..core import AnalysisError
from ..refs import pico8_api

B = 'pico8.build.build'
PARSER = 'pico8.lua.parser'

#            kind, name, start, end   (kind 'f' = StatFunction, 'a' = other)
SCENARIOS = {
    'middle':   [('a', None, 0, 2), ('f', b'_update', 2, 5), ('a', None, 5, 7),
                 ('f', b'helper', 7, 9), ('f', b'_draw', 9, 11),
                 ('a', None, 11, 13)],
    'start':    [('f', b'_init', 0, 3), ('a', None, 3, 6)],
    'end':      [('a', None, 0, 4), ('f', b'_update60', 4, 8)],
    'adjacent': [('f', b'_init', 0, 2), ('f', b'_draw', 2, 4),
                 ('a', None, 4, 5), ('f', b'_update', 5, 9)],
    'none':     [('a', None, 0, 3), ('f', b'draw', 3, 6), ('f', b'_drawx', 6, 8)],
    'only':     [('f', b'_draw', 0, 4)],
}


class StripEval:
    def __init__(self, ctx):
        self.ctx = ctx
        self.model = ctx.model

    def _stats(self, cxi, spec):
        m = self.model
        # the parser's node classes are made with type(...) in a loop at
        # import time: stand-ins with their identity
        node = CX.StubClass('Node')
        stubs = {n: CX.StubClass(n, (node,)) for n in (
            'StatFunction', 'StatAssignment', 'FunctionName',
            'StatLocalFunction', 'StatFunctionCall', 'Chunk')}
        for n, c in stubs.items():
            cxi.module_vars[(PARSER, n)] = c
        cxi.module_vars[(PARSER, 'Node')] = node
        fcls, acls, ncls = stubs['StatFunction'], stubs['StatAssignment'], \
            stubs['FunctionName']
        tcls = m.cls('pico8.lua.lexer:TokName')
        out = []
        for (kind, name, a, b) in spec:
            o = CX.Obj(fcls if kind == 'f' else acls)
            o.attrs['start_pos'] = a
            o.attrs['end_pos'] = b
            o.attrs['_start_token_pos'] = a
            o.attrs['_end_token_pos'] = b
            if kind == 'f':
                tok = CX.Obj(tcls)
                tok.attrs['value'] = name
                tok.attrs['_data'] = name
                tok.attrs['code'] = name
                fn = CX.Obj(ncls)
                fn.attrs['namepath'] = [tok]
                fn.attrs['methodname'] = None
                o.attrs['funcname'] = fn
                o.attrs['funcbody'] = None
            out.append(o)
        return out

    def run(self, scen, use_game_loop):
        """-> ('ok', kept token indices or None when not re-parsed, stored is
        the re-parse?) | raises AnalysisError / CxError"""
        spec = SCENARIOS[scen]
        ntok = max(b for (_k, _n, _a, b) in spec)
        cxi = CX.Cx(self.model, self.ctx.consts)
        tcls = self.model.cls('pico8.lua.lexer:Token')
        toks = []
        codes = []
        for k in range(ntok):
            t = CX.Obj(tcls)
            code = CX.Seq('bytes', [BV.source(('tok', k), 8)])
            t.attrs['code'] = code
            t.attrs['_data'] = code
            t.attrs['value'] = code
            toks.append(t)
            codes.append(code.items[0])
        root = CX.Opaque('Chunk', attrs={'stats': self._stats(cxi, spec)})
        first = CX.Opaque('Lua(required file)',
                          attrs={'tokens': list(toks), 'root': root,
                                 '_tokens': list(toks), '_root': root})
        holder = {'parses': []}

        def from_lines(cx, args, kw, bound=None):
            src = args[0] if args else kw.get('lines')
            if isinstance(src, CX.Opaque) and src.name == 'file':
                return first
            holder['parses'].append(src)
            r = CX.Opaque('Lua(re-parse)', attrs={
                'tokens': [], 'root': CX.Opaque('Chunk', attrs={'stats': []}),
                '_tokens': [], '_root': None})
            holder['reparsed'] = r
            return r
        calls = {'walk': 0}

        def walk(cx, args, kw, bound=None):
            calls['walk'] += 1
            if calls['walk'] == 1:
                return [(b'pkg', use_game_loop,
                         CX.Opaque('require token'))]
            return []

        def locate(cx, args, kw, bound=None):
            return '/t/pkg.lua'

        fileobj = CX.Opaque('file', {
            'read': lambda c, a, k: b'', 'close': lambda c, a, k: None,
            '__enter__': lambda c, a, k: fileobj,
            '__exit__': lambda c, a, k: None})
        cxi.ext_hooks = {'open': lambda c, a, k: fileobj}
        cxi.hooks = {
            'pico8.lua.lua:Lua.from_lines': from_lines,
            B + ':_locate_require_file': locate,
            'pico8.lua.lua:BaseASTWalker.walk': walk,
            B + ':RequireWalker.walk': walk,
        }
        main = CX.Opaque('Lua(main)', attrs={
            'tokens': [], 'root': CX.Opaque('Chunk', attrs={'stats': []}),
            '_tokens': [], '_root': None})
        f = self.model.func(B + ':_evaluate_require')
        pkgs = {}
        holder['pkgs'] = pkgs

        def body():
            cxi.call_function(f, [main, '/t/main.lua', pkgs], {})
            return None
        paths = cxi.explore(body)
        if len(paths) != 1 or paths[0][0]:
            raise CX.CxError('control flow depends on token spellings')
        kind, val = paths[0][1]
        if kind == 'raise':
            raise CX.CxError('raises {}'.format(getattr(val, 'tname', val)))
        stored = None
        for k, v in cxi.items(pkgs) if not isinstance(pkgs, dict) \
                else pkgs.items():
            stored = v
        kept = None
        if holder['parses']:
            src = holder['parses'][-1]
            parts = cxi.items(src) if not isinstance(src, (list, tuple)) \
                else list(src)
            flat = []
            for p in parts:
                if isinstance(p, CX.Seq):
                    flat.extend(p.items)
                elif isinstance(p, (bytes, bytearray)):
                    flat.extend(p)
                else:
                    raise CX.CxError('re-parse input holds ' +
                                     type(p).__name__)
            kept = []
            for b in flat:
                idx = [i for i, c in enumerate(codes) if c is b]
                if len(idx) != 1:
                    raise CX.CxError('re-parse input holds a byte that is '
                                     'not one token spelling')
                kept.append(idx[0])
        return kept, stored is holder.get('reparsed'), stored is first, \
            len(holder['parses'])


def expected(scen, use_game_loop):
    spec = SCENARIOS[scen]
    ntok = max(b for (_k, _n, _a, b) in spec)
    drop = set()
    if not use_game_loop:
        for (kind, name, a, b) in spec:
            if kind == 'f' and name in pico8_api.CALLBACKS:
                drop.update(range(a, b))
    return [i for i in range(ntok) if i not in drop], bool(drop)


def report(ctx, res, rule='R-C14-strip'):
    """-> True when every scenario was followed"""
    q = B + ':_evaluate_require'
    try:
        f = ctx.model.func(q)
    except Exception:
        res.vanished(rule, q, 'function', 'not found')
        return False
    ev = StripEval(ctx)
    followed = True
    bad = []
    n = 0
    for scen in SCENARIOS:
        for ugl in (False, True):
            try:
                kept, is_reparse, is_first, nparse = ev.run(scen, ugl)
            except (AnalysisError, CX.CxError) as e:
                res.info(rule, q, 'strip evaluated: {} use_game_loop={}'
                         .format(scen, ugl), 'not followed: ' + str(e)[:120],
                         f.loc)
                followed = False
                continue
            n += 1
            want, any_drop = expected(scen, ugl)
            have = kept if kept is not None else list(range(len(want)))
            if kept is None and not is_first:
                bad.append('{} (use_game_loop={}): the stored package is '
                           'neither the parsed file nor a re-parse'.format(
                               scen, ugl))
            elif kept is not None and not is_reparse:
                bad.append('{} (use_game_loop={}): a re-parse is made but '
                           'the original is stored'.format(scen, ugl))
            elif have != want and not (kept is None and not any_drop):
                bad.append('{} (use_game_loop={}): tokens kept {} but the '
                           'tokens outside the callback definitions are {}'
                           .format(scen, ugl, have, want))
    if not followed:
        return False
    res.check(not bad, rule, q,
              'the re-parsed package text = the tokens outside the top-level '
              'callback definitions, in order (evaluated)',
              '{} scenario evaluations (callbacks at start / middle / end / '
              'adjacent / none / only, option on and off)'.format(n),
              '; '.join(bad[:3]), f.loc, semantic=True)
    return True


# ------------------------------------------------- require() argument forms

NODE_STUBS = ('FunctionCall', 'VarName', 'VarAttribute', 'FunctionArgs',
              'ExpList', 'ExpValue', 'ExpBinOp', 'TableConstructor',
              'FieldNamed', 'FieldExp', 'StatFunction', 'StatAssignment',
              'FunctionName', 'Chunk')


def _stubs(cxi):
    node = CX.StubClass('Node')
    stubs = {n: CX.StubClass(n, (node,)) for n in NODE_STUBS}
    for n, c in stubs.items():
        cxi.module_vars[(PARSER, n)] = c
    cxi.module_vars[(PARSER, 'Node')] = node
    return stubs


def _mk(stubs, _kind, **attrs):
    o = CX.Obj(stubs[_kind])
    o.attrs.update(attrs)
    o.attrs.setdefault('start_pos', 0)
    o.attrs.setdefault('end_pos', 1)
    return o


class WalkerEval:
    """RequireWalker._walk_FunctionCall on stand-in call nodes"""

    def __init__(self, ctx):
        self.ctx = ctx
        self.model = ctx.model
        self.cls = self.model.cls(B + ':RequireWalker')

    def run(self, build):
        """build(cxi, stubs, tok) -> FunctionCall node;
        -> ('yield', [items]) | ('raise', exception type name)"""
        cxi = CX.Cx(self.model, self.ctx.consts)
        stubs = _stubs(cxi)
        lex = 'pico8.lua.lexer:'

        def tok(kind, data):
            return cxi.call(CX.ClassVal(self.model.cls(lex + kind)),
                            [data], {})
        marker = CX.Opaque('token of the call')
        cxi.hooks = {
            'pico8.lua.lua:_default_node_handler':
                lambda c, a, k, bound=None: ['<delegated to the default '
                                             'handler>'],
        }

        def go():
            node = build(cxi, stubs, tok)
            w = CX.Obj(self.cls)
            w.attrs['_tokens'] = [marker]
            w.attrs['_root'] = None
            w.attrs['_args'] = {}
            r = cxi.call(cxi.getattr(w, '_walk_FunctionCall'), [node], {})
            return list(cxi.items(r))
        paths = cxi.explore(go)
        if len(paths) != 1 or paths[0][0]:
            raise CX.CxError('the walker forks on opaque contents')
        kind, val = paths[0][1]
        if kind == 'raise':
            return ('raise', val.tname), marker
        return ('yield', val), marker


def _call(stubs, tok, prefix, exps):
    args = _mk(stubs, 'FunctionArgs', explist=(
        _mk(stubs, 'ExpList', exps=list(exps)) if exps is not None
        else None))
    return _mk(stubs, 'FunctionCall', exp_prefix=prefix, args=args)


def _req(stubs, tok):
    return _mk(stubs, 'VarName', name=tok('TokName', b'require'))


def _s(stubs, tok, data=b'pkg'):
    return _mk(stubs, 'ExpValue', value=tok('TokString', data))


def _opt(stubs, tok, key=b'use_game_loop', val=True, n=1):
    fields = [_mk(stubs, 'FieldNamed', key_name=tok('TokName', key),
                  exp=_mk(stubs, 'ExpValue', value=val)) for _ in range(n)]
    return _mk(stubs, 'ExpValue',
               value=_mk(stubs, 'TableConstructor', fields=fields))


WALKER_CASES = [
    # (description, builder, expected)
    ('require("pkg")',
     lambda c, st, t: _call(st, t, _req(st, t), [_s(st, t)]),
     ('req', b'pkg', False)),
    ('require("pkg", {use_game_loop=true})',
     lambda c, st, t: _call(st, t, _req(st, t), [_s(st, t), _opt(st, t)]),
     ('req', b'pkg', True)),
    ('require("pkg", {use_game_loop=false})',
     lambda c, st, t: _call(st, t, _req(st, t),
                            [_s(st, t), _opt(st, t, val=False)]),
     ('req', b'pkg', False)),
    ('require("dir/sub.mod")',
     lambda c, st, t: _call(st, t, _req(st, t), [_s(st, t, b'dir/sub.mod')]),
     ('req', b'dir/sub.mod', False)),
    ('require()',
     lambda c, st, t: _call(st, t, _req(st, t), None), ('error',)),
    ('require("a", {use_game_loop=true}, 3)',
     lambda c, st, t: _call(st, t, _req(st, t),
                            [_s(st, t), _opt(st, t), _s(st, t)]),
     ('error',)),
    ('require(name) -- not a literal',
     lambda c, st, t: _call(st, t, _req(st, t), [
         _mk(st, 'ExpValue', value=_mk(st, 'VarName',
                                       name=t('TokName', b'name')))]),
     ('error',)),
    ('require("a".."b")',
     lambda c, st, t: _call(st, t, _req(st, t), [_mk(st, 'ExpBinOp')]),
     ('error',)),
    ('require(12)',
     lambda c, st, t: _call(st, t, _req(st, t), [
         _mk(st, 'ExpValue', value=t('TokNumber', b'12'))]),
     ('error',)),
    ('require("a", "b")',
     lambda c, st, t: _call(st, t, _req(st, t), [_s(st, t), _s(st, t)]),
     ('error',)),
    ('require("a", {})',
     lambda c, st, t: _call(st, t, _req(st, t),
                            [_s(st, t), _opt(st, t, n=0)]), ('error',)),
    ('require("a", {use_game_loop=true, use_game_loop=true})',
     lambda c, st, t: _call(st, t, _req(st, t),
                            [_s(st, t), _opt(st, t, n=2)]), ('error',)),
    ('require("a", {other=true})',
     lambda c, st, t: _call(st, t, _req(st, t),
                            [_s(st, t), _opt(st, t, key=b'other')]),
     ('error',)),
    ('require("a", {use_game_loop=1})',
     lambda c, st, t: _call(st, t, _req(st, t),
                            [_s(st, t), _opt(st, t, val=1.0)]), ('error',)),
    ('require("a", {use_game_loop=nil})',
     lambda c, st, t: _call(st, t, _req(st, t),
                            [_s(st, t), _opt(st, t, val=None)]), ('error',)),
    ('foo("pkg") -- another function',
     lambda c, st, t: _call(st, t, _mk(st, 'VarName',
                                       name=t('TokName', b'foo')),
                            [_s(st, t)]), ('delegate',)),
    ('t.require("pkg") -- a field, not the global',
     lambda c, st, t: _call(st, t, _mk(st, 'VarAttribute'), [_s(st, t)]),
     ('delegate',)),
]


def report_walker(ctx, res, rule='R-C14-errors'):
    q = B + ':RequireWalker._walk_FunctionCall'
    try:
        f = ctx.model.func(q)
        ev = WalkerEval(ctx)
    except Exception as e:
        res.vanished(rule, q, 'require finder', str(e)[:80])
        return False
    bad = []
    n = 0
    try:
        for (what, build, want) in WALKER_CASES:
            (kind, val), marker = ev.run(build)
            n += 1
            if want[0] == 'error':
                # "fails the build with an error": any exception ends the
                # build; what matters is that nothing is yielded
                if kind != 'raise':
                    bad.append('`{}` is accepted: yields {} require(s) '
                               'instead of failing the build'.format(
                                   what, len(val)))
            elif want[0] == 'delegate':
                if not (kind == 'yield' and val ==
                        ['<delegated to the default handler>']):
                    bad.append('`{}` is not handed to the default handler '
                               '({} {})'.format(what, kind, val))
            else:
                ok = kind == 'yield' and len(val) == 1
                if ok:
                    item = ev_items(val[0])
                    ok = len(item) == 3 and _as_bytes(item[0]) == want[1] \
                        and item[1] is want[2] and item[2] is marker
                if not ok:
                    bad.append('`{}` does not yield ({!r}, {}, <its token>): '
                               '{} {}'.format(what, want[1], want[2], kind,
                                              _show(val)))
    except AnalysisError as e:
        res.info(rule, q, 'require() argument forms evaluated',
                 'not followed: ' + str(e)[:140], f.loc)
        return False
    res.check(not bad, rule, q,
              'require() argument forms: name and option are taken from the '
              'literal arguments, every other form is refused (evaluated)',
              '{} call shapes on stand-in nodes'.format(n),
              '; '.join(bad[:3]) + (' (+{} more)'.format(len(bad) - 3)
                                    if len(bad) > 3 else ''), f.loc,
              semantic=True)
    return True


def ev_items(v):
    if isinstance(v, (tuple, list)):
        return list(v)
    if isinstance(v, CX.Seq):
        return list(v.items)
    return [v]


def _as_bytes(v):
    if isinstance(v, CX.Seq):
        try:
            return bytes(v.items)
        except (TypeError, ValueError):
            return None
    return v if isinstance(v, (bytes, bytearray)) else None


def _show(v):
    return repr(v)[:80]


# ------------------------------------------------------ loader + packages

def report_prepend(ctx, res, rule='R-C14-splice'):
    """_prepend_package_lua on stand-in packages: the text handed to the
    parser is  package table line / per package: opener with the (quote-
    escaped) name, the package's lines, a newline if the last line lacks one,
    `end` / the require function / the main program's lines."""
    from ..refs import loader as REF
    q = B + ':_prepend_package_lua'
    try:
        f = ctx.model.func(q)
    except Exception as e:
        res.vanished(rule, q, 'loader assembly', str(e)[:80])
        return False
    cxi = CX.Cx(ctx.model, ctx.consts)
    holder = {}

    def from_lines(cx, a, k, bound=None):
        holder['lines'] = a[0] if a else k.get('lines')
        return CX.Opaque('Lua(assembled)')
    cxi.hooks = {'pico8.lua.lua:Lua.from_lines': from_lines}

    def lua_of(lines):
        return CX.Opaque('Lua', {'to_lines': lambda c, a, k: list(lines)})
    main = lua_of([b'x=1\n', b'print(x)'])
    pkgs = {b'pkg': lua_of([b'p=1\n', b'return p']),
            b'q"x': lua_of([b'q=2\n']),
            b'dir/empty': lua_of([])}
    try:
        paths = cxi.explore(lambda: cxi.call_function(f, [main, pkgs], {}))
        if len(paths) != 1 or paths[0][0]:
            raise CX.CxError('the assembly forks')
        kind, val = paths[0][1]
        if kind == 'raise':
            if val.tname in ('NameError', 'UnboundLocalError', 'TypeError',
                             'IndexError', 'KeyError', 'ValueError'):
                res.violation(
                    rule, q, 'assembled cart text = package table, one '
                    'closed function per package under its quoted name, the '
                    'require function, the main program (evaluated)',
                    'assembling a cart with three ordinary packages raises '
                    '{}{}: every build that uses require() fails'.format(
                        val.tname, tuple(str(a)[:60] for a in val.args_)),
                    f.loc, semantic=True)
                return True
            raise CX.CxError('raises ' + val.tname)
        text = b''
        for ln in cxi.items(holder.get('lines', [])):
            b = _as_bytes(ln)
            if b is None:
                raise CX.CxError('assembled line is ' + type(ln).__name__)
            text += bytes(b)
        # no packages: the original object comes back, nothing is re-parsed
        holder.clear()
        paths2 = cxi.explore(lambda: cxi.call_function(f, [main, {}], {}))
        same = len(paths2) == 1 and paths2[0][1][0] == 'ok' and \
            paths2[0][1][1] is main and 'lines' not in holder
    except AnalysisError as e:
        res.info(rule, q, 'loader assembly evaluated',
                 'not followed: ' + str(e)[:140], f.loc)
        return False
    want_pk = b''
    for name, lines in ((b'pkg', b'p=1\nreturn p\n'), (b'q\\"x', b'q=2\n'),
                        (b'dir/empty', None)):
        want_pk += b'package._c["' + name + b'"]=function()\n'
        if lines is None:
            # an empty package: the opener line already ends in a newline
            pass
        else:
            want_pk += lines
        want_pk += b'end\n'
    head, tail = REF.PACKAGE_TABLE, REF.REQUIRE_FUNCTION
    want = head + want_pk + tail + b'x=1\nprint(x)'
    if text == want:
        res.holds(rule, q, 'assembled cart text = package table, one closed '
                  'function per package under its quoted name, the require '
                  'function, the main program (evaluated)',
                  '3 stand-in packages (no final newline, a quote in the '
                  'name, empty)', f.loc)
    elif text.startswith(head) and text.endswith(tail + b'x=1\nprint(x)') \
            and text[len(head):len(text) - len(tail) - 12] != want_pk:
        got = text[len(head):len(text) - len(tail) - 12]
        res.violation(rule, q, 'assembled cart text = package table, one '
                      'closed function per package under its quoted name, '
                      'the require function, the main program (evaluated)',
                      'the package part is {!r} instead of {!r}'.format(
                          got[:160], want_pk[:160]), f.loc, semantic=True)
    elif want_pk in text and text.endswith(b'x=1\nprint(x)') and \
            text.index(want_pk) > 0:
        # packages and main program in place; the loader's own Lua text is
        # not the reference text: its meaning is not decided here
        res.undecided(rule, q, 'loader text',
                      'packages and main program are assembled as specified '
                      'but the loader Lua around them differs from the '
                      'reference text; whether it still defines '
                      'package._c / require(p) equivalently is not decided',
                      f.loc)
    else:
        res.violation(rule, q, 'assembled cart text = package table, one '
                      'closed function per package under its quoted name, '
                      'the require function, the main program (evaluated)',
                      'assembled text is {!r}... instead of {!r}...'.format(
                          text[:120], want[:120]), f.loc, semantic=True)
    res.check(same, rule, q, 'without packages the program is returned as it '
              'is (evaluated)', '', 'a cart without require() is re-assembled '
              'or replaced', f.loc, semantic=True)
    return True


def report_graph(ctx, res, rule='R-C14-once'):
    """_evaluate_require on package graphs (shared package, chain, cycle,
    repeated require): every distinct name is located, opened and parsed
    once and stored under its name; bad names and missing files are
    refused."""
    q = B + ':_evaluate_require'
    try:
        f = ctx.model.func(q)
    except Exception as e:
        res.vanished(rule, q, 'package loading', str(e)[:80])
        return False
    GRAPHS = {
        'repeated require': {'main': [b'a', b'a'], b'a': []},
        'shared package': {'main': [b'a', b'b'], b'a': [b'c'], b'b': [b'c'],
                           b'c': []},
        'chain': {'main': [b'a'], b'a': [b'b'], b'b': [b'c'], b'c': []},
        'cycle': {'main': [b'a'], b'a': [b'b'], b'b': [b'a']},
    }
    bad = []
    n = 0
    try:
        for gname, graph in GRAPHS.items():
            r = _run_graph(ctx, f, graph)
            n += 1
            names = sorted(k for k in graph if k != 'main')
            if r['rc'] != 'ok':
                bad.append('{}: {}'.format(gname, r['rc']))
                continue
            if sorted(r['stored']) != names:
                bad.append('{}: packages stored {} instead of {}'.format(
                    gname, sorted(r['stored']), names))
            for nm in names:
                if r['parsed'].count(nm) != 1:
                    bad.append('{}: package {!r} is parsed {} times'.format(
                        gname, nm, r['parsed'].count(nm)))
                elif r['stored'].get(nm) != nm:
                    bad.append('{}: name {!r} holds the package parsed from '
                               '{!r}'.format(gname, nm, r['stored'].get(nm)))
        for (what, graph, missing) in (
                ('require("./x")', {'main': [b'./x'], b'./x': []}, ()),
                ('require("../x")', {'main': [b'../x'], b'../x': []}, ()),
                ('require("/abs")', {'main': [b'/abs'], b'/abs': []}, ()),
                ('a file that cannot be found', {'main': [b'gone']},
                 (b'gone',))):
            r = _run_graph(ctx, f, graph, missing)
            n += 1
            if not r['rc'].startswith('raise ') or r['parsed']:
                bad.append('{}: {} (files parsed: {})'.format(
                    what, r['rc'], r['parsed']))
    except AnalysisError as e:
        res.info(rule, q, 'package graphs evaluated',
                 'not followed: ' + str(e)[:140], f.loc)
        return False
    res.check(not bad, rule, q,
              'every distinct required name is located, parsed and stored '
              'once; cycles end; bad names and missing files are refused '
              '(evaluated)',
              '{} graphs / error cases on stand-in files'.format(n),
              '; '.join(bad[:3]), f.loc, semantic=True)
    return True


def _run_graph(ctx, f, graph, missing=()):
    cxi = CX.Cx(ctx.model, ctx.consts)
    _stubs(cxi)
    luas = {}
    by_tokens = {}
    rec = {'parsed': [], 'located': []}

    def lua_for(name):
        toks = [CX.Opaque('token of {!r}'.format(name))]
        o = CX.Opaque('Lua({!r})'.format(name), attrs={
            'tokens': toks, '_tokens': toks,
            'root': CX.Opaque('Chunk', attrs={'stats': []})})
        o.attrs['_root'] = o.attrs['root']
        by_tokens[id(toks)] = name
        luas[name] = o
        return o
    main = lua_for('main')
    current = {}

    def locate(cx, a, k, bound=None):
        nm = a[0]
        key = nm.encode('utf-8') if isinstance(nm, str) else nm
        rec['located'].append(key)
        if key in missing:
            return None
        return '/t/' + (nm if isinstance(nm, str) else nm.decode())

    def opn(cx, a, k):
        path = a[0]
        fo = CX.Opaque('file', {'read': lambda c, a2, k2: b'',
                                'close': lambda c, a2, k2: None},
                       attrs={'path': path})
        fo.methods['__enter__'] = lambda c, a2, k2: fo
        fo.methods['__exit__'] = lambda c, a2, k2: None
        return fo

    def from_lines(cx, a, k, bound=None):
        src = a[0] if a else k.get('lines')
        if isinstance(src, CX.Opaque) and src.name == 'file':
            name = src.attrs['path'][3:].encode('utf-8')
            rec['parsed'].append(name)
            return lua_for(name)
        raise CX.CxError('unexpected re-parse')

    def walk(cx, a, k, bound=None):
        toks = bound.attrs.get('_tokens') if isinstance(bound, CX.Obj) \
            else None
        name = by_tokens.get(id(toks))
        if name is None:
            raise CX.CxError('walker over an unknown token list')
        return [(r, True, CX.Opaque('require token'))
                for r in graph.get(name, [])]
    cxi.ext_hooks = {'open': opn}
    cxi.hooks = {
        'pico8.lua.lua:Lua.from_lines': from_lines,
        B + ':_locate_require_file': locate,
        'pico8.lua.lua:BaseASTWalker.walk': walk,
        B + ':RequireWalker.walk': walk,
    }
    pkgs = {}
    paths = cxi.explore(lambda: cxi.call_function(
        f, [main, '/t/main.lua', pkgs], {}))
    if len(paths) != 1 or paths[0][0]:
        raise CX.CxError('package loading forks')
    kind, val = paths[0][1]
    rec['rc'] = 'ok' if kind == 'ok' else 'raise ' + val.tname
    stored = {}
    for k2, v in pkgs.items():
        nm = None
        for n2, o in luas.items():
            if o is v:
                nm = n2
        stored[k2] = nm
    rec['stored'] = stored
    return rec
