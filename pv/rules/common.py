"""Helpers shared by the rule modules."""
import ast

from ..cfg import cfg_of
from ..core import AnalysisError
from ..srcmodel import walk_own, kwarg, dotted

WRITE_MODE_CHARS = set('wax+')

TEMPSTREAM_CTORS = {
    'tempfile.TemporaryFile', 'tempfile.NamedTemporaryFile',
    'tempfile.SpooledTemporaryFile', 'io.BytesIO', 'io.StringIO',
}

# stdlib calls that create, replace, truncate or delete a named file
FS_MUTATORS = {
    'os.remove', 'os.unlink', 'os.rename', 'os.replace', 'os.renames',
    'os.truncate', 'os.rmdir', 'os.removedirs', 'os.mkdir', 'os.makedirs',
    'os.link', 'os.symlink', 'os.open', 'os.mkfifo', 'os.chmod',
    'shutil.copy', 'shutil.copy2', 'shutil.copyfile', 'shutil.copyfileobj',
    'shutil.move', 'shutil.rmtree', 'shutil.copytree',
    'pathlib.Path', 'pathlib.PurePath',
}
FS_MUTATOR_METHODS = {
    'write_text', 'write_bytes', 'unlink', 'rename', 'replace', 'touch',
    'rmdir', 'truncate',
}

OPEN_NAMES = {'open', 'io.open', 'codecs.open', 'builtins.open'}


def literal(node):
    try:
        return ast.literal_eval(node)
    except Exception:
        return None


def assignments_to(fnode, name):
    """All (stmt, value) binding a simple Name in the function body."""
    out = []
    for n in walk_own(fnode):
        if n is fnode:
            continue
        if isinstance(n, ast.Assign):
            for t in n.targets:
                if isinstance(t, ast.Name) and t.id == name:
                    out.append((n, n.value))
                elif isinstance(t, (ast.Tuple, ast.List)):
                    for e in t.elts:
                        if isinstance(e, ast.Name) and e.id == name:
                            out.append((n, None))
        elif isinstance(n, ast.AugAssign):
            if isinstance(n.target, ast.Name) and n.target.id == name:
                out.append((n, None))
        elif isinstance(n, ast.AnnAssign):
            if isinstance(n.target, ast.Name) and n.target.id == name:
                out.append((n, n.value))
        elif isinstance(n, (ast.For, ast.AsyncFor)):
            for e in walk_own(n.target):
                if isinstance(e, ast.Name) and e.id == name:
                    out.append((n, None))
        elif isinstance(n, (ast.With, ast.AsyncWith)):
            for it in n.items:
                if it.optional_vars is not None:
                    for e in walk_own(it.optional_vars):
                        if isinstance(e, ast.Name) and e.id == name:
                            out.append((n, it.context_expr))
        elif isinstance(n, ast.NamedExpr):
            if n.target.id == name:
                out.append((n, n.value))
    return out


def local_literal(fnode, name):
    """Value of a local bound exactly once to a literal and never mutated
    through subscript stores; else None."""
    asg = assignments_to(fnode, name)
    if len(asg) != 1 or asg[0][1] is None:
        return None
    for n in walk_own(fnode):
        if isinstance(n, (ast.Assign, ast.AugAssign)):
            tgts = n.targets if isinstance(n, ast.Assign) else [n.target]
            for t in tgts:
                if (isinstance(t, ast.Subscript) and
                        isinstance(t.value, ast.Name) and t.value.id == name):
                    return None
    return literal(asg[0][1])


def module_literal(fnode, name):
    """value of a module-level `NAME = <literal>` (bound exactly once) of the
    module that contains fnode; None when there is none"""
    m = fnode
    while m is not None and not isinstance(m, ast.Module):
        m = getattr(m, '_parent', None)
    if m is None:
        return None
    vals = []
    for st in m.body:
        if isinstance(st, ast.Assign):
            for t in st.targets:
                if isinstance(t, ast.Name) and t.id == name:
                    vals.append(st.value)
        elif isinstance(st, (ast.AugAssign, ast.AnnAssign)) and isinstance(
                getattr(st, 'target', None), ast.Name) and \
                st.target.id == name:
            return None
    if len(vals) != 1:
        return None
    # nothing in the module stores into it / re-binds it elsewhere
    for x in ast.walk(m):
        if isinstance(x, ast.Global) and name in x.names:
            return None
        if isinstance(x, ast.Subscript) and isinstance(
                x.ctx, (ast.Store, ast.Del)) and isinstance(
                x.value, ast.Name) and x.value.id == name:
            return None
    try:
        return literal(vals[0])
    except Exception:
        return None


def open_mode(fnode, call):
    """Mode string of an open()-like call, 'r' by default, None if it cannot
    be evaluated."""
    mode = None
    if len(call.args) > 1 and not isinstance(call.args[1], ast.Starred):
        mode = call.args[1]
    for k in call.keywords:
        if k.arg == 'mode':
            mode = k.value
        elif k.arg is None:
            d = None
            if isinstance(k.value, ast.Name):
                d = local_literal(fnode, k.value.id)
                if not isinstance(d, dict):
                    d = module_literal(fnode, k.value.id)
            elif isinstance(k.value, ast.Dict):
                d = literal(k.value)
            if not isinstance(d, dict):
                return None
            if 'mode' in d:
                return d['mode'] if isinstance(d['mode'], str) else None
    if mode is None:
        return 'r'
    if isinstance(mode, ast.Constant) and isinstance(mode.value, str):
        return mode.value
    if isinstance(mode, ast.IfExp) and all(
            isinstance(x, ast.Constant) and isinstance(x.value, str)
            for x in (mode.body, mode.orelse)):
        # either mode may be the one used: every capability of both (an open
        # that creates or truncates under one of them does so on some path)
        a, b = mode.body.value, mode.orelse.value
        return a + ''.join(c for c in b if c not in a)
    if isinstance(mode, ast.Name):
        v = local_literal(fnode, mode.id)
        if isinstance(v, str):
            return v
        v = module_literal(fnode, mode.id)
        if isinstance(v, str):
            return v
    return None


def is_write_mode(mode):
    return bool(set(mode) & WRITE_MODE_CHARS)


def derived_names(fnode, seeds):
    """Names that (transitively) receive a value computed from `seeds`
    through assignments in the function (flow-insensitive)."""
    names = set(seeds)
    changed = True
    while changed:
        changed = False
        for n in walk_own(fnode):
            if isinstance(n, ast.Assign):
                used = {x.id for x in walk_own(n.value)
                        if isinstance(x, ast.Name)}
                if used & names:
                    for t in n.targets:
                        for e in walk_own(t):
                            if isinstance(e, ast.Name) and e.id not in names:
                                names.add(e.id)
                                changed = True
    return names


def stmt_of(node):
    n = node
    while n is not None and not isinstance(n, ast.stmt):
        n = getattr(n, '_parent', None)
    return n


def _uses_pathlib(model, module):
    return any(v[1].startswith('pathlib') for v in module.imports.values())


def _is_path_receiver(model, f, recv):
    """Receiver of a method call is a pathlib object: only decidable (and only
    asked) in modules that import pathlib.  Names that are unambiguous
    (write_text, write_bytes, unlink, touch, rmdir) count on any receiver
    there; replace/rename/truncate need a Path(...) construction in view."""
    if not _uses_pathlib(model, f.module):
        return False
    parent = getattr(recv, '_parent', None)
    attr = parent.attr if isinstance(parent, ast.Attribute) else ''
    if attr in ('write_text', 'write_bytes', 'unlink', 'touch', 'rmdir'):
        return True
    names = {recv.id} if isinstance(recv, ast.Name) else set()
    for c in walk_own(recv):
        if isinstance(c, ast.Call):
            ext = model.ext_name(f.module, c.func) or ''
            if ext.startswith('pathlib'):
                return True
    for nm in names:
        for (_s, v) in assignments_to(f.node, nm):
            if v is not None:
                for c in walk_own(v):
                    if isinstance(c, ast.Call):
                        ext = model.ext_name(f.module, c.func) or ''
                        if ext.startswith('pathlib'):
                            return True
    return False


def fs_sites(model):
    """Every call in the package that opens / mutates a named file.
    -> list of dicts(func, call, kind, name, mode)"""
    out = []
    for f in model.functions.values():
        for n in model.own_nodes(f.node):
            if not isinstance(n, ast.Call):
                continue
            ext = model.ext_name(f.module, n.func)
            if ext in OPEN_NAMES:
                out.append({'func': f, 'call': n, 'kind': 'open',
                            'name': ext, 'mode': open_mode(f.node, n)})
            elif ext in FS_MUTATORS:
                out.append({'func': f, 'call': n, 'kind': 'mutator',
                            'name': ext, 'mode': None})
            elif (isinstance(n.func, ast.Attribute) and
                  n.func.attr in FS_MUTATOR_METHODS and
                  _is_path_receiver(model, f, n.func.value)):
                out.append({'func': f, 'call': n, 'kind': 'mutator-method',
                            'name': '.' + n.func.attr, 'mode': None})
    # module-level statements too
    for m in model.modules.values():
        for n in ast.walk(m.tree):
            if isinstance(n, ast.Call) and model.enclosing_function(m, n) is None:
                ext = model.ext_name(m, n.func)
                if ext in OPEN_NAMES or ext in FS_MUTATORS:
                    out.append({'func': None, 'module': m, 'call': n,
                                'kind': 'module-level', 'name': ext,
                                'mode': None})
    return out


def unparse(node, limit=90):
    s = ast.unparse(node)
    s = ' '.join(s.split())
    return s if len(s) <= limit else s[:limit - 3] + '...'
