"""Extraction of TokString.code (quoted form) as a byte transducer.

The property body is interpreted over a small abstract domain: the string
being written is a symbol DATA, the loop visits one byte `c` (each of the 256
values in turn, concretely) and everything the body asks about the bytes after
it is kept as a regular-language condition on the remainder REST = DATA[i+1:].
The result is, per byte value, a list of (conditions on REST, emitted text).
Nothing of picotool runs; statements and expressions outside the subset abort
the analysis (exit 2).
"""
import ast

from .. import rx
from ..core import AnalysisError
from ..consteval import UNKNOWN


class _Sym:
    def __init__(self, name):
        self.name = name

    def __repr__(self):
        return '<' + self.name + '>'


DATA = _Sym('DATA')
INDEX = _Sym('i')
LOOP = _Sym('LOOP')


class Rest:
    """DATA[i+lo : i+hi] (hi None = to the end); lo >= 1."""

    def __init__(self, lo, hi):
        self.lo, self.hi = lo, hi


class RestByte:
    """DATA[i+k] -- raises IndexError at the end of the string."""

    def __init__(self, k):
        self.k = k


class Cond:
    """boolean depending on REST: REST in L(pattern) (xor neg)."""

    def __init__(self, pattern, text, neg=False):
        self.pattern, self.text, self.neg = pattern, text, neg
        self._nfa = None

    def negate(self):
        return Cond(self.pattern, self.text, not self.neg)

    def holds(self, rest):
        if self._nfa is None:
            self._nfa = rx.build(self.pattern)
        return rx.accepts(self._nfa, rest) != self.neg


class Acc:
    """list under construction: pieces are bytes, the quote, or LOOP."""

    def __init__(self, pieces):
        self.pieces = list(pieces)


class Joined:
    def __init__(self, pieces):
        self.pieces = list(pieces)


class _Fork(Exception):
    def __init__(self, cond):
        self.cond = cond


class _Return(Exception):
    def __init__(self, value):
        self.value = value


class _ContinueLoop(Exception):
    pass


_BYTES_METHODS = {'isdigit', 'isalpha', 'isalnum', 'isspace', 'rjust',
                  'ljust', 'zfill', 'lower', 'upper', 'startswith',
                  'endswith', 'hex', 'strip', 'lstrip', 'rstrip', 'decode',
                  'encode', 'replace', 'center', 'format'}
_BUILTINS = {'bytes': bytes, 'ord': ord, 'chr': chr, 'len': len, 'int': int,
             'str': str, 'hex': hex, 'oct': oct, 'min': min, 'max': max,
             'bool': bool, 'repr': repr}


def _digits_pattern(rest):
    """pattern for `REST-slice.isdigit()`"""
    if rest.lo != 1:
        raise AnalysisError('encoder looks at DATA[i+{}:...]'.format(rest.lo))
    if rest.hi is None:
        return b'[0-9]+'
    n = rest.hi - rest.lo
    if n <= 0:
        return b'[^\\x00-\\xff]'          # empty slice: never digits
    if n == 1:
        return b'[0-9][\\x00-\\xff]*'
    return ('(?:[0-9]{%d}[\\x00-\\xff]*|[0-9]{1,%d})' % (n, n - 1)).encode()


def _member_pattern(rest, coll):
    """pattern for `REST-slice in <bytes>` (substring semantics) or
    `REST-slice in (tuple of bytes)`"""
    if rest.lo != 1 or rest.hi is None:
        raise AnalysisError('encoder membership test on an open slice')
    n = rest.hi - rest.lo
    if isinstance(coll, bytes):
        opts = {coll[i:i + k] for k in range(0, n + 1)
                for i in range(len(coll) - k + 1)}
    else:
        opts = {x for x in coll if isinstance(x, bytes)}
    alts = []
    for o in sorted(opts):
        if len(o) == n:
            alts.append(_esc(o) + b'[\\x00-\\xff]*')
        elif len(o) < n:
            alts.append(_esc(o))            # slice shortened by end of data
    if not alts:
        return b'[^\\x00-\\xff]'
    return b'(?:' + b'|'.join(alts) + b')'


def _esc(bs):
    return b''.join(b'\\x%02x' % b for b in bs) if bs else b''


class Encoder:
    """result of the extraction"""

    def __init__(self, quote):
        self.quote = quote
        self.cases = {}         # c -> [(conds, text)]
        self.prefix = None
        self.suffix = None
        self.conds = []         # all distinct conditions met

    def encode_at(self, c, rest):
        for (conds, text) in self.cases[c]:
            if all(cd.holds(rest) for cd in conds):
                return text
        raise AnalysisError('encoder has no case for byte {}'.format(c))

    def encode(self, data):
        out = b''
        for i, c in enumerate(data):
            out += self.encode_at(c, data[i + 1:])
        return out

    def context_dependent(self, c):
        return any(conds for (conds, _t) in self.cases[c])


class _Interp:
    def __init__(self, ctx, f, quote):
        self.ctx = ctx
        self.f = f
        self.mod = f.module
        self.quote = quote
        self.enc = Encoder(quote)
        self.choices = []
        self.pos = 0

    # -- forking on REST conditions -----------------------------------------
    def decide(self, cond):
        if self.pos < len(self.choices):
            v = self.choices[self.pos][1]
        else:
            self.choices.append((cond, True))
            v = True
        self.pos += 1
        return v

    def all_paths(self, fn):
        """run fn() under every combination of REST-condition outcomes"""
        results = []
        self.choices = []
        while True:
            self.pos = 0
            r = fn()
            conds = [c if v else c.negate() for (c, v) in
                     self.choices[:self.pos]]
            results.append((conds, r))
            # next combination
            self.choices = self.choices[:self.pos]
            while self.choices and self.choices[-1][1] is False:
                self.choices.pop()
            if not self.choices:
                return results
            c, _v = self.choices.pop()
            self.choices.append((c, False))

    # -- expressions ---------------------------------------------------------
    def ev(self, e, env):
        if isinstance(e, ast.Constant):
            return e.value
        if isinstance(e, ast.Name):
            if e.id in env:
                return env[e.id]
            if e.id in _BUILTINS:
                return _BUILTINS[e.id]
            v = self.ctx.consts.module_const(self.mod.name, e.id)
            if v is UNKNOWN:
                raise AnalysisError('encoder reads unknown name ' + e.id)
            return v
        if isinstance(e, ast.Attribute):
            k = ast.unparse(e)
            if k in env:
                return env[k]
            base = self.ev(e.value, env)
            return ('method', base, e.attr)
        if isinstance(e, (ast.List, ast.Tuple)):
            vals = [self.ev(x, env) for x in e.elts]
            if isinstance(e, ast.List):
                return Acc(vals)
            return tuple(vals)
        if isinstance(e, ast.UnaryOp) and isinstance(e.op, ast.Not):
            return not self.truth(self.ev(e.operand, env))
        if isinstance(e, ast.BoolOp):
            if isinstance(e.op, ast.And):
                v = True
                for x in e.values:
                    v = self.ev(x, env)
                    if not self.truth(v):
                        return False
                return v
            v = False
            for x in e.values:
                v = self.ev(x, env)
                if self.truth(v):
                    return v
            return v
        if isinstance(e, ast.IfExp):
            return self.ev(e.body if self.truth(self.ev(e.test, env))
                           else e.orelse, env)
        if isinstance(e, ast.Compare) and len(e.ops) == 1:
            return self.compare(e.ops[0], self.ev(e.left, env),
                                self.ev(e.comparators[0], env), e)
        if isinstance(e, ast.BinOp):
            return self.binop(e.op, self.ev(e.left, env),
                              self.ev(e.right, env), e)
        if isinstance(e, ast.Subscript):
            return self.subscript(self.ev(e.value, env), e.slice, env, e)
        if isinstance(e, ast.Call):
            return self.call(e, env)
        raise AnalysisError('encoder expression outside the model: ' +
                            ast.unparse(e)[:60])

    def truth(self, v):
        if isinstance(v, Cond):
            return self.decide(v)
        if isinstance(v, (Rest, RestByte, _Sym, Acc, Joined)):
            raise AnalysisError('encoder tests the truth of a symbolic value')
        return bool(v)

    def conc(self, v, what):
        if isinstance(v, (Cond, Rest, RestByte, _Sym, Acc, Joined)) or (
                isinstance(v, tuple) and v and v[0] in ('method', 'idx',
                                                        'enumerate')):
            raise AnalysisError('encoder: symbolic value in ' + what)
        return v

    def compare(self, op, l, r, e):
        if isinstance(l, Rest) or isinstance(r, Rest):
            rest, other = (l, r) if isinstance(l, Rest) else (r, l)
            if isinstance(op, (ast.In, ast.NotIn)) and rest is l and \
                    isinstance(other, (bytes, tuple, list, set, frozenset)):
                c = Cond(_member_pattern(rest, other), ast.unparse(e)[:60])
                return c.negate() if isinstance(op, ast.NotIn) else c
            if isinstance(op, (ast.Eq, ast.NotEq)) and \
                    isinstance(other, bytes):
                c = Cond(_member_pattern(rest, (other,)),
                         ast.unparse(e)[:60])
                if rest.hi is not None and len(other) < rest.hi - rest.lo:
                    # equality with a shorter string: only at the end of data
                    c = Cond(_esc(other) or b'(?:)', ast.unparse(e)[:60])
                return c.negate() if isinstance(op, ast.NotEq) else c
            raise AnalysisError('encoder comparison outside the model: ' +
                                ast.unparse(e)[:60])
        if isinstance(l, RestByte) or isinstance(r, RestByte):
            raise AnalysisError(
                'encoder indexes DATA[i+k] without a bounds check: ' +
                ast.unparse(e)[:60])
        if isinstance(op, (ast.Is, ast.IsNot)):
            v = l is r if (l is None or r is None) else l == r
            return v if isinstance(op, ast.Is) else not v
        l = self.conc(l, 'comparison')
        r = self.conc(r, 'comparison')
        try:
            if isinstance(op, ast.Eq):
                return l == r
            if isinstance(op, ast.NotEq):
                return l != r
            if isinstance(op, ast.In):
                return l in r
            if isinstance(op, ast.NotIn):
                return l not in r
            if isinstance(op, ast.Lt):
                return l < r
            if isinstance(op, ast.LtE):
                return l <= r
            if isinstance(op, ast.Gt):
                return l > r
            if isinstance(op, ast.GtE):
                return l >= r
        except TypeError as ex:
            raise AnalysisError('encoder comparison: ' + str(ex))
        raise AnalysisError('encoder comparison outside the model')

    def binop(self, op, l, r, e):
        if isinstance(op, ast.Add):
            lp = self.pieces(l)
            rp = self.pieces(r)
            if lp is not None and rp is not None and (
                    isinstance(l, Joined) or isinstance(r, Joined)):
                return Joined(lp + rp)
            if isinstance(l, Acc) and isinstance(r, Acc):
                return Acc(l.pieces + r.pieces)
            if l is INDEX and isinstance(r, int):
                return ('idx', r)
            if isinstance(l, tuple) and l and l[0] == 'idx' and \
                    isinstance(r, int):
                return ('idx', l[1] + r)
        l = self.conc(l, 'arithmetic')
        r = self.conc(r, 'arithmetic')
        try:
            if isinstance(op, ast.Add):
                return l + r
            if isinstance(op, ast.Sub):
                return l - r
            if isinstance(op, ast.Mult):
                return l * r
            if isinstance(op, ast.Mod):
                return l % r
            if isinstance(op, ast.FloorDiv):
                return l // r
            if isinstance(op, ast.BitAnd):
                return l & r
            if isinstance(op, ast.BitOr):
                return l | r
            if isinstance(op, ast.RShift):
                return l >> r
            if isinstance(op, ast.LShift):
                return l << r
        except Exception as ex:
            raise AnalysisError('encoder arithmetic: ' + str(ex))
        raise AnalysisError('encoder operator outside the model: ' +
                            ast.unparse(e)[:60])

    def pieces(self, v):
        if isinstance(v, Joined):
            return v.pieces
        if isinstance(v, bytes):
            return [v]
        return None

    def offset(self, node, env):
        """index expression relative to i -> int offset, or None"""
        if node is None:
            return None
        v = self.ev(node, env)
        if v is INDEX:
            return 0
        if isinstance(v, tuple) and v and v[0] == 'idx':
            return v[1]
        raise AnalysisError('encoder index is not relative to the loop '
                            'position: ' + ast.unparse(node)[:40])

    def subscript(self, base, sl, env, e):
        if base is DATA:
            if isinstance(sl, ast.Slice):
                if sl.step is not None:
                    raise AnalysisError('encoder slice with step')
                lo = self.offset(sl.lower, env)
                hi = self.offset(sl.upper, env)
                if lo is None:
                    raise AnalysisError('encoder looks backwards: ' +
                                        ast.unparse(e)[:40])
                if lo == 0 and hi == 1:
                    return env.get('__cur_bytes__')
                if lo < 1:
                    raise AnalysisError('encoder slice includes the current '
                                        'byte: ' + ast.unparse(e)[:40])
                return Rest(lo, hi)
            k = self.offset(sl, env)
            if k == 0:
                return env.get('__cur_int__')
            if k is not None and k >= 1:
                return RestByte(k)
            raise AnalysisError('encoder looks backwards')
        if isinstance(sl, ast.Slice):
            base = self.conc(base, 'slice')
            lo = self.ev(sl.lower, env) if sl.lower is not None else None
            hi = self.ev(sl.upper, env) if sl.upper is not None else None
            return base[lo:hi]
        k = self.ev(sl, env)
        base = self.conc(base, 'subscript')
        try:
            return base[self.conc(k, 'subscript')]
        except (KeyError, IndexError, TypeError) as ex:
            raise AnalysisError('encoder lookup fails: {!r}'.format(ex))

    def call(self, e, env):
        fn = self.ev(e.func, env)
        args = [self.ev(a, env) for a in e.args]
        if e.keywords:
            raise AnalysisError('encoder call with keywords')
        if isinstance(fn, tuple) and fn and fn[0] == 'method':
            _m, base, name = fn
            if isinstance(base, Rest) and name == 'isdigit' and not args:
                return Cond(_digits_pattern(base), ast.unparse(e)[:60])
            if isinstance(base, Acc):
                if name == 'append' and len(args) == 1:
                    base.pieces.append(args[0])
                    return None
                if name == 'extend' and len(args) == 1 and \
                        isinstance(args[0], (Acc, tuple)):
                    base.pieces.extend(args[0].pieces if isinstance(
                        args[0], Acc) else list(args[0]))
                    return None
                raise AnalysisError('encoder list operation ' + name)
            if isinstance(base, bytes) and name == 'join' and \
                    len(args) == 1 and isinstance(args[0], Acc):
                if base != b'':
                    raise AnalysisError('encoder joins with a separator')
                return Joined(args[0].pieces)
            if isinstance(base, dict) and name == 'get':
                a = [self.conc(x, 'dict.get') for x in args]
                return base.get(*a)
            if isinstance(base, (bytes, str)) and name in _BYTES_METHODS:
                a = [self.conc(x, 'method argument') for x in args]
                try:
                    return getattr(base, name)(*a)
                except Exception as ex:
                    raise AnalysisError('encoder call fails: ' + str(ex))
            raise AnalysisError('encoder call outside the model: ' +
                                ast.unparse(e)[:60])
        if fn is enumerate and args and args[0] is DATA:
            return ('enumerate',)
        if callable(fn) and fn in _BUILTINS.values():
            a = [self.conc(x.pieces if isinstance(x, Acc) else x, 'call')
                 for x in args]
            try:
                return fn(*a)
            except Exception as ex:
                raise AnalysisError('encoder call fails: ' + str(ex))
        raise AnalysisError('encoder call outside the model: ' +
                            ast.unparse(e)[:60])

    # -- statements ------------------------------------------------------------
    def block(self, stmts, env):
        for st in stmts:
            self.stmt(st, env)

    def stmt(self, st, env):
        if isinstance(st, ast.Expr):
            if isinstance(st.value, ast.Constant):
                return
            self.ev(st.value, env)
        elif isinstance(st, ast.Assign) and len(st.targets) == 1:
            t = st.targets[0]
            v = self.ev(st.value, env)
            if isinstance(t, ast.Name):
                env[t.id] = v
            else:
                raise AnalysisError('encoder assigns to ' +
                                    ast.unparse(t)[:40])
        elif isinstance(st, ast.AugAssign) and isinstance(st.op, ast.Add) \
                and isinstance(st.target, ast.Name):
            cur = env.get(st.target.id)
            v = self.ev(st.value, env)
            if isinstance(cur, Acc) and isinstance(v, Acc):
                cur.pieces.extend(v.pieces)
            elif isinstance(cur, Joined) and self.pieces(v) is not None:
                cur.pieces.extend(self.pieces(v))
            elif isinstance(cur, bytes) and isinstance(v, bytes) and \
                    env.get('__in_loop__'):
                env[st.target.id] = cur + v
            elif isinstance(cur, bytes) and self.pieces(v) is not None:
                env[st.target.id] = Joined([cur] + self.pieces(v))
            else:
                raise AnalysisError('encoder augmented assignment: ' +
                                    ast.unparse(st)[:60])
        elif isinstance(st, ast.If):
            if self.truth(self.ev(st.test, env)):
                self.block(st.body, env)
            else:
                self.block(st.orelse, env)
        elif isinstance(st, ast.Return):
            raise _Return(self.ev(st.value, env) if st.value else None)
        elif isinstance(st, ast.Continue):
            raise _ContinueLoop()
        elif isinstance(st, ast.Pass):
            pass
        elif isinstance(st, ast.For):
            self.loop(st, env)
        else:
            raise AnalysisError('encoder statement outside the model: ' +
                                ast.unparse(st)[:60])

    def loop(self, st, env):
        if self.enc.cases:
            raise AnalysisError('encoder has more than one loop')
        it = st.iter
        tgt = st.target
        form = None
        start = 0
        if isinstance(it, ast.Call) and isinstance(it.func, ast.Name) and \
                it.func.id == 'enumerate' and len(it.args) in (1, 2) and \
                self.ev(it.args[0], env) is DATA and \
                isinstance(tgt, ast.Tuple) and len(tgt.elts) == 2 and \
                all(isinstance(x, ast.Name) for x in tgt.elts):
            if len(it.args) == 2:
                start = self.ev(it.args[1], env)
                if not isinstance(start, int) or isinstance(start, bool):
                    raise AnalysisError('enumerate start is not a constant')
            for k in it.keywords:
                raise AnalysisError('enumerate with keywords')
            form = ('enum', tgt.elts[0].id, tgt.elts[1].id)
        elif isinstance(tgt, ast.Name) and not isinstance(it, ast.Call) and \
                self.ev(it, env) is DATA:
            form = ('plain', None, tgt.id)
        elif isinstance(it, ast.Call) and isinstance(it.func, ast.Name) and \
                it.func.id == 'range' and len(it.args) == 1 and \
                isinstance(it.args[0], ast.Call) and \
                isinstance(it.args[0].func, ast.Name) and \
                it.args[0].func.id == 'len' and \
                self.ev(it.args[0].args[0], env) is DATA and \
                isinstance(tgt, ast.Name):
            form = ('range', tgt.id, None)
        if form is None:
            raise AnalysisError('encoder loop header outside the model: ' +
                                ast.unparse(st)[:60].split('\n')[0])
        if st.orelse:
            raise AnalysisError('encoder loop has an else clause')
        # accumulators: lists / byte strings defined before the loop and
        # extended in the body
        accs = {k: v for k, v in env.items() if isinstance(v, (Acc, Joined))}
        bytes_accs = {k: v for k, v in env.items() if isinstance(v, bytes)
                      and any(isinstance(n, ast.AugAssign) and
                              isinstance(n.target, ast.Name) and
                              n.target.id == k for s in st.body
                              for n in ast.walk(s))}
        carried = set(accs) | set(bytes_accs)
        for c in range(256):
            def one(c=c):
                e2 = {k: v for k, v in env.items() if k not in carried}
                marks = {}
                for k, v in accs.items():
                    e2[k] = type(v)([])
                    marks[k] = e2[k]
                for k in bytes_accs:
                    e2[k] = b''
                e2['__in_loop__'] = True
                e2['__cur_int__'] = c
                e2['__cur_bytes__'] = bytes([c])
                if form[1]:
                    e2[form[1]] = INDEX if start == 0 else ('idx', start)
                if form[2]:
                    e2[form[2]] = c
                try:
                    self.block(st.body, e2)
                except _ContinueLoop:
                    pass
                out = {}
                for k, m in marks.items():
                    if e2.get(k) is not m:
                        raise AnalysisError('encoder re-binds ' + k)
                    out[k] = m.pieces
                for k in bytes_accs:
                    out[k] = [e2[k]]
                # loop-carried plain variables are outside the model
                for k, v in e2.items():
                    if k.startswith('__') or k in carried or \
                            k in (form[1], form[2]):
                        continue
                    if k in env and env[k] is not v and env[k] != v:
                        raise AnalysisError(
                            'encoder carries {} from one byte to the '
                            'next'.format(k))
                return out
            res = self.all_paths(one)
            nonempty = [k for k in carried
                        if any(r[k] for (_c, r) in res)]
            if len(nonempty) > 1:
                raise AnalysisError('encoder fills several accumulators')
            k = nonempty[0] if nonempty else None
            cases = []
            for (conds, r) in res:
                text = b''
                for p in (r[k] if k else []):
                    if not isinstance(p, bytes):
                        raise AnalysisError('encoder emits a non-bytes piece')
                    text += p
                cases.append((conds, text))
                for cd in conds:
                    if cd.pattern not in [x.pattern for x in self.enc.conds]:
                        self.enc.conds.append(cd)
            self.enc.cases[c] = cases
            self.acc_name = k or getattr(self, 'acc_name', None)
        k = getattr(self, 'acc_name', None)
        if k is None:
            raise AnalysisError('encoder loop emits nothing')
        cur = env[k]
        if isinstance(cur, bytes):
            env[k] = Joined([cur, LOOP])
        else:
            cur.pieces.append(LOOP)

    def run(self):
        env = {'self._data': DATA, 'self._quote': self.quote,
               'self._multiline_quote': None, 'self': _Sym('self')}
        try:
            self.block(self.f.node.body, env)
        except _Return as r:
            v = r.value
            if isinstance(v, bytes):
                v = Joined([v])
            if not isinstance(v, Joined):
                raise AnalysisError('encoder returns something other than '
                                    'the joined pieces')
            flat = []
            for p in v.pieces:
                if isinstance(p, Joined):
                    flat.extend(p.pieces)
                else:
                    flat.append(p)
            if flat.count(LOOP) != 1:
                raise AnalysisError('encoder result does not contain the '
                                    'loop output exactly once')
            i = flat.index(LOOP)
            if not all(isinstance(p, bytes) for p in flat[:i] + flat[i + 1:]):
                raise AnalysisError('encoder wraps the text in non-bytes')
            self.enc.prefix = b''.join(flat[:i])
            self.enc.suffix = b''.join(flat[i + 1:])
            return self.enc
        raise AnalysisError('encoder does not return')


def extract(ctx, f, quote):
    """-> Encoder for TokString.code with the given quote character."""
    return _Interp(ctx, f, quote).run()
