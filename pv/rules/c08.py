"""C08 -- the parser consumes every valid program entirely and builds the
tree it denotes.

Rules: R-C08-eof, R-C08-nodes, R-C08-alternatives, R-C08-fence,
R-C08-inventory (operator / statement-keyword inventories).
"""
import ast

from ..core import AnalysisError

from ..cfg import cfg_of
from ..consteval import UNKNOWN, Instance
from ..refs import grammar as refg
from ..srcmodel import walk_own, const_str
from .common import assignments_to, unparse

EXPLANATION = (
    'R-C08-eof: every normal return of Parser.process_tokens must be '
    'dominated by a raising test that the cursor reached len(tokens). '
    'R-C08-nodes: every construction of an AST node class (schema evaluated '
    'from _ast_node_types) passes exactly as many positional arguments as '
    'the schema has fields, start= a local saved from the cursor and '
    'end=self._pos. R-C08-alternatives: between an attempt that may have '
    'consumed tokens and the next alternative the cursor is restored to its '
    'saved value on every CFG path (statement alternatives, for-forms, '
    'if-forms, table fields). R-C08-fence: the short-if fence _max_pos is set '
    'only inside a try whose finally restores the value saved before the try '
    '(the guarded region re-enters the setter through nested short-ifs), and '
    '_accept compares the cursor with it before consuming. R-C08-inventory: '
    'the binary/unary operator tables, the assignment operators accepted in '
    'statements and the statement keywords equal the reference dialect '
    'grammar\'s sets; every Stat* node type of the schema is constructed.')

ASSUMPTIONS = [
    'refs/grammar.py is the grammar of the supported dialect',
    'tree shape for concrete programs (operand order, nesting) is not '
    'decided beyond inventory, arity, extents, cursor discipline and fence',
]

P = 'pico8.lua.parser'


def _self_attr(e, attr):
    return (isinstance(e, ast.Attribute) and isinstance(e.value, ast.Name)
            and e.value.id == 'self' and e.attr == attr)


def rule_eof(ctx, res):
    model = ctx.model
    q = P + ':Parser.process_tokens'
    f = model.func(q)
    cfg = cfg_of(f)
    guard = None
    for n in cfg.nodes:
        if n.kind != 'test':
            continue
        t = ast.unparse(n.ast)
        if '_pos' in t and 'len(' in t and '_tokens' in t:
            for fail in ('true', 'false'):
                reach = cfg.reachable_from(cfg.succ_by_label(n, fail),
                                           avoid={n})
                if cfg.raise_exit in reach and cfg.exit not in reach and \
                        cfg.dominates(n, cfg.exit):
                    guard = n
    if guard is not None:
        res.holds('R-C08-eof', q, 'end-of-input test',
                  'a raising cursor == len(tokens) test dominates the '
                  'normal return', f.module.loc(guard.ast))
    else:
        res.violation(
            'R-C08-eof', q, 'no-eof-test',
            'process_tokens returns normally without checking that the '
            'cursor reached the end of the token list: a program the parser '
            'only understands a prefix of (e.g. `a |= 1`, `?x,y`) is '
            'accepted with a truncated tree', f.loc)


def _schema(ctx):
    types = ctx.consts.module_const(P, '_ast_node_types')
    if types is UNKNOWN:
        return None
    return {name: list(flds) for (name, flds) in types}


def rule_nodes(ctx, res):
    model = ctx.model
    schema = _schema(ctx)
    if schema is None:
        res.undecided('R-C08-nodes', P + ':_ast_node_types', 'schema',
                      'does not evaluate')
        return
    res.tables['_ast_node_types'] = len(schema)
    cls = model.cls(P + ':Parser')
    n = 0
    built = set()
    for m in cls.methods.values():
        for c in walk_own(m.node):
            if not (isinstance(c, ast.Call) and isinstance(c.func, ast.Name)
                    and c.func.id in schema):
                continue
            n += 1
            typ = c.func.id
            built.add(typ)
            loc = m.module.loc(c)
            inst = '{} in {}'.format(typ, m.name)
            ar = len(c.args) == len(schema[typ]) and not any(
                isinstance(a, ast.Starred) for a in c.args)
            kw = {k.arg: k.value for k in c.keywords}
            st = kw.get('start')
            en = kw.get('end')
            st_ok = isinstance(st, ast.Name) and bool(
                assignments_to(m.node, st.id)) and all(
                    v is not None and _self_attr(v, '_pos')
                    for (_s, v) in assignments_to(m.node, st.id))
            en_ok = en is not None and _self_attr(en, '_pos')
            if ar and st_ok and en_ok:
                res.holds('R-C08-nodes', m.qual, inst,
                          '{} fields, start=saved cursor, end=cursor'.format(
                              len(schema[typ])), loc, nontrivial=True)
            else:
                res.violation(
                    'R-C08-nodes', m.qual, inst,
                    'node construction: arity-matches-schema={} '
                    'start-is-saved-cursor={} end-is-cursor={} ({})'.format(
                        ar, st_ok, en_ok, unparse(c, 70)), loc)
    res.stats['node_constructions'] = n
    res.require_min('R-C08-nodes', 40)
    return schema, built


ALTERNATIVES = [
    # (method, from-call attr, to-call attr, description)
    ('_stat', '_varlist', '_functioncall',
     'assignment attempt -> function-call attempt'),
    ('_stat', '_functioncall', '_accept',
     'function-call attempt -> keyword statements'),
    ('_field', '_accept', '_exp', 'named-key attempt -> expression field'),
]


def rule_alternatives(ctx, res):
    model = ctx.model
    cls = model.cls(P + ':Parser')
    for (mname, frm, to, desc) in ALTERNATIVES:
        m = cls.methods.get(mname)
        if m is None:
            res.vanished('R-C08-alternatives', P + ':Parser.' + mname, desc,
                         'method missing')
            continue
        cfg = cfg_of(m)
        saved = {t.id for n in walk_own(m.node) if isinstance(n, ast.Assign)
                 and _self_attr(n.value, '_pos')
                 for t in n.targets if isinstance(t, ast.Name)}
        resets = [n for n in cfg.nodes if isinstance(n.ast, ast.Assign) and
                  any(_self_attr(t, '_pos') for t in n.ast.targets) and
                  isinstance(n.ast.value, ast.Name) and
                  n.ast.value.id in saved]

        def call_nodes(attr, first_only=False, after=None):
            out = []
            for n in cfg.nodes:
                if n.ast is None or n.kind in ('except', 'handler'):
                    continue
                part = n.ast if n.kind not in ('iter', 'with') else None
                if part is None:
                    continue
                for c in walk_own(part):
                    if isinstance(c, ast.Call) and \
                            isinstance(c.func, ast.Attribute) and \
                            c.func.attr == attr and \
                            isinstance(c.func.value, ast.Name) and \
                            c.func.value.id == 'self':
                        out.append(n)
            return out
        A = call_nodes(frm)
        B = call_nodes(to)
        if mname == '_stat' and frm == '_functioncall':
            # first keyword accept after the function-call attempt
            reach = cfg.reachable_from(A)
            B = [b for b in B if b in reach][:1] if A else []
            # earliest in source order
            Bs = sorted([b for b in call_nodes(to) if b in reach],
                        key=lambda n: n.lineno)
            B = Bs[:1]
        if mname == '_field':
            A = [a for a in A if 'TokName' in ast.unparse(a.ast)]
        if not A or not B:
            res.vanished('R-C08-alternatives', m.qual, desc,
                         'attempt calls not found')
            continue
        ok = True
        bad_path = None
        for a in A[:1]:
            # failure continuation of the attempt: if its result is tested by
            # the directly following `if`, the paths on which that test fails
            # (the success branch returns and is not an alternative)
            starts = [x for (x, l) in a.succ if l != 'exc']
            res_names = {t.id for t in getattr(a.ast, 'targets', [])
                         if isinstance(t, ast.Name)}
            for (x, l) in a.succ:
                if x.kind == 'test' and res_names and res_names & {
                        y.id for y in walk_own(x.ast)
                        if isinstance(y, ast.Name)}:
                    tr = cfg.reachable_from(cfg.succ_by_label(x, 'true'),
                                            avoid={x})
                    if cfg.exit in tr and not any(
                            m in tr for m in cfg.succ_by_label(x, 'false')):
                        starts = cfg.succ_by_label(x, 'false')
            for b in B:
                if b is a:
                    continue
                # a path a -> b that avoids every reset and every return
                reach = cfg.reachable_from(starts, avoid=set(resets))
                if b in reach:
                    ok = False
                    bad_path = cfg.find_path(a, b, avoid=set(resets))
        res.check(ok, 'R-C08-alternatives', m.qual, desc,
                  'cursor restored on every path between the attempts',
                  'a path from the failed attempt to the next alternative '
                  'does not restore the cursor: {}'.format(
                      cfg.fmt_path(bad_path or [])), m.loc)
    # local alternatives with their own saved position: for-forms, if-forms
    m = cls.methods.get('_stat')
    if m is not None:
        src = ast.unparse(m.node)
        for var, desc in (('for_pos', 'numeric-for attempt -> generic for'),
                          ('then_pos', 'short-if probe -> long if')):
            asg = [n for n in walk_own(m.node) if isinstance(n, ast.Assign)
                   and isinstance(n.targets[0], ast.Name)
                   and n.targets[0].id == var
                   and _self_attr(n.value, '_pos')]
            rst = [n for n in walk_own(m.node) if isinstance(n, ast.Assign)
                   and any(_self_attr(t, '_pos') for t in n.targets)
                   and isinstance(n.value, ast.Name) and n.value.id == var]
            if not asg:
                res.info('R-C08-alternatives', m.qual, desc,
                         'no saved position named ' + var)
                continue
            res.check(len(rst) >= 1, 'R-C08-alternatives', m.qual, desc,
                      'cursor restored from ' + var,
                      'the saved position {} is never restored'.format(var),
                      m.loc)
        # the final fall-through returns None with the cursor restored
        cfg = cfg_of(m)
        rets = [n for n in cfg.nodes if isinstance(n.ast, ast.Return) and
                isinstance(n.ast.value, ast.Constant) and
                n.ast.value.value is None]
        saved = {t.id for n in walk_own(m.node) if isinstance(n, ast.Assign)
                 and _self_attr(n.value, '_pos')
                 for t in n.targets if isinstance(t, ast.Name)}
        ok = bool(rets)
        for r in rets:
            preds = [p for (p, _l) in r.pred]
            ok = ok and all(isinstance(p.ast, ast.Assign) and any(
                _self_attr(t, '_pos') for t in p.ast.targets) and
                isinstance(p.ast.value, ast.Name) and
                p.ast.value.id in saved for p in preds)
        res.check(ok, 'R-C08-alternatives', m.qual,
                  '`return None` with the cursor restored', '',
                  'statement parser gives up without restoring the cursor',
                  m.loc)
    res.require_min('R-C08-alternatives', 4)


def rule_fence(ctx, res):
    model = ctx.model
    stores = []
    for f in model.functions.values():
        for n in model.own_nodes(f.node):
            if isinstance(n, ast.Assign) and any(
                    _self_attr(t, '_max_pos') for t in n.targets):
                stores.append((f, n))
    setters = [(f, n) for (f, n) in stores if f.name != '__init__']
    if not setters:
        res.vanished('R-C08-fence', P + ':Parser._stat', 'fence',
                     'no store to _max_pos outside __init__')
        return
    for (f, n) in setters:
        # find enclosing try and whether n is in body or finalbody
        p = getattr(n, '_parent', None)
        where = None
        tr = None
        child = n
        while p is not None and p is not f.node:
            if isinstance(p, ast.Try):
                tr = p
                where = 'final' if child in p.finalbody else (
                    'body' if child in p.body else 'other')
                break
            child = p
            p = getattr(p, '_parent', None)
        loc = f.module.loc(n)
        if tr is None:
            # the store may sit immediately before the try it belongs to (a
            # plain assignment cannot raise)
            blk = getattr(getattr(n, '_parent', None), 'body', None)
            for fld in ('body', 'orelse', 'finalbody'):
                b_ = getattr(getattr(n, '_parent', None), fld, None)
                if isinstance(b_, list) and n in b_:
                    blk = b_
            if isinstance(blk, list) and n in blk:
                i_ = blk.index(n)
                if i_ + 1 < len(blk) and isinstance(blk[i_ + 1], ast.Try) \
                        and blk[i_ + 1].finalbody:
                    tr = blk[i_ + 1]
                    where = 'body'
        if tr is None:
            res.violation('R-C08-fence', f.qual, 'fence store in try/finally',
                          'the fence is set outside a try/finally: an error '
                          'in the body leaves it armed', loc)
            continue
        if where == 'body':
            fin = [s for s in tr.finalbody if isinstance(s, ast.Assign) and
                   any(_self_attr(t, '_max_pos') for t in s.targets)]
            if not fin:
                res.violation('R-C08-fence', f.qual,
                              'finally restores the fence',
                              'no restoring store in the finally block', loc)
                continue
            v = fin[0].value
            saved_ok = False
            if isinstance(v, ast.Name):
                asg = assignments_to(f.node, v.id)
                saved_ok = bool(asg) and all(
                    val is not None and _self_attr(val, '_max_pos')
                    for (_s, val) in asg)
                # the save happens before the try
                if saved_ok:
                    cfg = cfg_of(f)
                    try_nodes = cfg.nodes_of(n)
                    for (s, _val) in asg:
                        for sn in cfg.nodes_of(s):
                            if not all(cfg.dominates(sn, tn)
                                       for tn in try_nodes):
                                saved_ok = False
            res.check(saved_ok, 'R-C08-fence', f.qual,
                      'finally restores the saved fence',
                      'save before the try, restore in finally: a nested '
                      'short-if leaves the outer fence in place',
                      'the finally block resets the fence to {} instead of '
                      'the value saved before the try: an inner short-if '
                      'clears the outer one\'s fence and the statements of '
                      'the following line join the outer body'.format(
                          unparse(v)), f.module.loc(fin[0]))
    # _accept honours the fence
    a = model.func(P + ':Parser._accept')
    from ..absint.symbody import SymBody

    def fence_fact(t, v):
        """does (t is v) establish: no fence, or cursor below the fence?"""
        txt = ast.unparse(t)
        if '_max_pos' not in txt or not isinstance(t, ast.Compare) or \
                len(t.ops) != 1:
            return False
        op, l, r = t.ops[0], ast.unparse(t.left), ast.unparse(
            t.comparators[0])
        if r == 'None' and '_max_pos' in l:
            return (isinstance(op, (ast.Is, ast.Eq)) and v) or \
                (isinstance(op, (ast.IsNot, ast.NotEq)) and not v)
        if '_max_pos' in r and '_pos' in l and '_max_pos' not in l:
            return (isinstance(op, ast.Lt) and v) or \
                (isinstance(op, ast.GtE) and not v)
        if '_max_pos' in l and '_pos' in r and '_max_pos' not in r:
            return (isinstance(op, ast.Gt) and v) or \
                (isinstance(op, ast.LtE) and not v)
        return False
    paths = SymBody(ctx, a).run(a.node.body)
    consuming = [p for p in paths if p.end == 'return' and p.ret is not None
                 and not (isinstance(p.ret, ast.Constant) and
                          p.ret.value is None)]
    if not consuming:
        res.undecided('R-C08-fence', a.qual,
                      '_accept consumes only below the fence',
                      'no path of _accept returns a token', a.loc)
    else:
        bad = [p for p in consuming
               if not any(fence_fact(t, v) for (t, v) in p.conds)]
        res.check(not bad, 'R-C08-fence', a.qual,
                  '_accept consumes only below the fence',
                  'every one of the {} paths that return a token passes '
                  '`_max_pos is None` or `_pos < _max_pos`'.format(
                      len(consuming)),
                  'a token is returned on a path that never compares the '
                  'cursor with the fence ({})'.format(
                      bad[0].cond_text()[-120:] if bad else ''), a.loc)
    # the fence is the end of the line: scan stops at TokNewline
    s = model.func(P + ':Parser._stat')
    ok, why = _fence_is_line_end(ctx, s)
    if ok is None:
        helper = _fence_helper_evaluated(ctx, res, s)
        if helper is None:
            res.undecided('R-C08-fence', s.qual,
                          'fence = index of the next newline token', why,
                          s.loc)
    else:
        res.check(ok, 'R-C08-fence', s.qual,
                  'fence = index of the next newline token',
                  'scan from the end of the condition to the first '
                  'TokNewline (or the end of input)',
                  'fence position is no longer the next TokNewline: ' + why,
                  s.loc)
    res.require_min('R-C08-fence', 3)


def _fence_helper_evaluated(ctx, res, s):
    """The fence is computed by a parser method `self.<m>(<position>)`: the
    method is evaluated (absint/cx.py) on a parser object with a listed token
    line structure, for positions asked in an order that also goes BACK --
    the parser backtracks (`self._pos = <saved>`), so the same object is
    asked about an earlier line after a later one.  Each answer must be the
    index of the first line-end token at or behind the position (the number
    of tokens when there is none).  A wrong answer is a violation only when
    nothing else could have invalidated the method's remembered state in
    between: every attribute it reads besides `_tokens` is stored by the
    method itself, `__init__` and `process_tokens` only; otherwise, and
    when the evaluation cannot follow it, the verdict stays "cannot follow".
    -> True (a verdict was recorded) / None"""
    from ..absint import cx as CX
    model = ctx.model
    cls = model.cls(P + ':Parser')
    calls = []
    for n in walk_own(s.node):
        if isinstance(n, ast.Assign) and len(n.targets) == 1 and \
                ast.unparse(n.targets[0]) == 'self._max_pos' and \
                isinstance(n.value, ast.Call) and \
                isinstance(n.value.func, ast.Attribute) and \
                isinstance(n.value.func.value, ast.Name) and \
                n.value.func.value.id == 'self' and \
                len(n.value.args) == 1 and not n.value.keywords:
            calls.append(n.value.func.attr)
    if not calls:
        # the normaliser may have spliced the method into _stat: a Parser
        # method the pinned tree does not have, taking one position, that
        # looks for line-end tokens
        from .. import normalise
        base = normalise.load_baseline()['functions']
        for g in cls.methods.values():
            if g.qual in base or len(g.params()) != 2:
                continue
            src_ = ast.unparse(g.node)
            if 'TokNewline' in src_ and '_tokens' in src_:
                calls.append(g.name)
    if len(set(calls)) != 1:
        return None
    m = model.lookup_method(cls, calls[0])
    if m is None:
        return None
    inst = 'fence = index of the next newline token (method {} evaluated ' \
        'with positions asked out of order)'.format(m.name)
    # state the method keeps, and who else stores it
    reads = {n.attr for n in walk_own(m.node)
             if isinstance(n, ast.Attribute) and isinstance(n.value, ast.Name)
             and n.value.id == 'self' and isinstance(n.ctx, ast.Load)} - \
        {'_tokens'}
    reads = {a for a in reads if model.lookup_method(cls, a) is None}
    foreign = []
    # read off the source as written (the normaliser may have spliced the
    # method's own stores into its caller)
    try:
        with open(cls.module.path, 'rb') as fh:
            raw = ast.parse(fh.read())
    except (OSError, SyntaxError) as e:
        raise AnalysisError('source of the parser not readable: ' + str(e))
    for c_ in ast.walk(raw):
        if not (isinstance(c_, ast.ClassDef) and c_.name == 'Parser'):
            continue
        for g in c_.body:
            if not isinstance(g, ast.FunctionDef) or g.name in (
                    m.name, '__init__', 'process_tokens'):
                continue
            for n in ast.walk(g):
                if isinstance(n, ast.Attribute) and isinstance(
                        n.value, ast.Name) and n.value.id == 'self' and \
                        isinstance(n.ctx, ast.Store) and n.attr in reads:
                    foreign.append('{} in {}'.format(n.attr, g.name))
    LEX = 'pico8.lua.lexer:'
    # N = line end, C = a block comment inside a line, S = a space: only a
    # line end ends the line of a short-if
    layout = 'a C b N c S d C N e'.split()
    try:
        cxi = CX.Cx(model, ctx.consts)
        chunk = CX.Opaque('chunk', {
            'store_token_groups': lambda c, a, k: None})
        cxi.hooks = {P + ':Parser._chunk':
                     lambda c, a, k, bound=None: chunk}
        order = [4, 0, 5, 2, 7, 1, 3, 6, 0, 9, 8]

        def go():
            kinds = {'N': ('TokNewline', b'\n'), 'S': ('TokSpace', b' '),
                     'C': ('TokComment', b'--[[c]]')}
            toks = [cxi.call(CX.ClassVal(model.cls(
                LEX + kinds.get(x, ('TokName', None))[0])),
                [kinds[x][1] if x in kinds else x.encode()], {})
                for x in layout]
            pr = cxi.call(CX.ClassVal(cls), [], {'version': 8})
            cxi.call(cxi.getattr(pr, 'process_tokens'), [toks], {})
            fn = cxi.getattr(pr, m.name)
            return [cxi.call(fn, [p_], {}) for p_ in order]
        paths = cxi.explore(go)
        if len(paths) != 1 or paths[0][0] or paths[0][1][0] != 'ok':
            raise CX.CxError('the method forks or raises on the listed '
                             'token line')
        got = paths[0][1][1]
    except AnalysisError as e:
        res.undecided('R-C08-fence', s.qual, inst,
                      'evaluation could not follow {}: {}'.format(
                          m.name, str(e)[:100]), m.loc)
        return True
    nl = [i for i, x in enumerate(layout) if x == 'N']
    want = [min([i for i in nl if i >= p_] or [len(layout)]) for p_ in order]
    bad = [(p_, g, w) for p_, g, w in zip(order, got, want) if g != w]
    if not bad:
        res.holds('R-C08-fence', s.qual, inst,
                  '{} requests on one parser object over a token line with '
                  'line ends at {}: every answer is the next line end'.format(
                      len(order), nl), m.loc)
        return True
    p_, g, w = bad[0]
    msg = 'asked for position {} after positions {}, {} answers {} but the ' \
        'line of token {} ends at {}: a short-if there (parsed again ' \
        'after backtracking, when earlier requests are listed) ends at ' \
        'the wrong token'.format(
            p_, order[:order.index(p_)] if order.index(p_) else 'none',
            m.name, g, p_, w)
    if foreign:
        res.undecided('R-C08-fence', s.qual, inst,
                      msg + ' -- unless the remembered state is reset in '
                      'between: ' + ', '.join(foreign[:3]), m.loc)
    else:
        res.violation('R-C08-fence', s.qual, inst, msg, m.loc,
                      semantic=True)
    return True


def _fence_is_line_end(ctx, s):
    """the value stored as the fence comes out of a scan
         while v < len(tokens): if tokens[v] is a TokNewline: break; v += 1
    -> (True / False / None = not recognised, reason)"""
    from ..absint.symbody import SymBody
    u = ast.unparse
    sym = SymBody(ctx, s, max_paths=3000, inline_depth=0)
    try:
        paths = sym.run(s.node.body)
    except AnalysisError as e:
        return None, str(e)
    found = None
    for p in paths:
        last_loop = None
        for e in p.events:
            if e[0] == 'loop':
                last_loop = e
            elif e[0] == 'set' and e[1] == 'self._max_pos' and \
                    isinstance(e[2], ast.Name) and '$' in e[2].id and \
                    last_loop is not None:
                found = (e[2].id.split('$')[0], last_loop)
    if found is None:
        return None, 'no fence value produced by a scan loop'
    v, (_k, lp, env0) = found
    if not isinstance(lp, ast.While):
        return None, 'the scan is not a while loop'
    env = {k: x for k, x in env0.items() if k != v}
    t = u(sym.S(lp.test, env))
    bound = '{} < len(self._tokens)'.format(v)
    nls = ('isinstance(self._tokens[{}], lexer.TokNewline)'.format(v),
           'self._tokens[{}].matches(lexer.TokNewline)'.format(v))
    if t in tuple('{} and (not {})'.format(bound, x) for x in nls) + tuple(
            '{} and not {}'.format(bound, x) for x in nls):
        # the newline test is part of the loop condition
        body = sym.run(lp.body, env)
        if len(body) == 1 and not body[0].conds and body[0].end == 'fall' \
                and u(body[0].env.get(v)) == v + ' + 1':
            return True, ''
        return False, 'the scan step is not {} += 1'.format(v)
    if t != bound:
        return False, 'the scan runs while ' + t
    steps = {}
    for q in sym.run(lp.body, env):
        nl = None
        for (c, val) in q.conds:
            while isinstance(c, ast.UnaryOp) and isinstance(c.op, ast.Not):
                c, val = c.operand, not val
            cc = u(c)
            if cc in ('isinstance(self._tokens[{}], lexer.TokNewline)'.format(
                    v), 'self._tokens[{}].matches(lexer.TokNewline)'.format(
                        v)):
                nl = val
            else:
                return None, 'scan condition ' + cc[:60]
        steps[nl] = (q.end, u(q.env[v]) if v in q.env else v)
    if steps.get(True, (None,))[0] != 'break' or \
            steps.get(True)[1] != v:
        return False, 'at a newline token the scan does {}'.format(
            steps.get(True))
    if steps.get(False) != ('fall', v + ' + 1'):
        return False, 'at other tokens the scan does {}'.format(
            steps.get(False))
    return True, ''


def _tok_insts(v):
    out = set()
    for x in v:
        if isinstance(x, Instance) and x.args and isinstance(x.args[0], bytes):
            out.add((x.cls.name, x.args[0]))
    return out


def rule_inventory(ctx, res, schema, built):
    model, ev = ctx.model, ctx.consts
    bin_ = ev.module_const(P, 'BINOP_PATS')
    un = ev.module_const(P, 'UNOP_PATS')
    if bin_ is UNKNOWN or un is UNKNOWN:
        res.undecided('R-C08-inventory', P + ':BINOP_PATS', 'tables',
                      'operator tables do not evaluate')
        return
    got_b = _tok_insts(bin_)
    want_b = {('TokKeyword' if o in refg.KEYWORD_OPERATORS else 'TokSymbol', o)
              for o in refg.BINOPS}
    res.tables['BINOP_PATS'] = len(bin_)
    res.check(got_b == want_b, 'R-C08-inventory', P + ':BINOP_PATS',
              'binary operators == reference',
              '{} operators'.format(len(got_b)),
              'missing {} / extra {}'.format(
                  sorted(o for (_c, o) in want_b - got_b),
                  sorted(o for (_c, o) in got_b - want_b)))
    got_u = _tok_insts(un)
    want_u = {('TokKeyword' if o in refg.KEYWORD_OPERATORS else 'TokSymbol', o)
              for o in refg.UNOPS}
    res.tables['UNOP_PATS'] = len(un)
    res.check(got_u == want_u, 'R-C08-inventory', P + ':UNOP_PATS',
              'unary operators == reference',
              '{} operators'.format(len(got_u)),
              'missing {} / extra {}'.format(
                  sorted(o for (_c, o) in want_u - got_u),
                  sorted(o for (_c, o) in got_u - want_u)))
    # a longer operator must not be shadowed by its prefix in BINOP_PATS:
    # not needed -- tokens are matched whole (TokSymbol equality).
    st = model.func(P + ':Parser._stat')
    assign_ops = set()
    kw_accepts = set()
    for c in walk_own(st.node):
        if isinstance(c, ast.Call) and isinstance(c.func, ast.Attribute) and \
                c.func.attr in ('_accept', '_expect') and c.args and \
                isinstance(c.args[0], ast.Call) and c.args[0].args:
            cls = ast.unparse(c.args[0].func)
            v = const_str(c.args[0].args[0])
            if cls.endswith('TokKeyword'):
                kw_accepts.add(v)
    for n in walk_own(st.node):
        if isinstance(n, ast.Assign) and isinstance(n.value, ast.BoolOp) and \
                isinstance(n.value.op, ast.Or):
            vals = set()
            for v in n.value.values:
                if isinstance(v, ast.Call) and v.args and \
                        isinstance(v.args[0], ast.Call) and \
                        v.args[0].args:
                    vals.add(const_str(v.args[0].args[0]))
            if b'=' in vals:
                assign_ops = vals
    if not assign_ops:
        # table-driven form: for pat in <constant table>: self._accept(pat)
        from .. import norm
        for n in walk_own(st.node):
            if isinstance(n, ast.For) and isinstance(n.target, ast.Name) and \
                    any(isinstance(c, ast.Call) and
                        isinstance(c.func, ast.Attribute) and
                        c.func.attr == '_accept' and c.args and
                        isinstance(c.args[0], ast.Name) and
                        c.args[0].id == n.target.id for c in walk_own(n)):
                tab = norm.fold(ctx, st, n.iter)
                try:
                    vals = {o for (_c, o) in _tok_insts(tab)}
                except Exception:
                    vals = set()
                if b'=' in vals:
                    assign_ops = vals
    res.check(assign_ops == set(refg.ASSIGNOPS), 'R-C08-inventory', st.qual,
              'assignment operators == reference',
              '{}'.format(sorted(assign_ops)),
              'missing {} / extra {}'.format(
                  sorted(set(refg.ASSIGNOPS) - assign_ops),
                  sorted(assign_ops - set(refg.ASSIGNOPS))), st.loc)
    ls = model.func(P + ':Parser._laststat')
    for c in walk_own(ls.node):
        if isinstance(c, ast.Call) and isinstance(c.func, ast.Attribute) and \
                c.func.attr in ('_accept', '_expect') and c.args and \
                isinstance(c.args[0], ast.Call) and c.args[0].args and \
                ast.unparse(c.args[0].func).endswith('TokKeyword'):
            kw_accepts.add(const_str(c.args[0].args[0]))
    want_kw = set(refg.STATEMENT_KEYWORDS)
    res.check(want_kw <= kw_accepts, 'R-C08-inventory', st.qual,
              'every statement keyword of the dialect is accepted',
              '{}'.format(sorted(k.decode() for k in want_kw)),
              'statement keywords never accepted: {}'.format(
                  sorted(want_kw - kw_accepts)), st.loc)
    stat_types = {t for t in schema if t.startswith('Stat')}
    res.check(stat_types <= built, 'R-C08-inventory', P + ':Parser',
              'every Stat* node type is constructed',
              '{} statement types'.format(len(stat_types)),
              'node types never built: {}'.format(
                  sorted(stat_types - built)))
    other = set(schema) - built
    res.check(not other, 'R-C08-inventory', P + ':Parser',
              'every node type of the schema is constructed',
              '{} types'.format(len(schema)),
              'node types never built: {}'.format(sorted(other)))


def run(ctx, res):
    rule_eof(ctx, res)
    r = rule_nodes(ctx, res)
    rule_alternatives(ctx, res)
    rule_fence(ctx, res)
    if r:
        rule_inventory(ctx, res, r[0], r[1])
