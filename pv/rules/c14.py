"""C14 -- build embeds each require()d package once and leaves code intact.

Rules: R-C14-once, R-C14-visitor, R-C14-sync, R-C14-splice, R-C14-strip,
R-C14-errors.
"""
import ast

from ..cfg import cfg_of
from ..consteval import UNKNOWN
from ..refs import pico8_api
from ..srcmodel import walk_own, FuncInfo, const_str
from .common import assignments_to, unparse, literal
from . import splice

EXPLANATION = (
    'R-C14-once: the package table is stored to at one site, under `key not '
    'in table`, and that store dominates the recursive resolution of the '
    'package\'s own requires (cycles terminate, shared packages are embedded '
    'once); _prepend_package_lua emits one loader entry per key. '
    'R-C14-visitor (visitor completeness): an overriding _walk_<Type> of a '
    'BaseASTWalker subclass in pico8.build must, on every silent path (no '
    'yield, no raise), walk every field of its node or delegate to the '
    'default handler -- otherwise require() calls nested below that node type '
    'are never seen. R-C14-sync: no token-synchronised writer '
    '(LuaASTEchoWriter family without ignore_tokens) serialises a Lua object '
    'whose AST lists were mutated in place. R-C14-splice: foreign line '
    'sequences are newline-terminated before the next piece. R-C14-strip: '
    'only top-level StatFunction nodes whose name is one of the four '
    'callbacks are stripped, and only when use_game_loop is false. '
    'R-C14-errors: the error helper raises on every path, a missing file '
    'raises before the open, argument validation dominates the yield.')

ASSUMPTIONS = [
    'dict preserves insertion order (Python >= 3.7)',
    'token-for-token equality of embedded bodies for concrete packages is a '
    'runtime equality and not decided here',
]

B = 'pico8.build.build'


def rule_once(ctx, res):
    model = ctx.model
    q = B + ':_evaluate_require'
    f = model.func(q)
    cfg = cfg_of(f)
    table = f.params()[2] if len(f.params()) > 2 else 'package_lua'
    stores = [n for n in model.own_nodes(f.node) if isinstance(n, ast.Assign)
              and any(isinstance(t, ast.Subscript) and
                      isinstance(t.value, ast.Name) and t.value.id == table
                      for t in n.targets)]
    res.check(len(stores) == 1, 'R-C14-once', q,
              'single store into the package table',
              '', '{} stores into the package table'.format(len(stores)),
              f.loc)
    if len(stores) != 1:
        return
    st = stores[0]
    key = [t for t in st.targets if isinstance(t, ast.Subscript)][0].slice
    from ..absint.symbody import SymBody
    sym = SymBody(ctx, f, max_paths=2000)
    loops = [n for n in f.node.body if isinstance(n, ast.For)]
    lpaths = sym.run(loops[0].body, {}) if len(loops) == 1 else []
    KEY = ast.unparse(key)
    guarded = bool(lpaths)
    n_store_paths = 0
    for p in lpaths:
        if not any(e[0] == 'store' and ast.unparse(e[1]) == table
                   for e in p.events):
            continue
        n_store_paths += 1
        absent = False
        for (t, val) in p.conds:
            while isinstance(t, ast.UnaryOp) and isinstance(t.op, ast.Not):
                t, val = t.operand, not val
            tt = ast.unparse(t)
            if tt == '{} in {}'.format(KEY, table) and not val:
                absent = True
            if tt == '{} not in {}'.format(KEY, table) and val:
                absent = True
        if not absent:
            guarded = False
    ok = guarded and n_store_paths > 0
    res.check(ok, 'R-C14-once', q, 'store guarded by `key not in table`',
              'a package is resolved and embedded once',
              'the store is not guarded by a membership test on the same '
              'key: a package required twice is loaded twice',
              f.module.loc(st))
    # the key is the required name and nothing else: a key that also depends
    # on another value (an option, the requiring file) enters one name twice
    from .c12 import _views_of_walker_string, pure_aliases
    names = _views_of_walker_string(model, f)
    seeds = {v for v in names if not assignments_to(f.node, v) or
             all(val is None for (_s, val) in assignments_to(f.node, v))}
    pure = set()
    for sd in (seeds or names):
        pure |= pure_aliases(f.node, sd)
    key_ok = isinstance(key, ast.Name) and (key.id in pure or
                                             key.id in names)
    res.check(key_ok, 'R-C14-once', q, 'table key is the required name',
              'key {} is the string yielded by the require walker'.format(
                  unparse(key, 30)),
              'the table key ({}) is not the required name alone: two '
              'require() calls of one name can get different keys, and the '
              'loader table then defines that name twice'.format(
                  unparse(key, 50)), f.module.loc(st))
    rec = []
    for n in model.own_nodes(f.node):
        if isinstance(n, ast.Call):
            kind, targets = model.resolve_call(f, n)
            if any(isinstance(t, FuncInfo) and t.qual == q for t in targets):
                rec.append(n)
    res.check(len(rec) == 1, 'R-C14-once', q, 'recursive resolution present',
              '', 'requires of required packages are not resolved '
              '({} recursive calls)'.format(len(rec)), f.loc)
    for r in rec:
        dom = all(any(cfg.dominates(s, rn) for s in cfg.nodes_of(st))
                  for rn in cfg.nodes_of(r))
        passes_table = any(isinstance(a, ast.Name) and a.id == table
                           for a in list(r.args) +
                           [k.value for k in r.keywords])
        res.check(dom and passes_table, 'R-C14-once', q,
                  'store precedes the recursive call',
                  'the table doubles as visited set: cycles terminate',
                  'the package is entered into the table only after its own '
                  'requires are resolved (store-dominates={}, '
                  'same-table={}): a require cycle recurses forever'.format(
                      dom, passes_table), f.module.loc(r))
    # one loader entry per key
    q2 = B + ':_prepend_package_lua'
    g = model.func(q2)
    loops = [n for n in walk_own(g.node) if isinstance(n, ast.For) and
             isinstance(n.iter, ast.Call) and
             isinstance(n.iter.func, ast.Attribute) and
             n.iter.func.attr == 'items']
    ok = len(loops) == 1
    if ok:
        lp = loops[0]
        defs = [c for s in lp.body for c in walk_own(s)
                if isinstance(c, ast.Call) and
                isinstance(c.func, ast.Attribute) and c.func.attr == 'append'
                and b'package._c[' in _bytes_in(c)]
        ends = [c for s in lp.body for c in walk_own(s)
                if isinstance(c, ast.Call) and
                isinstance(c.func, ast.Attribute) and c.func.attr == 'append'
                and c.args and const_str(c.args[0]) == b'end\n']
        ok = len(defs) == 1 and len(ends) == 1
        # the emitted name is the whole key (escaped), not a projection of it
        tg = lp.target
        kname = tg.elts[0].id if (isinstance(tg, ast.Tuple) and
                                  len(tg.elts) == 2 and
                                  isinstance(tg.elts[0], ast.Name)) else None
        if kname is None:
            ok = False
        elif defs:
            used = {x.id for x in walk_own(defs[0]) if isinstance(x, ast.Name)}
            derived = {kname}
            for nm in used:
                for (_s2, v2) in assignments_to(g.node, nm):
                    if v2 is not None and any(
                            isinstance(x, ast.Name) and x.id == kname
                            for x in walk_own(v2)):
                        derived.add(nm)
            ok = ok and bool(used & derived)
    res.check(ok, 'R-C14-once', q2, 'one loader entry per table key',
              'single pass over table.items(), one package._c[...] '
              'definition named by the whole key and one closing end per '
              'package',
              'loader emission changed: not exactly one definition per table '
              'entry named by the entry\'s whole key', g.loc)
    res.require_min('R-C14-once', 5)


def _bytes_in(node):
    out = b''
    for c in walk_own(node):
        if isinstance(c, ast.Constant) and isinstance(c.value, bytes):
            out += c.value
    return out


def rule_visitor(ctx, res):
    model, ev = ctx.model, ctx.consts
    types = ev.module_const('pico8.lua.parser', '_ast_node_types')
    if types is UNKNOWN:
        res.undecided('R-C14-visitor', 'pico8.lua.parser:_ast_node_types',
                      'schema', 'does not evaluate')
        return
    fields = {name: list(flds) for (name, flds) in types}
    base = model.cls('pico8.lua.lua:BaseASTWalker')
    writer = model.cls('pico8.lua.lua:BaseLuaWriter')
    n = 0
    for c in model.classes.values():
        if c is base or base not in model.mro(c) or writer in model.mro(c):
            continue
        for mname, m in sorted(c.methods.items()):
            if not mname.startswith('_walk_') or mname[6:] not in fields:
                continue
            typ = mname[6:]
            node_param = m.params()[1] if len(m.params()) > 1 else 'node'
            cfg = cfg_of(m)
            walked_nodes = {}
            delegates = set()
            for cn in cfg.nodes:
                if cn.ast is None:
                    continue
                for x in walk_own(cn.ast if cn.kind != 'iter'
                                  else cn.ast.iter):
                    if isinstance(x, ast.Call):
                        fn = x.func
                        nm = fn.attr if isinstance(fn, ast.Attribute) else (
                            fn.id if isinstance(fn, ast.Name) else '')
                        args = list(x.args)
                        if nm == '_walk' and args:
                            a = args[0]
                            if isinstance(a, ast.Attribute) and \
                                    isinstance(a.value, ast.Name) and \
                                    a.value.id == node_param:
                                walked_nodes.setdefault(a.attr, set()).add(cn)
                        if nm in ('_default_node_handler', mname) and any(
                                isinstance(a, ast.Name) and a.id == node_param
                                for a in args):
                            delegates.add(cn)
            yields = {cn for cn in cfg.nodes if cn.ast is not None and any(
                isinstance(x, (ast.Yield, ast.YieldFrom))
                for x in walk_own(cn.ast if cn.kind not in ('iter', 'with',
                                                             'except',
                                                             'handler')
                                  else ast.Pass()))}
            # silent path: entry -> exit avoiding delegates, and avoiding
            # yields that are not inside a delegation/walk loop
            real_yields = set()
            for y in yields:
                # a `yield t` inside `for t in self._walk(...)` is plumbing
                p = getattr(y.stmt, '_parent', None)
                plumbing = isinstance(p, ast.For) and any(
                    isinstance(x, ast.Call) and (
                        (isinstance(x.func, ast.Attribute) and
                         x.func.attr == '_walk') or
                        (isinstance(x.func, (ast.Attribute, ast.Name)) and
                         'default_node_handler' in ast.unparse(x.func)))
                    for x in walk_own(p.iter))
                if not plumbing:
                    real_yields.add(y)
            missing = []
            for fld in fields[typ]:
                avoid = set(delegates) | real_yields | walked_nodes.get(
                    fld, set())
                reach = cfg.reachable_from(cfg.entry, avoid=avoid)
                if cfg.exit in reach:
                    missing.append(fld)
            n += 1
            scope_build = c.module.name.startswith('pico8.build')
            inst = '{}.{} covers {}'.format(c.name, mname, fields[typ])
            if not missing:
                res.holds('R-C14-visitor', m.qual, inst,
                          'every silent path walks all fields or delegates',
                          m.loc)
            elif scope_build:
                res.violation(
                    'R-C14-visitor', m.qual, inst,
                    'a path through the handler yields nothing and does not '
                    'descend into field(s) {}: require() calls nested below '
                    'a {} node are never found, so no package is '
                    'embedded'.format(missing, typ), m.loc)
            else:
                res.info('R-C14-visitor', m.qual, inst,
                         'does not descend into {} (outside pico8.build; '
                         'aside)'.format(missing), m.loc)
    res.require_min('R-C14-visitor', 1)


def _writer_is_token_synced(model, f, call):
    """(synced?, description) for a reparse()/to_lines() call."""
    cls_e = args_e = None
    for k in call.keywords:
        if k.arg == 'writer_cls':
            cls_e = k.value
        elif k.arg == 'writer_args':
            args_e = k.value
    if cls_e is None:
        return False, 'default echo writer'
    r = model.resolve_expr(f.module, cls_e)
    if not r or r[0] != 'class':
        return None, 'unresolved writer'
    ast_echo = model.cls('pico8.lua.lua:LuaASTEchoWriter')
    if ast_echo not in model.mro(r[1]):
        return False, r[1].name
    d = literal(args_e) if args_e is not None else None
    if isinstance(d, dict) and d.get('ignore_tokens') is True:
        return False, r[1].name + ' with ignore_tokens'
    return True, r[1].name + ' replaying the token stream'


def rule_sync(ctx, res):
    model = ctx.model
    n = 0
    for f in model.functions.values():
        if f.cls is not None and f.qual.startswith('pico8.lua.lua:Lua.'):
            continue
        cfg = None
        for call in model.own_nodes(f.node):
            if not (isinstance(call, ast.Call) and
                    isinstance(call.func, ast.Attribute) and
                    call.func.attr == 'reparse'):
                continue
            n += 1
            synced, desc = _writer_is_token_synced(model, f, call)
            inst = '{}.reparse via {}'.format(
                unparse(call.func.value, 30), desc)
            loc = f.module.loc(call)
            if synced is None:
                res.undecided('R-C14-sync', f.qual, inst, 'writer unresolved',
                              loc)
                continue
            if not synced:
                res.holds('R-C14-sync', f.qual, inst,
                          'the writer does not replay the old token stream',
                          loc)
                continue
            obj = ast.unparse(call.func.value)
            cfg = cfg or cfg_of(f)
            muts = []
            for st in model.own_nodes(f.node):
                tgt = None
                if isinstance(st, ast.Assign):
                    for t in st.targets:
                        if isinstance(t, ast.Subscript):
                            tgt = t.value
                elif isinstance(st, ast.Delete):
                    for t in st.targets:
                        if isinstance(t, ast.Subscript):
                            tgt = t.value
                elif isinstance(st, ast.Call) and \
                        isinstance(st.func, ast.Attribute) and \
                        st.func.attr in ('append', 'remove', 'insert', 'pop',
                                         'extend', 'clear', 'sort',
                                         'reverse'):
                    tgt = st.func.value
                if tgt is not None and ast.unparse(tgt).startswith(
                        obj + '.root'):
                    muts.append(st)
            bad = [m for m in muts if any(
                cn in cfg.reachable_from(cfg.nodes_of(m))
                for cn in cfg.nodes_of(call))]
            if bad:
                res.violation(
                    'R-C14-sync', f.qual, inst,
                    'the AST of {} is edited in place ({}) and then '
                    'serialised by a writer that replays the ORIGINAL token '
                    'stream against the new tree: AssertionError or wrong '
                    'code for any edit that is not at the end'.format(
                        obj, unparse(bad[0], 50)), loc)
            else:
                res.holds('R-C14-sync', f.qual, inst,
                          'no in-place AST edit reaches this serialisation',
                          loc)
    res.require_min('R-C14-sync', 1)


def rule_strip(ctx, res):
    model, ev = ctx.model, ctx.consts
    q = B + ':_evaluate_require'
    f = model.func(q)
    names = ev.module_const(B, 'GAME_LOOP_FUNCTION_NAMES')
    res.check(names is not UNKNOWN and set(names) == set(pico8_api.CALLBACKS),
              'R-C14-strip', B + ':GAME_LOOP_FUNCTION_NAMES',
              'the four game-loop callbacks',
              '{}'.format(sorted(names) if names is not UNKNOWN else names),
              'stripped names are not exactly _init/_update/_update60/_draw: '
              '{}'.format(names))
    # decided by evaluation when the function can be followed; the statement
    # forms below are the fallback
    from . import c14eval
    evaluated = c14eval.report(ctx, res)
    w = model.func(B + ':RequireWalker._walk_FunctionCall')
    if evaluated:
        src = ast.unparse(w.node)
        res.check("use_game_loop" in src and 'use_game_loop = False' in src,
                  'R-C14-strip', w.qual, 'use_game_loop defaults to false',
                  '', 'default of use_game_loop changed', w.loc)
        return
    from .. import norm
    from ..absint.symbody import SymBody
    u = ast.unparse
    # the selection of the statements to strip: a comprehension or filter()
    # over <lua>.root.stats, in _evaluate_require or a helper extracted from it
    sel = []            # (function, node, condition expr over one statement)
    for (g, n) in norm.region_nodes(ctx, f):
        if isinstance(n, (ast.ListComp, ast.GeneratorExp)) and any(
                isinstance(norm.subst_locals(g.node, gen.iter),
                           (ast.Attribute, ast.Name)) and
                u(norm.subst_locals(g.node, gen.iter)).endswith('.root.stats')
                for gen in n.generators):
            gen = n.generators[0]
            cond = gen.ifs[0] if len(gen.ifs) == 1 else (
                ast.BoolOp(op=ast.And(), values=list(gen.ifs))
                if gen.ifs else None)
            sel.append((g, n, len(n.generators) == 1, gen.target, cond))
        elif isinstance(n, ast.Call) and isinstance(n.func, ast.Name) and \
                n.func.id == 'filter' and len(n.args) == 2 and \
                u(norm.subst_locals(g.node, n.args[1])).endswith(
                    '.root.stats'):
            pred = n.args[0]
            tgt = ast.Name(id='_s', ctx=ast.Load())
            cond = None
            if isinstance(pred, ast.Lambda):
                tgt = ast.Name(id=pred.args.args[0].arg, ctx=ast.Load())
                cond = pred.body
            else:
                # a named predicate: its body as an expression of its param
                call = ast.Call(func=pred, args=[tgt], keywords=[])
                ast.copy_location(call, n)
                ast.fix_missing_locations(call)
                cond = SymBody(ctx, g).S(call, {})
                if isinstance(cond, ast.Call) and u(cond.func) == u(pred):
                    cond = None
            sel.append((g, n, True, tgt, cond))
    if not sel:
        res.undecided('R-C14-strip', q, 'strip filter',
                      'no selection over <lua>.root.stats found in '
                      '_evaluate_require or its helpers', f.loc)
        return
    for (g, c, top, tgt, cond) in sel:
        if cond is None:
            res.undecided('R-C14-strip', g.qual, 'strip filter',
                          'selection condition not recognised',
                          g.module.loc(c))
            continue
        sg = SymBody(ctx, g)
        cond = sg.S(cond, {})
        src = u(cond)
        typ = 'StatFunction' in src and 'isinstance' in src
        byname = 'namepath[0]' in src and (
            'GAME_LOOP_FUNCTION_NAMES' in src or all(
                repr(nm) in src for nm in pico8_api.CALLBACKS))
        # guarded by `not use_game_loop`: on every path of the function that
        # contains the selection it is reached only when the option is false
        g_ok = False
        for (fn, n2) in norm.region_nodes(ctx, f):
            if isinstance(n2, ast.If):
                t = n2.test
                neg = False
                while isinstance(t, ast.UnaryOp) and isinstance(t.op, ast.Not):
                    t, neg = t.operand, not neg
                if isinstance(t, ast.Name) and t.id == 'use_game_loop':
                    branch = n2.body if neg else n2.orelse
                    other = n2.orelse if neg else n2.body
                    inside = any(x is c for st in branch
                                 for x in walk_own(st)) or any(
                        t2.qual == g.qual or g in norm.new_helpers(ctx, t2)
                        for (_c2, t2) in norm.callees(ctx.model, fn,
                                                      list(branch)))
                    early = (not neg) and any(
                        isinstance(x, (ast.Return, ast.Continue))
                        for st in n2.body for x in walk_own(st))
                    if inside or early:
                        g_ok = True
        # polarity: the condition is TRUE for a callback definition
        pol = None
        parts = cond.values if isinstance(cond, ast.BoolOp) else [cond]
        if isinstance(cond, ast.BoolOp) and isinstance(cond.op, ast.And) or \
                not isinstance(cond, ast.BoolOp):
            pol = all(not (isinstance(v, ast.UnaryOp) or (
                isinstance(v, ast.Compare) and
                isinstance(v.ops[0], ast.NotIn))) for v in parts)
        elif isinstance(cond.op, ast.Or):
            pol = all(isinstance(v, ast.UnaryOp) or (
                isinstance(v, ast.Compare) and
                isinstance(v.ops[0], ast.NotIn)) for v in parts)
        res.check(top and typ and byname and g_ok and pol is True,
                  'R-C14-strip', q, 'strip filter selects only top-level '
                  'callback definitions, unless use_game_loop',
                  'top-level statements only, StatFunction only, by the '
                  'callback name list, under `not use_game_loop`',
                  'filter changed: top-level-only={} statfunction={} '
                  'by-callback-name={} guarded-by-option={} '
                  'consistent-polarity={}'.format(top, typ, byname, g_ok, pol),
                  g.module.loc(c))
    # token-range form of the strip: half-open [start_pos, end_pos)
    n_range = 0
    for (g, c) in norm.region_nodes(ctx, f):
        if isinstance(c, ast.Compare) and len(c.ops) == 2 and \
                'start_pos' in ast.unparse(c) and 'end_pos' in ast.unparse(c):
            ok = isinstance(c.ops[0], ast.LtE) and isinstance(c.ops[1], ast.Lt) \
                and 'start_pos' in ast.unparse(c.left) and \
                'end_pos' in ast.unparse(c.comparators[1])
            neg = isinstance(getattr(getattr(c, '_parent', None), '_parent',
                                     None), ast.UnaryOp) or \
                'not any' in ast.unparse(_stmt(c))
            n_range += 1
            res.check(ok and neg, 'R-C14-strip', q,
                      'dropped token range is [start_pos, end_pos)',
                      'tokens of a stripped statement, and only those, are '
                      'left out',
                      'token range test is not start_pos <= i < end_pos '
                      '(negated): a neighbouring token is dropped or a '
                      'stripped one kept', g.module.loc(c))
        elif isinstance(c, ast.Call) and isinstance(c.func, ast.Name) and \
                c.func.id == 'range' and len(c.args) == 2 and \
                'start_pos' in ast.unparse(c.args[0]) and \
                'end_pos' in ast.unparse(c.args[1]):
            # positions collected as range(start_pos, end_pos): half-open too
            n_range += 1
            res.holds('R-C14-strip', q,
                      'dropped token range is [start_pos, end_pos)',
                      'range(start_pos, end_pos)', g.module.loc(c))
    if n_range == 0:
        res.undecided('R-C14-strip', q, 'dropped token range',
                      'neither evaluation nor a recognised token-range test '
                      '(start_pos <= i < end_pos, range(start_pos, end_pos)): '
                      'which tokens survive the strip is not decided', f.loc)
    # the option comes from the require() call's option table
    src = ast.unparse(w.node)
    res.check("use_game_loop" in src and 'use_game_loop = False' in src,
              'R-C14-strip', w.qual, 'use_game_loop defaults to false', '',
              'default of use_game_loop changed', w.loc)


def _stmt(n):
    while n is not None and not isinstance(n, ast.stmt):
        n = getattr(n, '_parent', None)
    return n


def rule_errors(ctx, res):
    from .. import norm
    from ..absint.symbody import SymBody
    from .c12 import param_reaches_sink
    model = ctx.model
    u = ast.unparse
    e = model.func(B + ':RequireWalker._error_at_node')
    cfg = cfg_of(e)
    res.check(cfg.exit not in cfg.reachable(), 'R-C14-errors', e.qual,
              'error helper always raises', '',
              '_error_at_node can return normally: invalid require() '
              'arguments are accepted', e.loc)
    # ---- a package that is not found fails before anything is opened ------
    q = B + ':_evaluate_require'
    f = model.func(q)
    loops = [n for n in f.node.body if isinstance(n, ast.For)]
    guard_ok = None
    if len(loops) == 1:
        sym = SymBody(ctx, f, max_paths=2000)
        opened = 0
        guard_ok = True
        for p in sym.run(loops[0].body, {}):
            # events that open a file: open(X) or a helper whose parameter
            # reaches an open
            for k, ev in enumerate(p.events):
                exprs = [x for x in ev[1:-1] if isinstance(x, ast.AST)]
                for ex in exprs:
                    for c in ast.walk(ex):
                        if not isinstance(c, ast.Call):
                            continue
                        arg = None
                        if isinstance(c.func, ast.Name) and \
                                c.func.id == 'open' and c.args:
                            arg = c.args[0]
                        else:
                            kind, targets = model.resolve_call(f, c) \
                                if hasattr(c, 'lineno') else (None, [])
                            for t in targets or []:
                                if hasattr(t, 'qual') and \
                                        t.qual != B + ':_locate_require_file':
                                    reach = param_reaches_sink(model, t)
                                    params = t.params()
                                    for i, a in enumerate(c.args):
                                        if i < len(params) and \
                                                params[i] in reach:
                                            arg = a
                        if arg is None or '_locate_require_file' not in \
                                u(arg):
                            continue
                        opened += 1
                        # the located path was tested against None before
                        ok = any(
                            p.conds.at[i] <= k and (
                                (u(t) == u(arg) + ' is None' and not v) or
                                (u(t) == u(arg) + ' is not None' and v))
                            for i, (t, v) in enumerate(p.conds))
                        if not ok:
                            guard_ok = False
        if opened == 0:
            guard_ok = None
        # and the None case raises
        if guard_ok:
            raised = any(
                p.end == 'raise' and any(
                    u(t).endswith(' is None') and v and
                    '_locate_require_file' in u(t) or
                    u(t).endswith(' is not None') and not v and
                    '_locate_require_file' in u(t) for (t, v) in p.conds)
                for p in sym.run(loops[0].body, {}))
            guard_ok = raised
    if guard_ok is None:
        res.undecided('R-C14-errors', q, 'missing package raises',
                      'the open of the located file was not found', f.loc)
    else:
        res.check(guard_ok, 'R-C14-errors', q, 'missing package raises',
                  'a require() whose file is not found fails the build '
                  'before anything is opened',
                  'no raising `is None` test on the located path precedes '
                  'the open', f.loc)
    # ---- require() arguments are validated before the result is yielded ----
    w = model.func(B + ':RequireWalker._walk_FunctionCall')
    sym = SymBody(ctx, w, max_paths=3000)
    paths = sym.run(w.node.body)
    result_paths = []
    for p in paths:
        ys = [k for k, ev in enumerate(p.events) if ev[0] == 'yield' and
              isinstance(ev[1], ast.Tuple)]
        if ys:
            result_paths.append((p, ys[0]))
    err_tests = {}           # kind -> set of (test text, raising polarity)
    for p in paths:
        if p.end != 'raise' or not p.conds:
            continue
        last = [ev for ev in p.events if ev[0] == 'call' and
                '_error_at_node' in u(ev[1])]
        if not last:
            continue
        t, v = p.conds[-1]
        tt = u(t)
        kind = 'argcount' if 'len(' in tt and 'fields' not in tt else (
            'string-literal' if 'TokString' in tt else (
                'options' if ('use_game_loop' in tt or 'fields' in tt or
                              'TableConstructor' in tt or 'key_name' in tt or
                              'ExpValue' in tt) else None))
        if kind:
            err_tests.setdefault(kind, set()).add((tt, v))
    for kind in ('argcount', 'string-literal', 'options'):
        tests = err_tests.get(kind, set())
        ok = bool(tests) and bool(result_paths)
        for (p, yk) in result_paths:
            # every validation test of this kind the path evaluates was
            # evaluated BEFORE the yield and passed
            seen = False
            for i, (t, v) in enumerate(p.conds):
                for (tt, rv) in tests:
                    if u(t) == tt:
                        seen = True
                        if v == rv or p.conds.at[i] > yk:
                            ok = False
            if kind in ('argcount', 'string-literal') and not seen:
                ok = False
        if not tests:
            res.undecided('R-C14-errors', w.qual,
                          'require() {} validated before the result is '
                          'yielded'.format(kind),
                          'no raising test of this kind found', w.loc)
            continue
        res.check(ok, 'R-C14-errors', w.qual,
                  'require() {} validated before the result is '
                  'yielded'.format(kind), '{} test(s)'.format(len(tests)),
                  'the {} check no longer guards the yield'.format(kind),
                  w.loc)
    # the main program goes through the default echo writer
    g = model.func(B + ':_prepend_package_lua')
    tl = [c for c in walk_own(g.node) if isinstance(c, ast.Call) and
          isinstance(c.func, ast.Attribute) and c.func.attr == 'to_lines']
    ok = bool(tl) and all(not c.args and not c.keywords for c in tl)
    res.check(ok, 'R-C14-errors', g.qual,
              'package and main code echoed by the default writer',
              '{} to_lines() calls, none with a transforming writer'.format(
                  len(tl)),
              'a transforming writer is applied while embedding', g.loc)
    # main program last, after the loader
    last_ok = False
    orig = g.params()[0] if g.params() else 'orig_ast'
    main = orig + '.to_lines()'
    for n in walk_own(g.node):
        if isinstance(n, ast.BinOp) and isinstance(n.op, ast.Add) and \
                main in u(n.right) and isinstance(n.left, ast.Name):
            last_ok = True
    if not last_ok:
        # list built in place: the last mutation of the list handed to
        # from_lines is  <list>.extend(<main program lines>)
        for p in SymBody(ctx, g).run(g.node.body):
            muts = [ev for ev in p.events if ev[0] == 'call' and
                    isinstance(ev[1], ast.Call) and
                    isinstance(ev[1].func, ast.Attribute) and
                    ev[1].func.attr in ('extend', 'append', 'insert')]
            if muts and muts[-1][1].func.attr == 'extend' and \
                    main in u(muts[-1][1].args[0]) and p.ret is not None \
                    and u(muts[-1][1].func.value) in u(p.ret):
                last_ok = True
    res.check(last_ok, 'R-C14-errors', g.qual,
              'main program appended after the loader', '',
              'main program is not the last piece', g.loc)


def run(ctx, res):
    model = ctx.model
    from . import c14eval
    # evaluated first; the statement-form twin of a rule only where the
    # evaluation could not follow the code
    graph_ok = c14eval.report_graph(ctx, res)
    walker_ok = c14eval.report_walker(ctx, res)
    c14eval.report_prepend(ctx, res)
    from . import c12eval
    c12eval.report_files_only(ctx, res)
    if not graph_ok:
        rule_once(ctx, res)
    rule_visitor(ctx, res)
    rule_sync(ctx, res)
    n = 0
    for q in (B + ':_prepend_package_lua', B + ':_evaluate_require',
              B + ':do_build'):
        f = model.func(q)
        n += splice.check_extend_sites(model, f, res)
        n += splice.check_yield_loops(model, f, res)
    if n == 0:
        res.vanished('R-C14-splice', B + ':_prepend_package_lua',
                     'splice site', 'no spliced line sequence found')
    rule_strip(ctx, res)
    if not (graph_ok and walker_ok):
        rule_errors(ctx, res)
    from . import memo
    memo.rule_no_incomplete_memo(ctx, res, 'R-C14-once', 'pico8.build.build',
                                 'package loading')
