"""C05 -- code compression is lossless and emits only well-formed :c: streams.

Rules: R-C05-format (encoder, decoder and reference agree as arithmetic
codecs), R-C05-wellformed (bounds of every emitted back-reference),
R-C05-copy (decoder copies overlapping references correctly),
R-C04-header (shared).
"""
import ast

from ..consteval import UNKNOWN
from ..core import AnalysisError
from ..refs import formats as ref
from ..srcmodel import walk_own, const_str
from .common import assignments_to, unparse

EXPLANATION = (
    'R-C05-format: the encoder\'s and the decoder\'s item arithmetic is '
    'normalised to linear forms over atoms (x // k, x % k, x & m, x >> n, '
    'array reads) with all constants evaluated (0x3c vs '
    'len(COMPRESSED_LUA_CHAR_TABLE) etc.); the radix, the first-block bias, '
    'the length bias, the nibble mask and shift must agree between encoder, '
    'decoder and refs/formats.py, the literal table (entries 1..59) must be '
    'duplicate-free and equal the reference, and the decoder\'s three '
    'branch conditions must partition 0..255. R-C05-wellformed: from the '
    'guard shapes of _find_repeatable_block (min() clamps, the `(j - i) < '
    'max_len and j < pos` loop condition, the window start pos - '
    'min(max_hist_len, pos), joint assignment of best_len / best_i) and the '
    '`block_len >= 3` test, interval arithmetic on the evaluated constants '
    'gives 3 <= length <= 17, 1 <= offset <= min(pos, 3120), both emitted '
    'bytes in 0..255 and first byte >= 0x3c; `j < pos` means the encoder '
    'never emits an overlapping reference. R-C05-copy: the decoder must '
    'copy a back-reference element-wise in increasing order (or prove the '
    'source range lies below the write position): a slice copy mis-decodes '
    'well-formed references with offset < length and can lengthen the '
    'output.')

ASSUMPTIONS = [
    'decompress(compress(s)) == s as such is the composition of the three '
    'rules with the greedy search being SOME valid parse (paper argument)',
    'the _update60 compatibility suffix handling is value-dependent string '
    'surgery and is NOT decided',
    'refs/formats.py',
]

CZ = 'pico8.game.compress'


# --------------------------------------------------------- linear normaliser

class Lin:
    """sum of coeff * atom + const; atoms are hashable structural keys"""

    def __init__(self, terms=None, const=0):
        self.terms = {k: v for k, v in (terms or {}).items() if v}
        self.const = const

    def __add__(self, o):
        t = dict(self.terms)
        for k, v in o.terms.items():
            t[k] = t.get(k, 0) + v
        return Lin(t, self.const + o.const)

    def scale(self, k):
        return Lin({a: v * k for a, v in self.terms.items()}, self.const * k)

    def is_const(self):
        return not self.terms

    def key(self):
        return (tuple(sorted(self.terms.items(), key=repr)), self.const)

    def __repr__(self):
        return ' + '.join(['{}*{}'.format(v, k) for k, v in sorted(
            self.terms.items(), key=repr)] + [str(self.const)])


def norm(ev, module, e, local=None):
    """ast expression -> Lin (constants evaluated through E2)"""
    v = ev.eval_expr(module, e, local or {})
    if isinstance(v, int) and not isinstance(v, bool):
        return Lin({}, v)
    if isinstance(e, ast.BinOp):
        op = e.op
        if isinstance(op, ast.Add):
            return norm(ev, module, e.left, local) + norm(ev, module, e.right,
                                                           local)
        if isinstance(op, ast.Sub):
            return norm(ev, module, e.left, local) + norm(
                ev, module, e.right, local).scale(-1)
        if isinstance(op, ast.Mult):
            a, b = norm(ev, module, e.left, local), norm(ev, module, e.right,
                                                         local)
            if a.is_const():
                return b.scale(a.const)
            if b.is_const():
                return a.scale(b.const)
        names = {ast.FloorDiv: 'div', ast.Mod: 'mod', ast.BitAnd: 'and',
                 ast.RShift: 'shr', ast.LShift: 'shl', ast.BitOr: 'or'}
        if type(op) in names:
            a = norm(ev, module, e.left, local)
            b = norm(ev, module, e.right, local)
            if b.is_const():
                return Lin({(names[type(op)], a.key(), b.const): 1}, 0)
    if isinstance(e, ast.UnaryOp) and isinstance(e.op, ast.USub):
        return norm(ev, module, e.operand, local).scale(-1)
    if isinstance(e, ast.Subscript):
        idx = norm(ev, module, e.slice, local) if not isinstance(
            e.slice, ast.Slice) else None
        return Lin({('load', ast.unparse(e.value),
                     idx.key() if idx else ast.unparse(e.slice)): 1}, 0)
    if isinstance(e, ast.Name):
        return Lin({('sym', e.id): 1}, 0)
    if isinstance(e, ast.Call) and isinstance(e.func, ast.Name) and \
            e.func.id == 'len':
        return Lin({('len', ast.unparse(e.args[0])): 1}, 0)
    return Lin({('opaque', ast.unparse(e)): 1}, 0)


# ------------------------------------------------------------------- format

def rule_format(ctx, res, rule_id='R-C05-format', literals_decided=False):
    model, ev = ctx.model, ctx.consts
    mod = model.module(CZ)
    table = ev.module_const(CZ, 'COMPRESSED_LUA_CHAR_TABLE')
    where = CZ + ':COMPRESSED_LUA_CHAR_TABLE'
    if table is UNKNOWN or not isinstance(table, list):
        res.undecided(rule_id, where, 'table', 'does not evaluate')
        return
    res.tables['COMPRESSED_LUA_CHAR_TABLE'] = len(table)
    lit = bytes(table[1:])
    res.check(lit == ref.C_TABLE and len(set(lit)) == len(lit), rule_id,
              where, 'literal table entries 1..59 == reference, no duplicate',
              '{} characters'.format(len(lit)),
              'literal table differs from the format\'s table or has '
              'duplicates: {!r}'.format(lit))
    n = len(table)
    enc = model.func(CZ + ':compress_code')
    dec = model.func(CZ + ':decompress_code')
    _format_encoder(ctx, res, rule_id, enc, mod, n, literals_decided)
    _format_decoder(ctx, res, rule_id, dec, mod, n)


def _main_while(f):
    loops = [x for x in f.node.body if isinstance(x, ast.While)]
    return loops[0] if len(loops) == 1 else None


def _alias_like(v):
    if isinstance(v, (ast.Name, ast.Constant)):
        return True
    if isinstance(v, ast.Attribute):
        return _alias_like(v.value)
    return isinstance(v, ast.Call) and isinstance(v.func, ast.Name) and \
        v.func.id == 'len' and len(v.args) == 1 and \
        isinstance(v.args[0], ast.Name)


def _loop_paths(ctx, f, lp, no_inline=(), alias_only=False):
    from ..absint.symbody import SymBody
    sym = SymBody(ctx, f, max_paths=2000, no_inline=no_inline)
    pre = sym.run(f.node.body[:f.node.body.index(lp)])
    envs = [p.env for p in pre if p.end == 'fall']
    carried = {x.id for x in ast.walk(lp) if isinstance(x, ast.Name) and
               isinstance(x.ctx, ast.Store)}
    env = {}
    if envs:
        env = {k: v for k, v in envs[0].items() if k not in carried and all(
            k in e and ast.unparse(e[k]) == ast.unparse(v) for e in envs)}
    if alias_only:
        env = {k: v for k, v in env.items() if _alias_like(v)}
    return sym, env, sym.run(lp.body, env), pre


def _appends(p, exclude=()):
    out = []
    for e in p.events:
        if e[0] == 'call' and isinstance(e[1], ast.Call) and \
                isinstance(e[1].func, ast.Attribute) and \
                e[1].func.attr == 'append' and len(e[1].args) == 1:
            out.append((ast.unparse(e[1].func.value), e[1].args[0]))
    return out


def _rename(e, mapping):
    """copy of e with sub-expressions (by text) replaced by names"""
    from ..astutil import clone

    class T(ast.NodeTransformer):
        def generic_visit(self, n):
            if isinstance(n, ast.expr):
                t = ast.unparse(n)
                if t in mapping:
                    return ast.Name(id=mapping[t], ctx=ast.Load())
            return super().generic_visit(n)
    return T().visit(clone(e))


def _format_encoder(ctx, res, rule_id, enc, mod, n,
                    literals_decided=False):
    from .. import norm as N
    ev = ctx.consts
    u = ast.unparse
    # ---- literal index: TABLE[i] -> i for i in 1 .. n-1 -----------------------
    idx_ok = None
    for (g, lp) in N.region_nodes(ctx, enc):
        if not isinstance(lp, ast.For):
            continue
        body = ' '.join(u(x) for x in lp.body).replace(' ', '')
        it = u(lp.iter).replace(' ', '')
        if '[COMPRESSED_LUA_CHAR_TABLE[' in body and it.startswith('range('):
            a = [ev.eval_expr(g.module, x) for x in lp.iter.args]
            tgt = lp.target.id if isinstance(lp.target, ast.Name) else None
            st = [x for x in lp.body if isinstance(x, ast.Assign)]
            idx_ok = a == [ref.C_TABLE_FIRST_INDEX, n] and len(st) == 1 and \
                tgt is not None and u(st[0].value) == tgt and \
                u(st[0].targets[0]).endswith(
                    '[COMPRESSED_LUA_CHAR_TABLE[{}]]'.format(tgt))
        elif it == 'enumerate(COMPRESSED_LUA_CHAR_TABLE)' and \
                isinstance(lp.target, ast.Tuple) and len(lp.target.elts) == 2:
            i_, c_ = [x.id for x in lp.target.elts]
            from ..absint.symbody import SymBody
            ok = True
            stored = False
            for p in SymBody(ctx, g).run(lp.body, {}):
                skip0 = any(
                    (u(t) == '{} == 0'.format(i_) and v) or
                    (u(t) == '{} != 0'.format(i_) and not v) or
                    (u(t) == i_ and not v) or
                    (u(t) == '{} < 1'.format(i_) and v)
                    for (t, v) in p.conds)
                sts = [e for e in p.events if e[0] == 'store']
                if skip0:
                    ok = ok and not sts
                else:
                    ok = ok and len(sts) == 1 and u(sts[0][2]) == c_ and \
                        u(sts[0][3]) == i_
                    stored = True
                    # index 0 must have been excluded on this path
                    if not any(i_ in u(t) for (t, _v) in p.conds):
                        ok = False
            idx_ok = ok and stored
    if idx_ok is None and literals_decided:
        # the evaluated literal rule (all 256 one-byte texts) decides what
        # the index array does; how it is built is then only information
        res.info(rule_id, enc.qual,
                 'literal index covers table entries 1..{}'.format(n - 1),
                 'construction of the literal index not recognised (decided '
                 'by evaluation instead)', enc.loc)
    elif idx_ok is None:
        res.undecided(rule_id, enc.qual,
                      'literal index covers table entries 1..{}'.format(n - 1),
                      'construction of the literal index not recognised',
                      enc.loc)
    else:
        res.check(idx_ok, rule_id, enc.qual,
                  'literal index covers table entries 1..{}'.format(n - 1),
                  '', 'the literal index does not map TABLE[i] to i for '
                  'exactly i = 1..len(table)-1 (index 0 is the escape)',
                  enc.loc)
    # ---- the main loop, path by path -------------------------------------------
    lp = _main_while(enc)
    if lp is None:
        res.vanished(rule_id, enc.qual, 'encoder loop', 'main loop not found')
        return
    sym, env, paths, _pre = _loop_paths(ctx, enc, lp,
                                        no_inline={'_find_repeatable_block'})
    def is_block(p):
        for (t, v) in p.conds:
            if isinstance(t, ast.Compare) and len(t.ops) == 1 and \
                    isinstance(t.comparators[0], ast.Constant):
                c, op = t.comparators[0].value, t.ops[0]
                if c == 3 and isinstance(op, ast.GtE):
                    return v
                if c == 3 and isinstance(op, ast.Lt):
                    return not v
                if c == 2 and isinstance(op, ast.Gt):
                    return v
                if c == 2 and isinstance(op, ast.LtE):
                    return not v
        return None
    blocks, lits, escs, other = [], [], [], []
    for p in paths:
        apps = _appends(p)
        blk = is_block(p)
        if blk is None:
            other.append(p)
        elif blk and len(apps) == 2:
            blocks.append((p, apps))
        elif blk:
            other.append(p)
        elif len(apps) == 2:
            escs.append((p, apps))
        elif len(apps) == 1:
            lits.append((p, apps))
        else:
            other.append(p)
    if not blocks or other:
        res.undecided(rule_id, enc.qual, 'block bytes',
                      'encoder paths not recognised ({} block, {} literal, '
                      '{} escape, {} other)'.format(
                          len(blocks), len(lits), len(escs), len(other)),
                      enc.module.loc(lp))
        return
    R = ref.C_OFFSET_RADIX
    for (p, apps) in blocks:
        # the length is the value tested against the minimum block length
        len_txt = None
        for (t, v) in p.conds:
            if isinstance(t, ast.Compare) and len(t.ops) == 1 and \
                    isinstance(t.comparators[0], ast.Constant) and \
                    t.comparators[0].value in (2, 3):
                len_txt = u(t.left)
        pos_var = [k for k, v in p.env.items() if isinstance(v, ast.BinOp)
                   and isinstance(v.op, ast.Add) and u(v.left) == k]
        if len_txt is None:
            res.undecided(rule_id, enc.qual, 'block bytes',
                          'minimum-length test of the block branch not found',
                          enc.module.loc(lp))
            return
        mapping = {len_txt: 'block_len'}
        # the offset: the other element of the search result
        off_txt = None
        for x in ast.walk(apps[0][1]):
            if isinstance(x, ast.BinOp) and isinstance(
                    x.op, (ast.FloorDiv, ast.Mod)):
                off_txt = u(x.left)
        if off_txt:
            mapping[off_txt] = 'block_offset'
        b1 = norm(ev, mod, _rename(apps[0][1], mapping))
        b2 = norm(ev, mod, _rename(apps[1][1], mapping))
        off = Lin({('sym', 'block_offset'): 1}, 0).key()
        ln = ('sym', 'block_len')
        e_div = [k for k in b1.terms if k[0] == 'div' and k[1] == off]
        e_mod = [k for k in b2.terms if k[0] == 'mod' and k[1] == off]
        enc_ok = (len(e_div) == 1 and e_div[0][2] == R and
                  b1.terms == {e_div[0]: 1} and
                  b1.const == ref.C_BLOCK_FIRST and
                  len(e_mod) == 1 and e_mod[0][2] == R and
                  b2.terms == {e_mod[0]: 1, ln: R} and
                  b2.const == -ref.C_LENGTH_BIAS * R and
                  ref.C_BLOCK_FIRST == n)
        # the position advances by the block length
        adv_ok = any(u(v) == '{} + {}'.format(k, len_txt)
                     for k, v in p.env.items())
        res.check(enc_ok and adv_ok, rule_id, enc.qual,
                  'encoder: b1 = offset // 16 + 0x3c, b2 = offset % 16 + '
                  '(length - 2) * 16', 'b1 = {} ; b2 = {}'.format(b1, b2),
                  'encoder block bytes are b1 = {} ; b2 = {} (format: radix '
                  '{}, first block byte 0x{:x}, length bias {}); position '
                  'advances by the block length: {}'.format(
                      b1, b2, R, ref.C_BLOCK_FIRST, ref.C_LENGTH_BIAS,
                      adv_ok), enc.module.loc(lp))
        break
    # literal escape: 0x00 then the byte itself; table literal: its index
    # escape path: first byte is 0x00 -- written as the constant, or as the
    # looked-up index on a path that knows the index is 0 -- then the byte
    esc_ok = bool(escs) and bool(lits)
    for (p, apps) in escs:
        first, second = apps[0][1], apps[1][1]
        zero = (isinstance(first, ast.Constant) and
                first.value == ref.C_LITERAL_ESCAPE) or any(
            (u(t) == u(first) + ' == 0' and v) or
            (u(t) == u(first) + ' != 0' and not v) or
            (u(t) == u(first) and not v) for (t, v) in p.conds)
        if not zero or not u(second).startswith('in_p['):
            esc_ok = False
    for (p, apps) in lits:
        t = u(apps[0][1])
        if 'in_p[' not in t or isinstance(apps[0][1], ast.Constant):
            esc_ok = False
    res.check(esc_ok and ref.C_LITERAL_ESCAPE == 0, rule_id, enc.qual,
              'encoder: bytes outside the table are written as 0x00, byte',
              '', 'literal escape changed', enc.loc)


def _format_decoder(ctx, res, rule_id, dec, mod, n):
    from ..absint import arith
    ev = ctx.consts
    u = ast.unparse
    R = ref.C_OFFSET_RADIX
    lp = _main_while(dec)
    if lp is None:
        res.vanished(rule_id, dec.qual, 'decoder dispatch', 'not found')
        return
    sym, env, paths, pre = _loop_paths(ctx, dec, lp)
    in_i = None
    for k in ('in_i',):
        in_i = k
    cur = 'codedata[{}]'.format(in_i)
    # which path does each byte value take?
    kinds = {}
    for p in paths:
        inner = [e for e in p.events if e[0] == 'loop']
        stores = [e for e in p.events if e[0] == 'store']
        if inner:
            k = 'block'
        elif stores and 'COMPRESSED_LUA_CHAR_TABLE[' in u(stores[0][3]):
            k = 'table'
        elif stores and u(stores[0][3]) == 'codedata[{} + 1]'.format(in_i):
            k = 'escape'
        else:
            k = 'other:' + ' '.join(e[0] for e in p.events)[:30]
        kinds.setdefault(k, []).append(p)
    bad_bytes = []
    undecidable = False
    for b in range(256):
        taken = set()
        for k, ps in kinds.items():
            for p in ps:
                ok = True
                for (t, v) in p.conds:
                    tt = u(t)
                    if cur not in tt:
                        continue
                    try:
                        r = arith.ev(_rename(t, {cur: 'B'}), {'B': b})
                    except AnalysisError:
                        undecidable = True
                        r = v
                    if bool(r) != v:
                        ok = False
                if ok:
                    taken.add(k)
        want = 'escape' if b == ref.C_LITERAL_ESCAPE else (
            'table' if b < n else 'block')
        if taken != {want}:
            bad_bytes.append((b, sorted(taken), want))
    if undecidable:
        res.undecided(rule_id, dec.qual, 'decoder dispatch',
                      'a test on the current byte is outside the '
                      'arithmetic model', dec.module.loc(lp))
    else:
        res.check(not bad_bytes, rule_id, dec.qual,
                  'decoder branches: ==0x00 escape, <=0x3b table, else block',
                  'partition of 0..255 with 0x3b == len(table) - 1 (every '
                  'byte value evaluated against the branch tests)',
                  'byte 0x{:02x} is decoded as {} instead of {}: the branch '
                  'tests do not partition the byte values at the table size '
                  '{}'.format(*(bad_bytes[0] if bad_bytes else (0, '', '')),
                              n), dec.module.loc(lp))
    tab_ok = all(any(e[0] == 'store' and u(e[3]) ==
                     'COMPRESSED_LUA_CHAR_TABLE[{}]'.format(cur)
                     for e in p.events) for p in kinds.get('table', [])) and \
        bool(kinds.get('table'))
    res.check(tab_ok, rule_id, dec.qual,
              'decoder: table literal = TABLE[byte]', '',
              'table literal decoding changed', dec.loc)
    # block arithmetic: from the copy loop's trip count and source index
    offs = lens = None
    for p in kinds.get('block', []):
        lpev = [e for e in p.events if e[0] == 'loop'][0]
        inner, ienv = lpev[1], lpev[2]
        mapping = {cur: 'b1', 'codedata[{} + 1]'.format(in_i): 'b2'}
        # length: trip count of the copy loop
        if isinstance(inner, ast.For) and isinstance(inner.iter, ast.Call) \
                and u(inner.iter.func) == 'range' and \
                len(inner.iter.args) == 1:
            lens = norm(ev, mod, _rename(sym.S(inner.iter.args[0], ienv),
                                         mapping))
        elif isinstance(inner, ast.While):
            # while out_i < min(out_i0 + length, code_length)
            t = sym.S(inner.test, {k: v for k, v in ienv.items()
                                   if k != 'out_i'})
            for x in ast.walk(t):
                if isinstance(x, ast.BinOp) and isinstance(x.op, ast.Add) \
                        and u(x.left) == 'out_i':
                    lens = norm(ev, mod, _rename(x.right, mapping))
        # offset: out[out_i] = out[out_i - offset]
        for q in sym.run(inner.body, {k: v for k, v in ienv.items()
                                      if k != 'out_i'}):
            for e in q.events:
                if e[0] == 'store' and isinstance(e[3], ast.Subscript) and \
                        isinstance(e[3].slice, ast.BinOp) and \
                        isinstance(e[3].slice.op, ast.Sub) and \
                        u(e[3].slice.left) == u(e[2]):
                    offs = norm(ev, mod, _rename(e[3].slice.right, mapping))
        break
    dec_ok = False
    if offs is not None and lens is not None:
        b1s = ('sym', 'b1')
        ands = [k for k in offs.terms if k[0] == 'and']
        shrs = [k for k in lens.terms if k[0] == 'shr']
        b2k = Lin({('sym', 'b2'): 1}, 0).key()
        dec_ok = (offs.terms.get(b1s) == R and len(ands) == 1 and
                  ands[0][2] == R - 1 and ands[0][1] == b2k and
                  offs.terms.get(ands[0]) == 1 and len(offs.terms) == 2 and
                  offs.const == -ref.C_BLOCK_FIRST * R and
                  len(shrs) == 1 and (1 << shrs[0][2]) == R and
                  shrs[0][1] == b2k and lens.terms == {shrs[0]: 1} and
                  lens.const == ref.C_LENGTH_BIAS)
    if offs is None or lens is None:
        res.undecided(rule_id, dec.qual,
                      'decoder: offset = (b1 - 0x3c) * 16 + (b2 & 15), '
                      'length = (b2 >> 4) + 2',
                      'block copy loop not recognised', dec.loc)
    else:
        res.check(dec_ok, rule_id, dec.qual,
                  'decoder: offset = (b1 - 0x3c) * 16 + (b2 & 15), length = '
                  '(b2 >> 4) + 2',
                  'offset = {} ; length = {}'.format(offs, lens),
                  'decoder item arithmetic is offset = {} ; length = {} -- '
                  'not the inverse of the encoder / the format'.format(
                      offs, lens), dec.loc)
    # header: length from bytes 4,5 big endian; stream starts at offset 8
    hdr_ok = False
    in0 = None
    envs = [p.env for p in pre if p.end == 'fall']
    if envs:
        cl = envs[0].get('code_length')
        if cl is not None:
            hdr_ok = u(cl).replace(' ', '').replace('(', '').replace(
                ')', '') == 'codedata[4]<<8|codedata[5]'
        i0 = envs[0].get(in_i)
        in0 = i0.value if isinstance(i0, ast.Constant) else None
    res.check(hdr_ok and in0 == ref.C_HEADER_LEN, rule_id, dec.qual,
              'decoder: length = bytes 4,5 big endian, stream from offset 8',
              '', 'header decoding changed (length expr ok: {}, stream '
              'offset {})'.format(hdr_ok, in0), dec.loc)


# --------------------------------------------------------------- wellformed

def search_contract(ctx, res):
    """`_find_repeatable_block` evaluated (concrete data, listed scenarios):
    whenever it reports a block of length >= 3 the block is a real earlier
    occurrence inside the window the format can address:
        1 <= offset <= min(pos, 3135),  length <= min(17, len - pos),
        dat[pos - offset + k] == dat[pos + k]  for k < length.
    Scenarios: every string over {a, b} up to length 5 at every position; a
    run of 40 equal bytes (length bound); the only earlier occurrence exactly
    at the window edge and one byte beyond it (offset bound).
    -> (followed, [witness descriptions])   A clean result is "no witness",
    not a proof; the statement-form rules carry the universal argument."""
    import itertools
    from ..absint import cx as CX
    q = CZ + ':_find_repeatable_block'
    f = ctx.model.func(q)
    window = (255 - len(ref.C_TABLE) - 1) * ref.C_OFFSET_RADIX + 15
    cases = []
    for n in range(0, 6):
        for t in itertools.product(b'ab', repeat=n):
            for pos in range(0, n + 1):
                cases.append((bytes(t), pos))
    cases.append((b'a' * 40, 20))
    cases.append((b'a' * 40, 1))
    edge = (255 - len(ref.C_TABLE) - 1) * ref.C_OFFSET_RADIX
    cases.append((b'abcd' + b'z' * (edge - 4) + b'abcd', edge))
    cases.append((b'abcd' + b'z' * (edge - 3) + b'abcd', edge + 1))
    cases.append((b'abcd' + b'z' * (window - 3) + b'abcd', window + 1))
    bad = []
    try:
        for (dat, pos) in cases:
            cxi = CX.Cx(ctx.model, ctx.consts)
            cxi.budget = max(getattr(cxi, 'budget', 0), 5000000)
            paths = cxi.explore(lambda: cxi.call_function(
                f, [dat, pos], {}))
            if len(paths) != 1 or paths[0][0]:
                raise CX.CxError('forks on concrete data')
            kind, val = paths[0][1]
            tag = '{!r}{} at {}'.format(
                dat[:12], '..({} bytes)'.format(len(dat)) if len(dat) > 12
                else '', pos)
            if kind == 'raise':
                if pos < len(dat) or val.tname != 'IndexError':
                    bad.append('{}: raises {}'.format(tag, val.tname))
                continue
            r = cxi.items(val)
            if len(r) != 2 or any(CX.is_sym(x) for x in r):
                raise CX.CxError('result is not a pair of numbers')
            ln, off = r
            if not isinstance(ln, int) or ln < 3:
                continue
            if not isinstance(off, int) or not 1 <= off <= min(pos, window):
                bad.append('{}: reports length {} at offset {} -- outside '
                           '1..min(pos, {})'.format(tag, ln, off, window))
            elif ln > min(ref.C_MAX_LEN, len(dat) - pos):
                bad.append('{}: reports length {} (max {}, {} bytes left)'
                           .format(tag, ln, ref.C_MAX_LEN, len(dat) - pos))
            elif any(dat[pos - off + k] != dat[pos + k] for k in range(ln)):
                bad.append('{}: the {} bytes at offset {} are not the next '
                           '{} bytes'.format(tag, ln, off, ln))
    except AnalysisError as e:
        res.info('R-C05-wellformed', q, 'search contract evaluated',
                 'not followed: ' + str(e)[:120], f.loc)
        return False, []
    res.check(not bad, 'R-C05-wellformed', q,
              'a reported block of length >= 3 is an earlier occurrence '
              'inside the addressable window (evaluated)',
              '{} (text, position) scenarios: no witness'.format(len(cases)),
              '; '.join(bad[:3]) + (' (+{} more)'.format(len(bad) - 3)
                                    if len(bad) > 3 else ''), f.loc,
              semantic=True)
    return True, bad


def rule_wellformed(ctx, res):
    model, ev = ctx.model, ctx.consts
    mod = model.module(CZ)
    f = model.func(CZ + ':_find_repeatable_block')
    q = f.qual
    table = ev.module_const(CZ, 'COMPRESSED_LUA_CHAR_TABLE')
    n = len(table) if isinstance(table, list) else None
    consts = {}
    for st in f.node.body:
        if isinstance(st, ast.Assign) and isinstance(st.targets[0], ast.Name):
            v = ev.eval_expr(mod, st.value)
            if isinstance(v, int) and st.targets[0].id not in consts:
                consts[st.targets[0].id] = v
    mbl = consts.get('max_block_len')
    mhl = consts.get('max_hist_len')
    followed, witnesses = search_contract(ctx, res)
    # a statement form that differs from the pinned one is not a defect by
    # itself: when the evaluated contract has no witness the shape rules
    # below answer "cannot follow" instead of accusing
    soft = followed and not witnesses
    _check = res.check

    def shape_check(cond, rule, where, inst, ok='', bad='', loc='', **kw):
        if cond or not soft:
            return _check(cond, rule, where, inst, ok, bad, loc, **kw)
        return res.undecided(rule, where, inst,
                             'statement form not recognised ({}); the '
                             'evaluated search contract has no witness'
                             .format(bad[:120]), loc)
    names_here = {x.id for x in walk_own(f.node) if isinstance(x, ast.Name)}
    if not {'max_block_len', 'max_hist_len', 'best_len', 'best_i'} <= \
            names_here:
        # the search routine was rewritten: its bounds are no longer
        # readable from the statement forms this rule knows
        res.undecided('R-C05-wellformed', q, 'search routine',
                      'the block search is written in a form outside the '
                      'model (expected the max_block_len / max_hist_len / '
                      'best_len / best_i search)', f.loc)
        return
    res.check(mbl == ref.C_MAX_LEN, 'R-C05-wellformed', q,
              'max block length == 17', '',
              'max_block_len is {}: the length nibble overflows / the '
              'format allows at most {}'.format(mbl, ref.C_MAX_LEN), f.loc)
    res.check(mhl is not None and n is not None and
              mhl == (255 - n) * ref.C_OFFSET_RADIX and
              mhl <= ref.C_MAX_OFFSET, 'R-C05-wellformed', q,
              'history window == (255 - len(table)) * 16 = 3120', '',
              'max_hist_len is {}: offsets above {} do not fit the first '
              'block byte'.format(mhl, ref.C_MAX_OFFSET), f.loc)
    src = [ast.unparse(s).replace(' ', '') for s in f.node.body]
    clamp_len = 'max_len=min(max_block_len,len(dat)-pos)' in src
    clamp_hist = 'max_hist_len=min(max_hist_len,pos)' in src
    start = 'i=pos-max_hist_len' in src
    shape_check(clamp_len and clamp_hist and start, 'R-C05-wellformed', q,
              'search clamps: length <= min(17, remaining), window starts at '
              'pos - min(window, pos)', '',
              'clamps changed: length-clamp={} window-clamp={} '
              'start={}'.format(clamp_len, clamp_hist, start), f.loc)
    outer = [s for s in f.node.body if isinstance(s, ast.While)]
    ok_outer = ok_inner = joint = False
    no_overlap = False
    if len(outer) == 1:
        o = outer[0]
        ok_outer = ast.unparse(o.test).replace(' ', '') == 'i<pos' and \
            ast.unparse(o.body[-1]).replace(' ', '') == 'i+=1' and \
            ast.unparse(o.body[0]).replace(' ', '') == 'j=i'
        inner = [s for s in o.body if isinstance(s, ast.While)]
        if len(inner) == 1:
            t = inner[0].test
            conj = [ast.unparse(v).replace(' ', '') for v in (
                t.values if isinstance(t, ast.BoolOp) and
                isinstance(t.op, ast.And) else [t])]
            ok_inner = 'j-i<max_len' in conj and \
                [ast.unparse(s).replace(' ', '')
                 for s in inner[0].body] == ['j+=1'] and \
                any(c.startswith('dat[j]==dat[pos+j-i]') for c in conj)
            no_overlap = 'j<pos' in conj
        upd = [s for s in o.body if isinstance(s, ast.If)]
        if len(upd) == 1:
            # which candidate wins (first / last / longest) only affects the
            # compression ratio: any effect-free test will do, as long as
            # length and start are taken from the same (i, j)
            pure_test = not any(isinstance(x, (ast.Call, ast.NamedExpr))
                                for x in ast.walk(upd[0].test))
            joint = pure_test and not upd[0].orelse and sorted(
                ast.unparse(s).replace(' ', '') for s in upd[0].body) == \
                ['best_i=i', 'best_len=j-i']
    shape_check(ok_outer and ok_inner and joint, 'R-C05-wellformed', q,
              'match loop invariant 0 <= j - i <= max_len; best_len and '
              'best_i assigned together', '',
              'search loop shape changed: outer={} inner={} '
              'joint-update={}'.format(ok_outer, ok_inner, joint), f.loc)
    # the format allows offset < length (the decoder copies byte by byte, so a
    # reference may run into the bytes it produces): whether the search stops
    # at `pos` only affects the compression ratio -- noted, not demanded
    res.info('R-C05-wellformed', q,
             'matches {} run into the text being encoded'.format(
                 'never' if no_overlap else 'may'),
             'length <= offset for every emitted reference' if no_overlap
             else 'overlapping references (offset < length) are emitted; '
             'the format and the decoder (byte-wise copy) allow them', f.loc)
    rets = [r for r in walk_own(f.node) if isinstance(r, ast.Return)]
    off_ok = 'block_offset=pos-best_i' in src and len(rets) == 1 and \
        ast.unparse(rets[0].value).replace(' ', '').strip('()') == \
        'best_len,block_offset'
    shape_check(off_ok, 'R-C05-wellformed', q,
              'offset = pos - best_i, returned with best_len', '',
              'returned offset / length expression changed', f.loc)
    # compress_code: block emitted iff block_len >= 3
    c = model.func(CZ + ':compress_code')
    thr = None
    recognised = False
    for n_ in walk_own(c.node):
        if isinstance(n_, ast.If) and isinstance(n_.test, ast.Compare) and \
                len(n_.test.ops) == 1 and isinstance(
                    n_.test.left, ast.Name) and \
                n_.test.left.id == 'block_len':
            op = n_.test.ops[0]
            k = ev.eval_expr(mod, n_.test.comparators[0])
            if not isinstance(k, int):
                continue

            def advances(stmts):
                return any(isinstance(x, ast.AugAssign) and
                           isinstance(x.op, ast.Add) and
                           ast.unparse(x.value) == 'block_len'
                           for st in stmts for x in ast.walk(st))
            in_body, in_else = advances(n_.body), advances(n_.orelse)
            if in_body == in_else:
                continue
            recognised = True
            # the branch that emits the reference is taken iff len >= thr
            if in_body:
                thr = {ast.GtE: k, ast.Gt: k + 1}.get(type(op))
            else:
                thr = {ast.Lt: k, ast.LtE: k + 1}.get(type(op))
    if not recognised or thr is None:
        res.undecided('R-C05-wellformed', c.qual,
                      'a back-reference is emitted only for length >= 3',
                      'the test on block_len that selects between literal '
                      'and reference is not in a recognised form', c.loc)
    else:
        res.check(thr == 3, 'R-C05-wellformed', c.qual,
                  'a back-reference is emitted only for length >= 3', '',
                  'references are emitted from length {}: the format / '
                  'property require 3..17'.format(thr), c.loc)
    # interval arithmetic on the emitted bytes
    if mbl is not None and mhl is not None and n is not None and thr:
        R = ref.C_OFFSET_RADIX
        b1max = mhl // R + n
        b1min = 1 // R + n
        b2max = (R - 1) + (mbl - ref.C_LENGTH_BIAS) * R
        b2min = 0 + (thr - ref.C_LENGTH_BIAS) * R
        res.check(b1min >= ref.C_BLOCK_FIRST and b1max <= 255 and
                  0 <= b2min and b2max <= 255, 'R-C05-wellformed', c.qual,
                  'emitted block bytes stay in 0..255 and b1 >= 0x3c',
                  'b1 in [{}, {}], b2 in [{}, {}]'.format(b1min, b1max, b2min,
                                                          b2max),
                  'block bytes leave the byte range: b1 in [{}, {}], b2 in '
                  '[{}, {}]'.format(b1min, b1max, b2min, b2max), c.loc)
    adv = any(ast.unparse(s).replace(' ', '') == 'pos+=block_len'
              for s in walk_own(c.node) if isinstance(s, ast.AugAssign))
    res.check(adv, 'R-C05-wellformed', c.qual,
              'position advances by the emitted length', '',
              'pos does not advance by block_len', c.loc)
    res.require_min('R-C05-wellformed', 8)


# --------------------------------------------------------------------- copy

def rule_copy(ctx, res):
    model = ctx.model
    u = ast.unparse
    dec = model.func(CZ + ':decompress_code')
    q = dec.qual
    lp = _main_while(dec)
    if lp is None:
        res.vanished('R-C05-copy', q, 'decoder loop', 'not found')
        return
    sym, env, paths, pre = _loop_paths(ctx, dec, lp, alias_only=True)
    block_paths = [p for p in paths if any(e[0] == 'loop' for e in p.events)]
    slice_stores = [e for p in paths for e in p.events
                    if e[0] == 'store' and isinstance(e[2], ast.Slice) and
                    u(e[1]) == 'out']
    seq = None
    bounded = False
    for p in block_paths:
        lpev = [e for e in p.events if e[0] == 'loop'][0]
        inner, ienv = lpev[1], lpev[2]
        ienv2 = {k: v for k, v in ienv.items()
                 if k != 'out_i' and _alias_like(v)}
        ok = True
        n_step = 0
        for qp in sym.run(inner.body, ienv2):
            stores = [e for e in qp.events if e[0] == 'store']
            if qp.end == 'break':
                # leaving early: only allowed at the declared length
                if any(u(t).replace(' ', '') in ('out_i>=code_length',)
                       and v for (t, v) in qp.conds):
                    bounded = True
                    continue
                ok = False
                continue
            if len(stores) != 1 or u(stores[0][1]) != 'out' or \
                    u(stores[0][2]) != 'out_i' or not (
                        isinstance(stores[0][3], ast.Subscript) and
                        u(stores[0][3].value) == 'out' and
                        isinstance(stores[0][3].slice, ast.BinOp) and
                        isinstance(stores[0][3].slice.op, ast.Sub) and
                        u(stores[0][3].slice.left) == 'out_i') or \
                    u(qp.env.get('out_i')) != 'out_i + 1':
                ok = False
            else:
                n_step += 1
        if isinstance(inner, ast.While):
            full = {k: v for k, v in ienv.items()
                    if k not in ('out_i', 'code_length', 'out')}
            t = u(sym.S(inner.test, full)).replace(' ', '')
            if 'min(' in t and 'code_length' in t and t.startswith('out_i<'):
                bounded = True
        if ok and n_step >= 1:
            seq = inner
    if slice_stores:
        e = slice_stores[0]
        res.violation(
            'R-C05-copy', q, 'back-reference copied byte by byte, in '
            'increasing order',
            'the decoder copies a back-reference with one slice assignment '
            '(out[{}] = {}): for a well-formed reference with offset < '
            'length the source slice contains cells that are not written '
            'yet (literal `a` + (offset 1, length 3) decodes to `aa\\0\\0` '
            'instead of `aaaa`), and the slice store can lengthen the '
            'output'.format(u(e[2]), u(e[3])[:50]), dec.module.loc(e[-1]))
    elif seq is not None:
        res.holds('R-C05-copy', q, 'back-reference copied byte by byte, in '
                  'increasing order',
                  'out[k] = out[k - offset], k += 1 per step: correct for '
                  'overlapping references (offset < length)',
                  dec.module.loc(seq))
        res.check(bounded, 'R-C05-copy', q,
                  'copy cannot write past the declared code length', '',
                  'the copy loop is not bounded by code_length',
                  dec.module.loc(seq))
    else:
        res.undecided('R-C05-copy', q, 'copy idiom',
                      'back-reference copy is written in an idiom outside '
                      'the model', dec.loc)
    # literal paths write one byte and advance the output by one
    lit_ok = True
    n_lit = 0
    for p in paths:
        if p in block_paths:
            continue
        stores = [e for e in p.events if e[0] == 'store']
        if len(stores) == 1 and u(stores[0][1]) == 'out' and \
                u(stores[0][2]) == 'out_i' and \
                u(p.env.get('out_i')) == 'out_i + 1':
            n_lit += 1
        else:
            lit_ok = False
    res.check(lit_ok and n_lit >= 2, 'R-C05-copy', q,
              'literals write one byte each', '',
              'literal branches changed', dec.loc)
    t = u(sym.S(lp.test, env)).replace(' ', '')
    loop_ok = 'out_i<code_length' in t and 'in_i<len(codedata)' in t and \
        isinstance(lp.test, ast.BoolOp) and isinstance(lp.test.op, ast.And)
    res.check(loop_ok, 'R-C05-copy', q,
              'decoding stops at the declared length / end of data', '',
              'decoder loop condition changed: ' + t[:60], dec.loc)


def rule_post(ctx, res):
    """what `decompress_code` does to the decoded bytes before returning
    them, decided by evaluation: the function is run (concrete-control
    abstract interpreter) on hand-built well-formed streams that spell a text
    with escaped literals only (0x00 b for every byte b, header length =
    len(text)), for texts chosen to meet every post-processing step the
    function has -- ends in either compatibility suffix, begins / ends with a
    NUL byte -- and controls.  An independent decoder returns the text; so
    must picotool (the clause "picotool's decompressor agrees with that
    decoder on every well-formed stream"; the encoder's header length is the
    text length, R-C04-header, so the same texts fail the round trip)."""
    from ..absint import cx as CX
    q = CZ + ':decompress_code'
    try:
        f = ctx.model.func(q)
    except Exception:
        res.vanished('R-C05-post', q, 'function', 'decompress_code not found')
        return
    fc1 = ctx.consts.module_const(CZ, 'PICO8_FUTURE_CODE1')
    fc2 = ctx.consts.module_const(CZ, 'PICO8_FUTURE_CODE2')
    cases = [
        ('a plain text', b'x=1\nprint(x)\n'),
        ('a text that mentions _update60', b'function _update60() end\n'),
        ('a text with a NUL byte in the middle', b'a\x00b'),
        ('a text that begins with a NUL byte', b'\x00ab'),
        ('a text that ends with a NUL byte', b'ab\x00'),
    ]
    if isinstance(fc1, bytes):
        cases.append(('a text that ends with PICO8_FUTURE_CODE1',
                      b'x=1\n' + fc1))
    if isinstance(fc2, bytes):
        cases.append(('a text that ends with PICO8_FUTURE_CODE2',
                      b'x=1\n' + fc2))
    def lits(t):
        out = bytearray()
        for b in t:
            out += bytes([0, b])
        return out

    def block(offset, length):
        return bytes([offset // ref.C_OFFSET_RADIX + 0x3c,
                      (offset % ref.C_OFFSET_RADIX) | ((length - 2) << 4)])
    # streams with back-references (an independent decoder copies byte by
    # byte and stops at the header length -- picotool's own streams for code
    # that mentions _update60 end in a block that runs past it)
    blocks = [
        ('three literals and a reference that overlaps its own output '
         '(offset 3, length 5)', b'abcabcab', 8,
         lits(b'abc') + block(3, 5)),
        ('a reference that runs past the header length (offset 3, length 5, '
         'header length 6)', b'abcabc', 6, lits(b'abc') + block(3, 5)),
        ('a reference that does not overlap (offset 6, length 4)',
         b'abcdefabcd', 10, lits(b'abcdef') + block(6, 4)),
        ('a reference followed by literals', b'ababaXY', 7,
         lits(b'ab') + block(2, 3) + lits(b'XY')),
    ]
    todo = [(what, text, len(text), lits(text), True)
            for (what, text) in cases] + [
        (what, text, n, body, False) for (what, text, n, body) in blocks]
    for (what, text, hlen, body, literal_only) in todo:
        stream = bytearray(b':c:\x00') + bytes([hlen >> 8, hlen & 255, 0, 0])
        stream += body
        cxi = CX.Cx(ctx.model, ctx.consts)
        inst = ('the escaped-literal stream of {} decodes to that text '
                '(evaluated)' if literal_only else
                'a stream with {} decodes to {!r} (evaluated)').format(
                    what, text)
        try:
            paths = cxi.explore(lambda: cxi.call_function(
                f, [CX.Seq('bytearray', list(stream))], {}))
            if len(paths) != 1 or paths[0][0]:
                raise CX.CxError('control flow forks on concrete data')
            kind, val = paths[0][1]
            if kind == 'raise':
                res.violation('R-C05-post', q, inst,
                              'decompress_code raises {} on the well-formed '
                              'stream of {!r}'.format(val.tname, text),
                              f.loc, semantic=True)
                continue
            parts = cxi.items(val)
            code = parts[1] if len(parts) == 3 else None
            if isinstance(code, CX.Seq):
                code = bytes(code.items)
            if not isinstance(code, (bytes, bytearray)):
                raise CX.CxError('decompress_code returns {}'.format(
                    type(code).__name__))
        except AnalysisError as e:
            res.undecided('R-C05-post', q, inst, 'evaluation could not '
                          'follow decompress_code: ' + str(e)[:120], f.loc)
            continue
        code = bytes(code)
        res.check(code == text, 'R-C05-post', q, inst,
                  '{} bytes'.format(len(text)),
                  ('the stream 0x00-escapes the {} bytes of {!r}; an '
                   'independent decoder returns them, decompress_code '
                   'returns {!r} ({} bytes): what it strips after decoding is '
                   'part of the text' if literal_only else
                   'an independent decoder (byte-wise copy, stop at the '
                   'header length) returns the {} bytes {!r}; '
                   'decompress_code returns {!r} ({} bytes)').format(
                      len(text), text[-24:] if len(text) > 24 else text,
                      code[-24:] if len(code) > 24 else code, len(code)),
                  f.loc, semantic=True)
    res.require_min('R-C05-post', 5)


def rule_literals(ctx, res, rule_id='R-C05-format'):
    """compress_code evaluated on every one-byte text (the literal table
    lookup, its index array and the 0x00 escape, for all 256 byte values):
    the stream must be the table index of the byte, or 0x00 followed by the
    byte when the table does not hold it."""
    from ..absint import cx as CX
    q = CZ + ':compress_code'
    try:
        f = ctx.model.func(q)
    except Exception:
        res.vanished(rule_id, q, 'function', 'compress_code not found')
        return
    table = ref.C_TABLE
    bad = []
    try:
        for b in range(256):
            cxi = CX.Cx(ctx.model, ctx.consts)
            paths = cxi.explore(lambda: cxi.call_function(
                f, [bytes([b])], {}))
            if len(paths) != 1 or paths[0][0]:
                raise CX.CxError('forks on a concrete byte')
            kind, val = paths[0][1]
            if kind == 'raise':
                bad.append('text {!r} raises {}'.format(bytes([b]),
                                                        val.tname))
                continue
            got = cxi.items(val)
            if any(CX.is_sym(x) for x in got):
                raise CX.CxError('symbolic stream')
            got = bytes(got)
            want = bytes([table.index(bytes([b])) + ref.C_TABLE_FIRST_INDEX]) \
                if bytes([b]) in table else bytes([ref.C_LITERAL_ESCAPE, b])
            if got != want:
                bad.append('text {!r} is encoded as {!r} instead of {!r}'
                           .format(bytes([b]), got, want))
    except AnalysisError as e:
        res.info(rule_id, q, 'one-byte texts evaluated',
                 'not followed: ' + str(e)[:120], f.loc)
        return False
    res.check(not bad, rule_id, q,
              'every one-byte text is encoded as its table index, or as '
              '0x00 + the byte (evaluated for all 256 byte values)',
              '256 texts', '; '.join(bad[:3]) + (
                  ' (+{} more)'.format(len(bad) - 3) if len(bad) > 3 else ''),
              f.loc, semantic=True)
    return not bad


def run(ctx, res):
    lit = rule_literals(ctx, res)
    rule_format(ctx, res, literals_decided=bool(lit))
    rule_post(ctx, res)
    rule_wellformed(ctx, res)
    rule_copy(ctx, res)
    from .c04 import rule_header
    rule_header(ctx, res)
