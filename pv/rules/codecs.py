"""Codec layout extraction for C03 / C04 / C16: the .p8 section line codecs
and the .p8.png steganography, each side (writer / reader) extracted
independently with the abstract evaluator, as maps between memory bits and
file positions (hex digit d of a line, bit b of a PNG plane)."""
import ast

from ..absint.symx import (Aff, BV, NONE, ObjRef, Path, SymLine, HexText,
                           ByteList, Text, SymArray, ZERO, ONE, TOP)
from ..consteval import UNKNOWN
from ..core import AnalysisError
from ..srcmodel import walk_own, const_str
from . import layouts as LY


def _for_range(ctx, f, lp):
    """(start, stop, step) of `for v in range(...)` with constant bounds"""
    if not (isinstance(lp.iter, ast.Call) and isinstance(lp.iter.func, ast.Name)
            and lp.iter.func.id == 'range'):
        raise AnalysisError('loop is not over range()')
    vals = []
    for a in lp.iter.args:
        v = ctx.consts.eval_expr(f.module, a, {'self': None})
        vals.append(v if isinstance(v, int) else None)
    if len(vals) == 1:
        return 0, vals[0], 1
    if len(vals) == 2:
        return vals[0], vals[1], 1
    return tuple(vals)


def digits_of_text(text):
    """Text -> list of hex-digit BVs and literal bytes in order:
    [('d', BV4) | ('lit', bytes)]"""
    out = []
    for kind, v in text.parts:
        if kind == 'hex':
            out.extend(('d', d) for d in v.digits)
        else:
            out.extend(('lit', bytes([b])) for b in v)
    return out


def digit_sources(d, base):
    """4 cells (MSB first in text; cell 0 = LSB) -> list of (arr, off, bit)"""
    out = []
    for k in range(4):
        c = d.cell(k)
        if c is TOP:
            out.append(None)
        elif c.is_const():
            out.append(('const', c.const()))
        else:
            a = LY.cell_single(c)
            out.append(LY.mem_atom_pos(a, base) if a else None)
    return out


# ---------------------------------------------------------------------- sfx

def sfx_writer_layout(ctx):
    """-> dict(header=[(off,bit)*4 per digit...], note=[...], counts)"""
    q = 'pico8.sfx.sfx:Sfx.to_lines'
    f = ctx.model.func(q)
    outer = [n for n in f.node.body if isinstance(n, ast.For)]
    if len(outer) != 1:
        raise AnalysisError('Sfx.to_lines outer loop')
    outer = outer[0]
    idv = outer.target.id
    orng = _for_range(ctx, f, outer)
    inner = [n for n in outer.body if isinstance(n, ast.For)]
    if len(inner) != 1:
        raise AnalysisError('Sfx.to_lines inner loop')
    inner = inner[0]
    nv = inner.target.id
    irng = _for_range(ctx, f, inner)
    pre = outer.body[:outer.body.index(inner)]
    post = outer.body[outer.body.index(inner) + 1:]
    r = {idv: (0, 63), nv: (0, 31)}
    env = {idv: Aff.sym(idv), nv: Aff.sym(nv)}
    # header part
    ev, ps = LY.run_method(ctx, q, env, r, body=pre)
    p = [x for x in ps if not x.raised][0]
    # the list variable after the header statement
    f_env = _final_env(ctx, q, env, r, pre)
    lists = [k for k, v in f_env.items() if isinstance(v, list)]
    if len(lists) != 1:
        raise AnalysisError('Sfx.to_lines: line buffer not found')
    buf = lists[0]
    hdr_items = f_env[buf]
    base_hdr = Aff({idv: 68}, 0)
    hdr_digits = []
    for it in hdr_items:
        for kind, v in digits_of_text(_txt(it)):
            hdr_digits.append(digit_sources(v, base_hdr) if kind == 'd'
                              else ('lit', v))
    # one note
    env2 = dict(env)
    env2[buf] = []
    f_env2 = _final_env(ctx, q, env2, r, inner.body)
    base_note = Aff({idv: 68, nv: 2}, 0)
    note_digits = []
    for it in f_env2[buf]:
        for kind, v in digits_of_text(_txt(it)):
            note_digits.append(digit_sources(v, base_note) if kind == 'd'
                               else ('lit', v))
    # the yield: join(buf) + b'\n'
    ys = [n for s in post for n in walk_own(s) if isinstance(n, ast.Yield)]
    tail_ok = len(ys) == 1 and ast.unparse(ys[0].value).replace(' ', '') == \
        "b''.join({})+b'\\n'".format(buf)
    return {'patterns': orng, 'notes': irng, 'header': hdr_digits,
            'note': note_digits, 'tail_ok': tail_ok, 'func': f}


def _txt(v):
    from ..absint.symx import _as_text
    return _as_text(v)


def _final_env(ctx, qual, env, ranges, body):
    """environment after running `body` (single live path required)"""
    f = ctx.model.func(qual)
    from ..absint.symx import Evaluator
    ev = Evaluator(ctx.model, ctx.consts, f, ranges)
    e = dict(env)
    if f.cls is not None and 'self' not in e:
        e['self'] = ObjRef(f.cls)
    states = ev.block(body, e, Path(ranges))
    live = [(p, en) for (p, en, done) in states if not p.raised]
    if len(live) != 1:
        raise AnalysisError('{} live paths in {}'.format(len(live), qual))
    return live[0][1]


def sfx_reader_layout(ctx):
    q = 'pico8.sfx.sfx:Sfx.from_lines'
    f = ctx.model.func(q)
    outer = [n for n in f.node.body if isinstance(n, ast.For)]
    if len(outer) != 1:
        raise AnalysisError('Sfx.from_lines outer loop')
    outer = outer[0]
    line = outer.target.id
    inner = [n for n in outer.body if isinstance(n, ast.For)]
    if len(inner) != 1:
        raise AnalysisError('Sfx.from_lines inner loop')
    inner = inner[0]
    iv = inner.target.id
    irng = _for_range(ctx, f, inner)
    # filter on the line length
    flt = None
    for st in outer.body:
        if isinstance(st, ast.If) and 'len(' + line + ')' in ast.unparse(
                st.test) and any(isinstance(x, ast.Continue)
                                 for x in st.body):
            c = st.test
            if isinstance(c, ast.Compare) and isinstance(c.ops[0], ast.NotEq):
                flt = ctx.consts.eval_expr(f.module, c.comparators[0])
    # counters: id (outer), note (inner)
    src = ast.unparse(outer)
    id_var = note_var = None
    for st in f.node.body:
        if isinstance(st, ast.Assign) and isinstance(st.value, ast.Constant) \
                and st.value.value == 0 and isinstance(st.targets[0],
                                                       ast.Name):
            id_var = st.targets[0].id
    for st in outer.body:
        if isinstance(st, ast.Assign) and isinstance(st.value, ast.Constant) \
                and st.value.value == 0 and isinstance(st.targets[0],
                                                       ast.Name):
            note_var = st.targets[0].id
    if id_var is None or note_var is None:
        raise AnalysisError('Sfx.from_lines counters not found')
    id_inc = any(isinstance(st, ast.AugAssign) and
                 isinstance(st.target, ast.Name) and st.target.id == id_var
                 and isinstance(st.value, ast.Constant) and st.value.value == 1
                 for st in outer.body)
    note_inc = isinstance(inner.body[-1], ast.AugAssign) and \
        inner.body[-1].target.id == note_var and \
        inner.body[-1].value.value == 1
    # result object
    res_var = None
    for st in f.node.body:
        if isinstance(st, ast.Assign) and isinstance(st.value, ast.Call) and \
                'empty' in ast.unparse(st.value.func):
            res_var = st.targets[0].id
    if res_var is None:
        raise AnalysisError('Sfx.from_lines result object not found')
    cls = f.cls
    r = {id_var: (0, 63), note_var: (0, 31)}
    env = {line: SymLine('L', 169), id_var: Aff.sym(id_var),
           note_var: Aff.sym(note_var), res_var: ObjRef(cls)}
    hdr_stmts = [st for st in outer.body
                 if st is not inner and not isinstance(st, ast.If) and
                 not (isinstance(st, ast.AugAssign)) and not (
                     isinstance(st, ast.Assign) and
                     isinstance(st.value, ast.Constant))]
    ev, ps = LY.run_method(ctx, q, env, r, body=hdr_stmts)
    live = [p for p in ps if not p.raised]
    if len(live) != 1:
        raise AnalysisError('Sfx.from_lines header paths')
    hdr_stores = live[0].stores
    env2 = dict(env)
    start, stop, step = irng
    env2[iv] = Aff({note_var: step}, start)
    body = [st for st in inner.body if not isinstance(st, ast.AugAssign)]
    ev2, ps2 = LY.run_method(ctx, q, env2, r, body=body)
    live2 = [p for p in ps2 if not p.raised]
    if len(live2) != 1:
        raise AnalysisError('Sfx.from_lines note paths')
    return {'filter': flt, 'irange': irng, 'id_inc': id_inc,
            'note_inc': note_inc, 'hdr_stores': hdr_stores,
            'note_stores': live2[0].stores, 'id_var': id_var,
            'note_var': note_var, 'func': f}


def digit_atom_pos(a, note_var=None, start=None, step=None):
    """atom (('digit', name, key), bit) -> (digit index relative to the
    note's first digit or absolute, bit)"""
    src, bit = a
    if not (isinstance(src, tuple) and src[0] == 'digit'):
        return None
    pos = Aff(dict(src[2][0]), src[2][1])
    if note_var is not None:
        rel = pos - Aff({note_var: step}, start)
        if rel.is_const():
            return ('note', rel.const, bit)
    if pos.is_const():
        return ('abs', pos.const, bit)
    return None


# -------------------------------------------------------------------- music

def music_writer_layout(ctx):
    q = 'pico8.music.music:Music.to_lines'
    f = ctx.model.func(q)
    loops = [n for n in f.node.body if isinstance(n, ast.For)]
    if len(loops) != 1:
        raise AnalysisError('Music.to_lines loop')
    lp = loops[0]
    if not (isinstance(lp.iter, ast.Call) and
            isinstance(lp.iter.func, ast.Name) and
            lp.iter.func.id == 'range' and isinstance(lp.target, ast.Name)):
        raise AnalysisError('Music.to_lines loop header')
    # the pattern loop: either the byte offset (step s over len(data)) or the
    # pattern number (len(data) // s)
    args = lp.iter.args
    ln = 'len(self._data)'
    step = None
    if len(args) == 3 and ast.unparse(args[1]) == ln and \
            ctx.consts.eval_expr(f.module, args[0]) == 0:
        step = ctx.consts.eval_expr(f.module, args[2])
        mult = step
    elif len(args) == 1 and isinstance(args[0], ast.BinOp) and \
            isinstance(args[0].op, ast.FloorDiv) and \
            ast.unparse(args[0].left) == ln:
        step = ctx.consts.eval_expr(f.module, args[0].right)
        mult = 1
    if not isinstance(step, int):
        raise AnalysisError('Music.to_lines loop header: ' +
                            ast.unparse(lp.iter)[:50])
    v = lp.target.id
    env = {v: Aff({'k': mult}, 0)}
    ev, ps = LY.run_method(ctx, q, env, {'k': (0, 63)}, body=lp.body)
    live = [p for p in ps if not p.raised]
    if not live or any(len(p.yields) != 1 for p in live):
        raise AnalysisError('Music.to_lines yield')
    base = Aff({'k': step}, 0)
    lines = []
    for p in live:
        items = digits_of_text(_txt(p.yields[0]))
        out = []
        for kind, val in items:
            out.append(digit_sources(val, base) if kind == 'd'
                       else ('lit', val))
        lines.append(([a for a in p.assume if isinstance(a, tuple) and
                       len(a) == 2], out))
    return {'step': step, 'line': lines[0][1], 'lines': lines, 'func': f}


def music_reader_layout(ctx):
    q = 'pico8.music.music:Music.from_lines'
    f = ctx.model.func(q)
    loops = [n for n in f.node.body if isinstance(n, ast.For)]
    if len(loops) != 1:
        raise AnalysisError('Music.from_lines loop')
    lp = loops[0]
    line = lp.target.id
    # split into two symbolic hex texts
    split = None
    for st in lp.body:
        if isinstance(st, ast.Assign) and isinstance(st.value, ast.Call) and \
                isinstance(st.value.func, ast.Attribute) and \
                st.value.func.attr == 'split' and \
                isinstance(st.targets[0], ast.Tuple):
            split = st
    if split is None:
        raise AnalysisError('Music.from_lines split')
    sep = const_str(split.value.args[0]) if split.value.args else None
    a, b = [t.id for t in split.targets[0].elts]
    body = lp.body[lp.body.index(split) + 1:]
    out = []
    hooks = {'append': lambda ev_, e, en, pa: (out.append(
        ev_.to_bv(ev_.ev(e.args[0], en, pa))) or NONE)}
    env = {a: SymLine('F', 2), b: SymLine('C', 8)}
    ev, ps = LY.run_method(ctx, q, env, {}, body=body, hooks=hooks)
    flt = any(isinstance(st, ast.If) and "find(b' ')" in ast.unparse(st.test)
              for st in lp.body)
    return {'sep': sep, 'bytes': out, 'filter': flt, 'func': f}


# ---------------------------------------------------------------------- gfx

def gfx_writer_layout(ctx):
    """digit pair (2k, 2k+1) of a row <- nibbles of memory byte k"""
    q = 'pico8.gfx.gfx:Gfx.to_lines'
    f = ctx.model.func(q)
    outer = [n for n in f.node.body if isinstance(n, ast.For)]
    if len(outer) != 1:
        raise AnalysisError('Gfx.to_lines loop')
    outer = outer[0]
    inner = [n for n in outer.body if isinstance(n, ast.For)]
    if len(inner) != 1:
        raise AnalysisError('Gfx.to_lines inner loop')
    inner = inner[0]
    # for b in self._data[start_i:end_i]: newdata.append(T(b))
    it = ast.unparse(inner.iter).replace(' ', '')
    seq_ok = it.startswith('self._data[') and it.endswith(']') and ':' in it
    bvar = inner.target.id
    calls = [c for s in inner.body for c in walk_own(s)
             if isinstance(c, ast.Call) and isinstance(c.func, ast.Attribute)
             and c.func.attr == 'append']
    if len(calls) != 1 or len(inner.body) != 1:
        raise AnalysisError('Gfx.to_lines transform')
    from ..absint.symx import Evaluator
    ev = Evaluator(ctx.model, ctx.consts, f, {})
    env = {bvar: BV.source(('byte', 'b'), 8)}
    T = ev.to_bv(ev.ev(calls[0].args[0], env, Path()))
    hi = [LY.cell_single(T.cell(k)) for k in range(4, 8)]
    lo = [LY.cell_single(T.cell(k)) for k in range(0, 4)]
    # text digits: hi nibble of T first, then lo nibble of T
    digit0 = [a[1] if a and a[0] == ('byte', 'b') else None for a in hi]
    digit1 = [a[1] if a and a[0] == ('byte', 'b') else None for a in lo]
    ys = [n for s in outer.body for n in walk_own(s)
          if isinstance(n, ast.Yield)]
    yt = ast.unparse(ys[0].value).replace(' ', '') if len(ys) == 1 else ''
    hexed = 'util.bytes_to_hex(bytes(newdata))' in yt and \
        yt.endswith("+b'\\n'")
    step = ast.unparse(outer.iter.args[2]) if isinstance(
        outer.iter, ast.Call) and len(outer.iter.args) == 3 else None
    return {'digit0_bits': digit0, 'digit1_bits': digit1, 'seq_ok': seq_ok,
            'hexed': hexed, 'step': step, 'func': f,
            'width': T.width}


def gfx_reader_layout(ctx):
    q = 'pico8.gfx.gfx:Gfx.from_lines'
    f = ctx.model.func(q)
    outer = [n for n in f.node.body if isinstance(n, ast.For)]
    if len(outer) != 1:
        raise AnalysisError('Gfx.from_lines loop')
    outer = outer[0]
    flt = None
    for st in outer.body:
        if isinstance(st, ast.If) and any(isinstance(x, ast.Continue)
                                          for x in st.body):
            c = st.test
            if isinstance(c, ast.Compare) and isinstance(c.ops[0], ast.NotEq) \
                    and 'len(' in ast.unparse(c.left):
                flt = ctx.consts.eval_expr(f.module, c.comparators[0])
    swap = None
    for st in outer.body:
        if isinstance(st, ast.For):
            rng = _for_range(ctx, f, st)
            body = st.body
            if len(body) == 1 and isinstance(body[0], ast.Assign) and \
                    isinstance(body[0].targets[0], ast.Tuple) and \
                    isinstance(body[0].value, ast.Tuple):
                t = [ast.unparse(x).replace(' ', '')
                     for x in body[0].targets[0].elts]
                v = [ast.unparse(x).replace(' ', '')
                     for x in body[0].value.elts]
                i = st.target.id
                arr = t[0].split('[')[0]
                if t == [arr + '[' + i + ']', arr + '[' + i + '+1]'] and \
                        v == [t[1], t[0]]:
                    swap = rng
    src = ast.unparse(outer).replace(' ', '')
    fromhex = 'bytearray.fromhex(' in src or 'bytes.fromhex(' in src
    listed = 'list(line.rstrip())' in src
    return {'filter': flt, 'swap': swap, 'fromhex': fromhex,
            'listed': listed, 'func': f}


# ---------------------------------------------------------------------- png

def png_reader_layout(ctx):
    """pico byte bit k <- (plane, bit)"""
    q = 'pico8.game.formatter.p8png:get_picodata_from_pngdata'
    f = ctx.model.func(q)
    inner = None
    for n in walk_own(f.node):
        if isinstance(n, ast.For) and isinstance(n.target, ast.Name) and \
                n.target.id == 'col_i':
            inner = n
    if inner is None:
        raise AnalysisError('pngdata reader loop')
    env = {'picodata': SymArray('pico', 8, init_zero=True),
           'row': SymArray('row', 8), 'attrs': {'planes': 4},
           'col_i': Aff.sym('col_i'), 'row_i': Aff.sym('row_i'),
           'width': 128}
    r = {'col_i': (0, 127), 'row_i': (0, 204)}
    ev, ps = LY.run_method(ctx, q, env, r, body=inner.body)
    live = [p for p in ps if not p.raised]
    if len(live) != 1 or not live[0].stores:
        raise AnalysisError('pngdata reader paths')
    (arr, idx, bv, node) = live[0].stores[-1]
    base = Aff({'col_i': 4}, 0)
    out = []
    for k in range(8):
        a = LY.cell_single(bv.cell(k))
        pos = LY.mem_atom_pos(a, base) if a else None
        out.append((pos[1], pos[2]) if pos and pos[0] == 'row' else None)
    idx_ok = idx == Aff({'row_i': 128, 'col_i': 1}, 0)
    return {'bits': out, 'index_ok': idx_ok, 'func': f,
            'width': bv.width}


def png_writer_layout(ctx):
    """(plane, bit) of the written pixel <- pico bit | original row bit"""
    q = 'pico8.game.formatter.p8png:get_pngdata_from_picodata'
    f = ctx.model.func(q)
    target = None
    for n in walk_own(f.node):
        if isinstance(n, ast.If) and 'len(picodata)' in ast.unparse(n.test):
            target = n
    if target is None:
        raise AnalysisError('pngdata writer branch')
    env = {'picodata': SymArray('pico', 8), 'row': SymArray('row', 8),
           'new_row': SymArray('new', 8), 'planes': 4,
           'col_i': Aff.sym('col_i'), 'pix': Aff.sym('pix')}
    r = {'col_i': (0, 127), 'pix': (0, 0x8000)}
    # rewrite the linear pixel index expression to one symbol
    body = []
    for st in target.body:
        body.append(st)
    hooks = {}
    # picodata[row_i * width + col_i] -> bind row_i*width+col_i symbolically
    env['row_i'] = Aff({}, 0)
    env['width'] = Aff({}, 0)
    ev, ps = LY.run_method(ctx, q, env, r, body=body)
    live = [p for p in ps if not p.raised]
    if len(live) != 1:
        raise AnalysisError('pngdata writer paths')
    base = Aff({'col_i': 4}, 0)
    planes = {}
    for (arr, idx, bv, node) in live[0].stores:
        d = idx - base
        if arr != 'new' or not d.is_const():
            continue
        cells = []
        for k in range(8):
            a = LY.cell_single(bv.cell(k))
            if a is None:
                cells.append(None)
                continue
            src, bit = a
            if src[0] == 'mem' and src[1] == 'row':
                off = (Aff(dict(src[2][0]), src[2][1]) - base)
                cells.append(('row', off.const if off.is_const() else None,
                              bit))
            elif src[0] == 'mem' and src[1] == 'pico':
                cells.append(('pico', bit))
            else:
                cells.append(None)
        planes[d.const] = cells
    # else branch: plain copy
    copy_ok = False
    if target.orelse:
        src = ast.unparse(target.orelse[0]).replace(' ', '')
        copy_ok = 'new_row[col_i*planes+n]=row[col_i*planes+n]' in src and \
            'range(4)' in src
    test_ok = ast.unparse(target.test).replace(' ', '') == \
        'row_i*width+col_i<len(picodata)'
    return {'planes': planes, 'copy_ok': copy_ok, 'test_ok': test_ok,
            'func': f}


def png_memory_order(ctx):
    """writer join order and reader slice table of the .p8.png image"""
    model = ctx.model
    w = model.func('pico8.game.formatter.p8png:P8PNGFormatter.to_file')
    from ..absint.symbody import SymBody, list_contents
    order = None
    sym = SymBody(ctx, w, max_paths=800)
    try:
        wpaths = sym.run(w.node.body)
    except AnalysisError:
        wpaths = []
    for p in wpaths:
        elts = None
        exprs = []
        for k, e in enumerate(p.events):
            for x in e[1:-1]:
                if isinstance(x, ast.AST):
                    exprs.append((k, x))
        for v in p.env.values():
            exprs.append((len(p.events), v))
        for (k, x) in exprs:
            for n in ast.walk(x):
                if isinstance(n, ast.Call) and \
                        isinstance(n.func, ast.Attribute) and \
                        n.func.attr == 'join' and n.args and \
                        const_str(n.func.value) == b'':
                    a = n.args[0]
                    if isinstance(a, (ast.Tuple, ast.List)) and \
                            len(a.elts) >= 6:
                        elts = list(a.elts)
                    elif isinstance(a, ast.Name):
                        got = list_contents(sym, p, a.id, upto=k)
                        if got is not None and len(got) >= 6:
                            elts = got
        if elts is None:
            continue
        order = []
        for e in elts:
            t = ast.unparse(e).replace(' ', '')
            if t.startswith('game.') and t.endswith('.to_bytes()'):
                order.append(t[len('game.'):-len('.to_bytes()')])
            elif 'game.version' in t:
                order.append('version')
            elif 'get_bytes_from_code' in t or t == 'code_bytes':
                order.append('code')
            else:
                order.append('?' + t[:30])
        break
    r = model.func('pico8.game.formatter.p8png:get_raw_data_from_p8png_file')
    slices = {}
    for n in walk_own(r.node):
        if isinstance(n, ast.Assign) and isinstance(n.value, ast.Subscript) \
                and isinstance(n.value.value, ast.Name) and \
                n.value.value.id == 'picodata' and \
                isinstance(n.targets[0], ast.Attribute):
            sl = n.value.slice
            if isinstance(sl, ast.Slice):
                lo = ctx.consts.eval_expr(r.module, sl.lower)
                hi = ctx.consts.eval_expr(r.module, sl.upper)
                slices[n.targets[0].attr] = (lo, hi)
            else:
                slices[n.targets[0].attr] = (
                    ctx.consts.eval_expr(r.module, sl), None)
    fr = model.func('pico8.game.formatter.p8png:P8PNGFormatter.from_file')
    consumers = {}
    for n in walk_own(fr.node):
        if isinstance(n, ast.Assign) and isinstance(n.value, ast.Call) and \
                isinstance(n.targets[0], ast.Attribute):
            c = n.value
            fn = ast.unparse(c.func)
            if fn.endswith('.from_bytes') and c.args and \
                    isinstance(c.args[0], ast.Attribute):
                consumers[n.targets[0].attr] = (fn.split('.')[0],
                                                c.args[0].attr)
    return {'order': order, 'slices': slices, 'consumers': consumers,
            'writer': w, 'reader': r}
