"""C17 fallback: section accessors decided by whole-method evaluation.

When the symbolic analysis of an accessor (all argument values at once) cannot
follow the code, the accessor is evaluated with absint/cx.py instead: region
memory is symbolic (every bit a named source), the addressing arguments take a
fixed set of concrete values (listed per accessor: first / second / last ids,
both sides of every boundary), field values are symbolic bit vectors of the
field's width.  The result is compared with the reference model of the
PICO-8 memory layout: the getter returns the addressed bits, the setter
changes exactly the addressed bits.  Exhaustive over memory contents and
field values, sampled over addresses -- stated as such in the evidence.
"""
import operator

from ..absint import cx as CX
from ..absint.symx import BV, ZERO, ONE
from ..core import AnalysisError
from ..refs import formats as ref


def _mem(name, n):
    return [BV.source(('mem', name, k), 8) for k in range(n)]


def _b8(x):
    if isinstance(x, BV):
        return BV(list(x.cells) + [ZERO] * (8 - len(x.cells)))
    if isinstance(x, bool):
        x = int(x)
    return BV.const(x, 8)


def _same_list(got, want):
    if len(got) != len(want):
        return 'the region has {} bytes afterwards instead of {}'.format(
            len(got), len(want))
    if all(map(operator.is_, got, want)):
        return None
    for i, (x, y) in enumerate(zip(got, want)):
        if x is y:
            continue
        if _b8(x) != _b8(y):
            return 'byte {} becomes {} instead of {}'.format(i, _b8(x),
                                                             _b8(y))
    return None


def _same_list_under(got, want, cons):
    """like _same_list, but a differing bit is accepted when it is equal
    under the path condition cons (cxcodecs constraints)"""
    from . import cxcodecs as XC
    if len(got) != len(want):
        return 'the region has {} bytes afterwards instead of {}'.format(
            len(got), len(want))
    for i, (x, y) in enumerate(zip(got, want)):
        if x is y:
            continue
        xb, yb = _b8(x), _b8(y)
        if xb == yb:
            continue
        for k in range(8):
            if xb.cell(k) != yb.cell(k) and not XC._equal_under(
                    xb.cell(k), yb.cell(k), cons):
                return 'byte {} becomes {} instead of {} (when {})'.format(
                    i, xb, yb, XC.describe_constraints(cons))
    return None


class Acc:
    def __init__(self, ctx, cls_qual, size, name):
        self.ctx = ctx
        self.cls = ctx.model.cls(cls_qual)
        self.cx = CX.Cx(ctx.model, ctx.consts)
        self.mem = _mem(name, size)
        self.calls = 0

    def obj(self, mem=None, **attrs):
        o = CX.Obj(self.cls)
        o.attrs['_data'] = CX.Seq('bytearray', list(mem or self.mem))
        o.attrs['_version'] = 8
        o.attrs.update(attrs)
        return o

    def call(self, o, meth, args, kwargs=None, allow_fork=False):
        """-> [(conds, ('ok', value) | ('raise', name))] with o mutated by the
        LAST explored path (callers that allow forks re-create o per path)"""
        self.calls += 1
        cxi = self.cx
        snap = list(o.attrs['_data'].items)

        def go():
            o.attrs['_data'].items[:] = snap
            return cxi.call(cxi.getattr(o, meth), list(args),
                            dict(kwargs or {}))
        paths = cxi.explore(go)
        paths = [(c, r) for (c, r) in paths
                 if not (r[0] == 'raise' and r[1].tname == 'AssertionError'
                         and r[1].args_ == ('assumed away',))]
        if not allow_fork and (len(paths) != 1 or paths[0][0]):
            raise CX.CxError('{} branches on memory contents'.format(meth))
        return paths


def call_paths(acc, o, meth, args, kwargs=None):
    """every path of the call that tests content / argument bits:
    -> [(constraints, ('ok', v) | ('raise', e), region bytes afterwards)]"""
    from . import cxcodecs as XC
    acc.calls += 1
    cxi = acc.cx
    snap = list(o.attrs['_data'].items)
    after = []

    def go():
        o.attrs['_data'].items[:] = snap
        try:
            return cxi.call(cxi.getattr(o, meth), list(args),
                            dict(kwargs or {}))
        finally:
            after.append(list(o.attrs['_data'].items))
    paths = cxi.explore(go)
    out = []
    for (c, r), mem in zip(paths, after):
        if r[0] == 'raise' and r[1].tname == 'AssertionError' and \
                r[1].args_ == ('assumed away',):
            continue
        cons = XC.constraints_of(c)
        if cons is None:
            raise CX.CxError('{} branches on a value that is not a bit '
                             'test'.format(meth))
        out.append((cons, r, mem))
    return out


def field_bv(name, width):
    return BV.source(('arg', name), width)


# ---------------------------------------------------------------------- sfx

def eval_sfx(ctx, size):
    """-> [(rule, method, instance, problem or None)]"""
    out = []
    a = Acc(ctx, 'pico8.sfx.sfx:Sfx', size, 'sfx')
    bits = ref.SFX_NOTE_BITS
    fields = ['pitch', 'waveform', 'volume', 'effect']
    ids = (0, 1, 63)
    notes = (0, 1, 31)

    def word_bit(mem, base, k):
        return mem[base + (k // 8)].cell(k % 8)
    # get_note
    prob = None
    for i in ids:
        for n in notes:
            base = i * ref.SFX_BYTES + 2 * n
            (c, r), = a.call(a.obj(), 'get_note', [i, n])
            if r[0] == 'raise':
                prob = 'get_note({}, {}) raises {}'.format(i, n, r[1].tname)
                break
            vals = a.cx.items(r[1])
            if len(vals) != 4:
                prob = 'get_note returns {} values'.format(len(vals))
                break
            for f, v in zip(fields, vals):
                want = BV([word_bit(a.mem, base, k) for k in bits[f]])
                got = v if isinstance(v, BV) else BV.const(int(v))
                if got != want:
                    prob = ('get_note({}, {}): {} is {} instead of note '
                            'word bits {}'.format(i, n, f, got, bits[f]))
                    break
            if prob:
                break
        if prob:
            break
    out.append(('R-C17-inverse', 'get_note', 'get_note reads the note word '
                'bits of the format', prob))
    # set_note: all fields, and each field alone
    prob = None
    for i in ids:
        for n in notes:
            base = i * ref.SFX_BYTES + 2 * n
            for chosen in ([fields] + [[f] for f in fields]):
                kw = {f: field_bv(f, len(bits[f])) for f in chosen}
                o = a.obj()
                want = list(a.mem)
                cells = {k: word_bit(a.mem, base, k) for k in range(16)}
                for f in chosen:
                    for j, k in enumerate(bits[f]):
                        cells[k] = kw[f].cell(j)
                want[base] = BV([cells[k] for k in range(8)])
                want[base + 1] = BV([cells[k] for k in range(8, 16)])
                for (cons, r, mem) in call_paths(a, o, 'set_note', [i, n],
                                                 kw):
                    if r[0] == 'raise':
                        prob = 'set_note({}, {}, {}) raises {}'.format(
                            i, n, chosen, r[1].tname)
                        break
                    d = _same_list_under(mem, want, cons)
                    if d:
                        prob = 'set_note({}, {}, {}): {}'.format(
                            i, n, '/'.join(chosen), d)
                        break
                if prob:
                    break
            if prob:
                break
        if prob:
            break
    out.append(('R-C17-frame', 'set_note', 'set_note changes the bits of '
                'the given fields and nothing else', prob))
    # properties
    props = ref.SFX_LINE_HEADER_ORDER
    prob = None
    for i in ids:
        base = i * ref.SFX_BYTES
        (c, r), = a.call(a.obj(), 'get_properties', [i])
        if r[0] == 'raise':
            prob = 'get_properties({}) raises {}'.format(i, r[1].tname)
            break
        vals = a.cx.items(r[1])
        want = [a.mem[base + ref.SFX_HEADER_OFFSETS[p]] for p in props]
        if len(vals) != 4 or any(_b8(x) != _b8(y)
                                 for x, y in zip(vals, want)):
            prob = 'get_properties({}) does not return bytes 64..67 in the ' \
                   'order {}'.format(i, props)
            break
    out.append(('R-C17-inverse', 'get_properties', 'get_properties reads '
                'bytes 64..67 of the pattern', prob))
    prob = None
    for i in ids:
        base = i * ref.SFX_BYTES
        for chosen in ([props] + [[p] for p in props]):
            kw = {p: field_bv(p, 8) for p in chosen}
            o = a.obj()
            (c, r), = a.call(o, 'set_properties', [i], kw)
            if r[0] == 'raise':
                prob = 'set_properties({}, {}) raises {}'.format(
                    i, chosen, r[1].tname)
                break
            want = list(a.mem)
            for p in chosen:
                want[base + ref.SFX_HEADER_OFFSETS[p]] = kw[p]
            d = _same_list(o.attrs['_data'].items, want)
            if d:
                prob = 'set_properties({}, {}): {}'.format(
                    i, '/'.join(chosen), d)
                break
        if prob:
            break
    out.append(('R-C17-frame', 'set_properties', 'set_properties stores the '
                'given bytes and nothing else', prob))
    return out, a.calls


# -------------------------------------------------------------------- music

def eval_music(ctx, size):
    out = []
    a = Acc(ctx, 'pico8.music.music:Music', size, 'music')
    ids = (0, 1, 63)
    prob = None
    for i in ids:
        for ch in range(4):
            loc = i * 4 + ch
            for bit6 in (0, 1):
                m = list(a.mem)
                cells = list(a.mem[loc].cells)
                cells[6] = ONE if bit6 else ZERO
                m[loc] = BV(cells)
                (c, r), = a.call(a.obj(m), 'get_channel', [i, ch])
                if r[0] == 'raise':
                    prob = 'get_channel({}, {}) raises {}'.format(
                        i, ch, r[1].tname)
                elif bit6 and r[1] is not None:
                    prob = ('get_channel({}, {}) returns {} for a silent '
                            'channel (bit 6 set) instead of None'.format(
                                i, ch, r[1]))
                elif not bit6:
                    want = BV(cells[:6])
                    got = r[1] if isinstance(r[1], BV) else (
                        BV.const(r[1]) if isinstance(r[1], int) else None)
                    if got is None or got != want:
                        prob = ('get_channel({}, {}) returns {} instead of '
                                'the low six bits of byte {}'.format(
                                    i, ch, r[1], loc))
                if prob:
                    break
            if prob:
                break
        if prob:
            break
    out.append(('R-C17-inverse', 'get_channel', 'get_channel reads the '
                'pattern bits of the addressed byte; silent = None', prob))
    prob = None
    for i in ids:
        for ch in range(4):
            loc = i * 4 + ch
            for pat in (field_bv('pattern', 6), None):
                o = a.obj()
                (c, r), = a.call(o, 'set_channel', [i, ch, pat])
                if r[0] == 'raise':
                    prob = 'set_channel({}, {}, ..) raises {}'.format(
                        i, ch, r[1].tname)
                    break
                want = list(a.mem)
                keep7 = a.mem[loc].cell(7)
                if pat is None:
                    v = BV.const(0x41 + ch, 7)
                    want[loc] = BV(list(v.cells) + [keep7])
                else:
                    want[loc] = BV([pat.cell(k) for k in range(6)] +
                                   [ZERO, keep7])
                d = _same_list(o.attrs['_data'].items, want)
                if d:
                    prob = 'set_channel({}, {}, {}): {}'.format(
                        i, ch, 'None' if pat is None else 'pattern', d)
                    break
            if prob:
                break
        if prob:
            break
    out.append(('R-C17-frame', 'set_channel', 'set_channel stores the '
                'pattern (silent: 0x41 + channel), keeps bit 7 and every '
                'other byte', prob))
    prob = None
    for i in ids:
        for combo in range(8):
            m = list(a.mem)
            flags = [(combo >> k) & 1 for k in range(3)]
            for k in range(3):
                cells = list(a.mem[i * 4 + k].cells)
                cells[7] = ONE if flags[k] else ZERO
                m[i * 4 + k] = BV(cells)
            (c, r), = a.call(a.obj(m), 'get_properties', [i])
            if r[0] == 'raise':
                prob = 'get_properties({}) raises {}'.format(i, r[1].tname)
                break
            vals = a.cx.items(r[1])
            got = [bool(x) if isinstance(x, (bool, int)) else x
                   for x in vals]
            if got != [bool(f) for f in flags]:
                prob = ('get_properties({}) returns {} when bit 7 of bytes '
                        '0..2 is {}'.format(i, vals, flags))
                break
        if prob:
            break
    out.append(('R-C17-inverse', 'get_properties', 'music get_properties '
                'reads bit 7 of bytes 0..2', prob))
    prob = None
    names = ('begin', 'end', 'stop')
    for i in ids:
        for combo in range(27):
            vals = []
            c = combo
            for _k in range(3):
                vals.append((None, True, False)[c % 3])
                c //= 3
            o = a.obj()
            (cc, r), = a.call(o, 'set_properties', [i],
                              dict(zip(names, vals)))
            if r[0] == 'raise':
                prob = 'set_properties({}, {}) raises {}'.format(
                    i, vals, r[1].tname)
                break
            want = list(a.mem)
            for k, v in enumerate(vals):
                if v is None:
                    continue
                cells = list(a.mem[i * 4 + k].cells)
                cells[7] = ONE if v else ZERO
                want[i * 4 + k] = BV(cells)
            d = _same_list(o.attrs['_data'].items, want)
            if d:
                prob = 'set_properties({}, begin/end/stop={}): {}'.format(
                    i, vals, d)
                break
        if prob:
            break
    out.append(('R-C17-frame', 'set_properties', 'music set_properties '
                'changes bit 7 of the given bytes only', prob))
    return out, a.calls


# ---------------------------------------------------------------------- gff

def eval_gff(ctx, size):
    out = []
    a = Acc(ctx, 'pico8.gff.gff:Gff', size, 'gff')
    ids = (0, 1, 255)
    masks = (0, 1, 2, 0x80, 0x55, 0xaa, 0xff, 0x1ff)

    def apply(m, fn):
        return BV([fn(k, m.cell(k)) for k in range(8)])
    specs = {
        'set_flags': lambda f: (lambda k, c: ONE if (f >> k) & 1 else c),
        'clear_flags': lambda f: (lambda k, c: ZERO if (f >> k) & 1 else c),
        'reset_flags': lambda f: (lambda k, c: ONE if (f >> k) & 1
                                  else ZERO),
    }
    prob = None
    for i in ids:
        for f in masks:
            (c, r), = a.call(a.obj(), 'get_flags', [i, f])
            if r[0] == 'raise':
                prob = 'get_flags({}, 0x{:x}) raises {}'.format(
                    i, f, r[1].tname)
                break
            want = apply(a.mem[i], lambda k, c: c if (f >> k) & 1 else ZERO)
            if _b8(r[1]) != want:
                prob = 'get_flags({}, 0x{:x}) returns {}'.format(i, f, r[1])
                break
        if prob:
            break
    out.append(('R-C17-inverse', 'get_flags', 'get_flags returns the '
                'selected bits of the sprite\'s byte', prob))
    for meth, spec in specs.items():
        prob = None
        for i in ids:
            for f in masks:
                o = a.obj()
                (c, r), = a.call(o, meth, [i, f])
                if r[0] == 'raise':
                    prob = '{}({}, 0x{:x}) raises {}'.format(
                        meth, i, f, r[1].tname)
                    break
                want = list(a.mem)
                want[i] = apply(a.mem[i], spec(f))
                d = _same_list(o.attrs['_data'].items, want)
                if d:
                    prob = '{}({}, 0x{:x}): {}'.format(meth, i, f, d)
                    break
            if prob:
                break
        out.append(('R-C17-frame', meth, '{} changes the selected flag bits '
                    'of the sprite\'s byte and nothing else'.format(meth),
                    prob))
    return out, a.calls


# ---------------------------------------------------------------------- map

def eval_map_cells(ctx, map_size, gfx_size):
    out = []
    a = Acc(ctx, 'pico8.map.map:Map', map_size, 'map')
    gcls = ctx.model.cls('pico8.gfx.gfx:Gfx')
    gmem = _mem('gfx', gfx_size)
    cells = [(0, 0), (127, 0), (5, 31), (5, 32), (0, 33), (127, 63),
             (64, 40)]

    def mk():
        g = CX.Obj(gcls)
        g.attrs['_data'] = CX.Seq('bytearray', list(gmem))
        g.attrs['_version'] = 8
        return a.obj(_gfx=g), g

    def place(x, y):
        if y <= 31:
            return 'map', y * 128 + x
        return 'gfx', 4096 + (y - 32) * 128 + x
    prob = None
    for (x, y) in cells:
        o, g = mk()
        (c, r), = a.call(o, 'get_cell', [x, y])
        if r[0] == 'raise':
            prob = 'get_cell({}, {}) raises {}'.format(x, y, r[1].tname)
            break
        reg, off = place(x, y)
        want = (a.mem if reg == 'map' else gmem)[off]
        if _b8(r[1]) != want:
            prob = 'get_cell({}, {}) returns {} instead of {} byte {}' \
                .format(x, y, r[1], reg, off)
            break
    out.append(('R-C17-inverse', 'get_cell', 'get_cell reads map[y*128+x] '
                'for y<=31 and gfx[4096+(y-32)*128+x] below', prob))
    prob = None
    val = field_bv('val', 8)
    for (x, y) in cells:
        o, g = mk()
        (c, r), = a.call(o, 'set_cell', [x, y, val])
        if r[0] == 'raise':
            prob = 'set_cell({}, {}) raises {}'.format(x, y, r[1].tname)
            break
        reg, off = place(x, y)
        wm, wg = list(a.mem), list(gmem)
        (wm if reg == 'map' else wg)[off] = val
        d = _same_list(o.attrs['_data'].items, wm) or \
            _same_list(g.attrs['_data'].items, wg)
        if d:
            prob = 'set_cell({}, {}): {}'.format(x, y, d)
            break
    out.append(('R-C17-frame', 'set_cell', 'set_cell stores the value in '
                'the addressed byte of map / shared gfx memory only', prob))
    return out, a.calls


def eval_extremes(ctx, sizes):
    """every setter accepts the smallest and the largest value of each
    documented range (a symbolic value hides an assertion that was narrowed:
    the evaluator takes assertions on symbolic values as assumptions)"""
    out = []
    calls = 0
    specs = [
        ('pico8.sfx.sfx:Sfx', 'sfx', sizes.get('sfx', 4352), 'set_note', [
            ([0, 0], dict(pitch=0, waveform=0, volume=0, effect=0)),
            ([63, 31], dict(pitch=63, waveform=15, volume=7, effect=7)),
            ([63, 31], dict(pitch=63)), ([0, 0], dict(waveform=15)),
            ([0, 0], dict(volume=7)), ([0, 0], dict(effect=7))], {}),
        ('pico8.sfx.sfx:Sfx', 'sfx', sizes.get('sfx', 4352),
         'set_properties', [
             ([0], dict(editor_mode=0, note_duration=0, loop_start=0,
                        loop_end=0)),
             ([63], dict(editor_mode=255, note_duration=255, loop_start=255,
                         loop_end=255))], {}),
        ('pico8.music.music:Music', 'music', sizes.get('music', 256),
         'set_channel', [([0, 0, 0], {}), ([63, 3, 63], {}),
                         ([63, 3, None], {})], {}),
        ('pico8.gff.gff:Gff', 'gff', sizes.get('gff', 256), 'set_flags',
         [([0, 0], {}), ([255, 255], {})], {}),
    ]
    for (cls, name, size, meth, argsets, _x) in specs:
        a = Acc(ctx, cls, size, name)
        prob = None
        for (args, kw) in argsets:
            o = a.obj()
            try:
                paths = a.call(o, meth, args, kw, allow_fork=True)
            except AnalysisError:
                raise
            calls += 1
            for (c, r) in paths:
                if r[0] == 'raise':
                    prob = '{}({}{}) raises {}'.format(
                        meth, ', '.join(map(str, args)),
                        ''.join(', {}={}'.format(k, v)
                                for k, v in kw.items()), r[1].tname)
                    break
            if prob:
                break
        out.append(('R-C17-inverse', meth, '{} accepts both ends of every '
                    'documented range'.format(meth), prob))
    # map cells: both ends of the value range at both ends of the grid
    a = Acc(ctx, 'pico8.map.map:Map', sizes.get('map', 4096), 'map')
    gcls = ctx.model.cls('pico8.gfx.gfx:Gfx')
    gmem = _mem('gfx', sizes.get('gfx', 8192))
    prob = None
    for (x, y, v) in ((0, 0, 0), (127, 31, 255), (0, 32, 255),
                      (127, 63, 255), (127, 63, 0)):
        g = CX.Obj(gcls)
        g.attrs['_data'] = CX.Seq('bytearray', list(gmem))
        g.attrs['_version'] = 8
        o = a.obj(_gfx=g)
        calls += 1
        for (c, r) in a.call(o, 'set_cell', [x, y, v], allow_fork=True):
            if r[0] == 'raise':
                prob = 'set_cell({}, {}, {}) raises {}'.format(x, y, v,
                                                               r[1].tname)
        if prob:
            break
    out.append(('R-C17-inverse', 'set_cell', 'set_cell accepts both ends of '
                'every documented range', prob))
    return out, calls


def eval_map_rects(ctx, map_size, gfx_size):
    """get_rect_tiles / set_rect_tiles on symbolic map and shared gfx memory
    for rectangles at and across the edges of the 128 x 64 grid"""
    out = []
    a = Acc(ctx, 'pico8.map.map:Map', map_size, 'map')
    gcls = ctx.model.cls('pico8.gfx.gfx:Gfx')
    gmem = _mem('gfx', gfx_size)

    def mk():
        g = CX.Obj(gcls)
        g.attrs['_data'] = CX.Seq('bytearray', list(gmem))
        g.attrs['_version'] = 8
        return a.obj(_gfx=g), g

    def cell(x, y):
        if y <= 31:
            return a.mem[y * 128 + x]
        return gmem[4096 + (y - 32) * 128 + x]
    # (x, y, width, height): inside, across the map/gfx seam, at the right
    # and bottom edges
    gets = [(0, 0, 1, 1), (3, 2, 4, 3), (126, 0, 2, 2), (127, 30, 1, 3),
            (0, 31, 3, 2), (125, 62, 3, 2), (0, 63, 2, 1), (64, 40, 2, 2)]
    prob = None
    for (x, y, w, h) in gets:
        o, g = mk()
        (c, r), = a.call(o, 'get_rect_tiles', [x, y],
                         {'width': w, 'height': h})
        if r[0] == 'raise':
            prob = 'get_rect_tiles({}, {}, {}, {}) raises {}'.format(
                x, y, w, h, r[1].tname)
            break
        rows = [a.cx.items(row) for row in a.cx.items(r[1])]
        want = [[(cell(tx, ty) if (ty <= 63 and tx <= 127) else 0)
                 for tx in range(x, x + w)] for ty in range(y, y + h)]
        if [len(rw) for rw in rows] != [len(rw) for rw in want]:
            prob = 'get_rect_tiles({}, {}, {}, {}) returns rows of {} ' \
                'cells instead of {}'.format(x, y, w, h,
                                             [len(rw) for rw in rows],
                                             [len(rw) for rw in want])
            break
        for ry, (rw, ww) in enumerate(zip(rows, want)):
            for rx, (gv, wv) in enumerate(zip(rw, ww)):
                if _b8(gv) != _b8(wv):
                    prob = ('get_rect_tiles({}, {}, {}, {}): cell ({}, {}) '
                            'is {} instead of {}'.format(
                                x, y, w, h, x + rx, y + ry, _b8(gv),
                                'the stored tile' if not isinstance(wv, int)
                                else wv))
                    break
            if prob:
                break
        if prob:
            break
    if prob is None:
        # the documented defaults: one tile
        o, g = mk()
        (c, r), = a.call(o, 'get_rect_tiles', [5, 6])
        if r[0] == 'raise':
            prob = 'get_rect_tiles(5, 6) raises {}'.format(r[1].tname)
        else:
            rows = [a.cx.items(row) for row in a.cx.items(r[1])]
            if [len(rw) for rw in rows] != [1] or \
                    _b8(rows[0][0]) != _b8(cell(5, 6)):
                prob = 'get_rect_tiles(5, 6) with the default size returns ' \
                    'rows of {} cells instead of the one tile'.format(
                        [len(rw) for rw in rows])
    out.append(('R-C17-inverse', 'get_rect_tiles', 'get_rect_tiles returns '
                'the addressed cells row by row, 0 beyond column 127 / row '
                '63', prob))
    sets = [(0, 0, 2, 2), (126, 0, 3, 2), (0, 31, 2, 2), (126, 62, 3, 3),
            (127, 63, 1, 1), (5, 63, 2, 2), (64, 40, 3, 1)]
    prob = None
    for (x, y, w, h) in sets:
        o, g = mk()
        rect = [[field_bv('t{}_{}'.format(ry, rx), 8) for rx in range(w)]
                for ry in range(h)]
        (c, r), = a.call(o, 'set_rect_tiles', [[list(rw) for rw in rect],
                                               x, y])
        if r[0] == 'raise':
            prob = 'set_rect_tiles(<{}x{}>, {}, {}) raises {}'.format(
                w, h, x, y, r[1].tname)
            break
        wm, wg = list(a.mem), list(gmem)
        for ry in range(h):
            for rx in range(w):
                tx, ty = x + rx, y + ry
                if tx > 127 or ty > 63:
                    continue
                if ty <= 31:
                    wm[ty * 128 + tx] = rect[ry][rx]
                else:
                    wg[4096 + (ty - 32) * 128 + tx] = rect[ry][rx]
        d = _same_list(o.attrs['_data'].items, wm) or \
            _same_list(g.attrs['_data'].items, wg)
        if d:
            prob = 'set_rect_tiles(<{}x{}>, {}, {}): {}'.format(w, h, x, y, d)
            break
    out.append(('R-C17-frame', 'set_rect_tiles', 'set_rect_tiles stores '
                'every tile that lies on the grid in its cell, drops the '
                'rest, touches nothing else', prob))
    return out, a.calls


def report(res, where, results, calls, why):
    for (rule, meth, inst, prob) in results:
        res.check(prob is None, rule, where + '.' + meth,
                  inst + ' (evaluated)',
                  'whole-method evaluation on symbolic memory, sampled '
                  'addresses ({} calls in this group); {}'.format(
                      calls, why[:80] if why.startswith('none') else
                      'the symbolic analysis could not follow the code: ' +
                      why[:80]),
                  prob or '', '', semantic=True)
