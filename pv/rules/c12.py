"""C12 -- require() and #include never read outside the permitted directories.

Interprocedural taint analysis from cart-controlled text to file-system
sinks, with the sanitizers the code itself uses.  Rules: R-C12-taint,
R-C12-component, R-C12-norm, R-C12-locate.
"""
import ast

from ..cfg import cfg_of
from ..srcmodel import walk_own, FuncInfo, dotted
from .common import assignments_to, unparse, OPEN_NAMES

EXPLANATION = (
    'Taint analysis over the resolved program. Sources: the cart text lines '
    'handed to p8.process_includes and the strings yielded by RequireWalker '
    'in build._evaluate_require. Sinks: the path argument of open(), '
    'os.path.isfile/exists/isdir, os.listdir/stat, png.Reader(filename=) and '
    'package functions whose parameter reaches such a sink (summary of '
    '_locate_require_file). R-C12-taint: every sink reached by tainted data '
    'is dominated in the CFG by a test on that same value whose failing '
    'branch always raises (include: containment of the normalised absolute '
    'path in the include root; require: the "./"-and-leading-"/" filter, both '
    'disjuncts present). R-C12-component: a containment test between two '
    'path-kinded values must be component-wise (root + separator, commonpath '
    'or equality) -- a bare a.startswith(b) on paths is the prefix-sibling '
    'hole. R-C12-norm: the tested value is normalised before the test and is '
    'the very value opened (no re-assignment between test and sink). '
    'R-C12-locate: candidates in _locate_require_file are built only from '
    'the load path (argument / PICO8_LUA_PATH / default) and the requiring '
    'file\'s directory. Decided for every path string at once; a test samples '
    'strings.')

ASSUMPTIONS = [
    'POSIX path semantics (os.path = posixpath); symlinks are outside the '
    'property',
    'a ".." component can only climb when followed by "/", which makes "./" '
    'occur in the string (argument for the require filter)',
    'os.path.abspath/normpath collapse "..", ".", duplicate separators',
]

FS_SINKS = {
    'os.path.isfile': 0, 'os.path.exists': 0, 'os.path.isdir': 0,
    'os.path.getsize': 0, 'os.path.lexists': 0, 'os.listdir': 0,
    'os.stat': 0, 'os.lstat': 0, 'os.scandir': 0, 'os.access': 0,
    'os.path.getmtime': 0, 'glob.glob': 0, 'os.walk': 0,
    'open': 0, 'io.open': 0, 'codecs.open': 0,
}
NORMALIZERS = {'os.path.abspath', 'os.path.normpath', 'os.path.realpath'}
PATH_MAKERS = NORMALIZERS | {'os.path.join', 'os.path.dirname',
                             'os.path.expanduser'}
SEP_EXPRS = {'os.path.sep', 'os.sep', "'/'"}


def taint_closure(fnode, seeds):
    """Flow-insensitive closure of names computed from `seeds`."""
    names = set(seeds)
    changed = True
    while changed:
        changed = False

        def add(target):
            nonlocal changed
            for e in walk_own(target):
                if isinstance(e, ast.Name) and e.id not in names:
                    names.add(e.id)
                    changed = True
        for n in walk_own(fnode):
            if isinstance(n, ast.Assign):
                if _uses(n.value, names):
                    for t in n.targets:
                        add(t)
            elif isinstance(n, ast.AugAssign):
                if _uses(n.value, names):
                    add(n.target)
            elif isinstance(n, (ast.For, ast.AsyncFor)):
                if _uses(n.iter, names):
                    add(n.target)
            elif isinstance(n, (ast.With, ast.AsyncWith)):
                for it in n.items:
                    if it.optional_vars is not None and \
                            _uses(it.context_expr, names):
                        add(it.optional_vars)
            elif isinstance(n, ast.NamedExpr):
                if _uses(n.value, names):
                    add(n.target)
    return names


def _uses(node, names):
    return any(isinstance(x, ast.Name) and x.id in names
               for x in walk_own(node))


def param_reaches_sink(model, f, _seen=None):
    """Indices/names of parameters of package function f that flow into a
    file-system sink (directly or through callees)."""
    _seen = _seen or set()
    if f.qual in _seen:
        return set()
    _seen = _seen | {f.qual}
    out = set()
    for p in f.params():
        tainted = taint_closure(f.node, {p})
        for n in model.own_nodes(f.node):
            if not isinstance(n, ast.Call):
                continue
            ext = model.ext_name(f.module, n.func)
            if ext in FS_SINKS:
                a = _arg(n, FS_SINKS[ext], ('file', 'path', 'name'))
                if a is not None and _uses(a, tainted):
                    out.add(p)
            else:
                kind, targets = model.resolve_call(f, n)
                if kind in ('exact', 'method'):
                    for t in targets:
                        if isinstance(t, FuncInfo):
                            sub = param_reaches_sink(model, t, _seen)
                            for (pname, a) in _bind(t, n):
                                if pname in sub and _uses(a, tainted):
                                    out.add(p)
    return out


def _bind(callee, call):
    params = callee.params()
    if callee.cls is not None and params and params[0] in ('self', 'cls'):
        params = params[1:]
    out = []
    for i, a in enumerate(call.args):
        if isinstance(a, ast.Starred):
            break
        if i < len(params):
            out.append((params[i], a))
    for k in call.keywords:
        if k.arg:
            out.append((k.arg, k.value))
    return out


def _arg(call, pos, kwnames=()):
    if len(call.args) > pos and not isinstance(call.args[pos], ast.Starred):
        return call.args[pos]
    for k in call.keywords:
        if k.arg in kwnames:
            return k.value
    return None


def sinks_in(model, f, tainted):
    """[(call, path_expr, description)] tainted sinks of function f."""
    out = []
    for n in model.own_nodes(f.node):
        if not isinstance(n, ast.Call):
            continue
        ext = model.ext_name(f.module, n.func)
        if ext in FS_SINKS:
            a = _arg(n, FS_SINKS[ext], ('file', 'path', 'name'))
            if a is not None and _uses(a, tainted):
                out.append((n, a, ext))
        elif ext and ext.endswith('.Reader') and ext.startswith('png'):
            for k in n.keywords:
                if k.arg == 'filename' and _uses(k.value, tainted):
                    out.append((n, k.value, ext))
        else:
            kind, targets = model.resolve_call(f, n)
            if kind in ('exact', 'method'):
                for t in targets:
                    if isinstance(t, FuncInfo) and t.qual != f.qual:
                        reach = param_reaches_sink(model, t)
                        for (pname, a) in _bind(t, n):
                            if pname in reach and _uses(a, tainted):
                                out.append((n, a, t.qual + '(' + pname + ')'))
    return out


def raising_guards(cfg):
    """Test nodes one of whose branches can reach neither the normal exit nor
    anything but a raise: -> [(test_node, fail_label, pass_label)]."""
    out = []
    for n in cfg.nodes:
        if n.kind != 'test' or not isinstance(n.stmt, ast.If):
            continue
        for fail, ok in (('true', 'false'), ('false', 'true')):
            fs = cfg.succ_by_label(n, fail)
            if not fs:
                continue
            reach = cfg.reachable_from(fs, avoid={n})
            # the failing branch must end in raise without rejoining
            others = [m for m in cfg.succ_by_label(n, ok)]
            rejoin = any(m in reach for m in others) or cfg.exit in reach
            if not rejoin and cfg.raise_exit in reach:
                out.append((n, fail, ok))
    return out


def _strip_not(test):
    neg = False
    while isinstance(test, ast.UnaryOp) and isinstance(test.op, ast.Not):
        neg = not neg
        test = test.operand
    return test, neg


def path_kinded(model, f, name):
    for (_s, v) in assignments_to(f.node, name):
        if isinstance(v, ast.Call) and \
                model.ext_name(f.module, v.func) in PATH_MAKERS:
            return True
    return False


def is_normalised(model, f, name):
    asg = assignments_to(f.node, name)
    if not asg:
        return False
    for (_s, v) in asg:
        if not (isinstance(v, ast.Call) and any(
                isinstance(c, ast.Call) and
                model.ext_name(f.module, c.func) in NORMALIZERS
                for c in walk_own(v))):
            return False
    return True


def _is_sep(model, f, e):
    d = dotted(e)
    if d is not None:
        r = model.ext_name(f.module, e)
        if r in ('os.path.sep', 'os.sep'):
            return True
    return isinstance(e, ast.Constant) and e.value in ('/', b'/')


def _root_with_sep(model, f, e, roots):
    """e denotes <root> + separator (component-wise prefix)."""
    if isinstance(e, ast.BinOp) and isinstance(e.op, ast.Add):
        if _is_sep(model, f, e.right):
            base = e.left
            # root or root.rstrip(sep)
            if isinstance(base, ast.Name) and base.id in roots:
                return True
            if (isinstance(base, ast.Call) and
                    isinstance(base.func, ast.Attribute) and
                    base.func.attr == 'rstrip' and
                    isinstance(base.func.value, ast.Name) and
                    base.func.value.id in roots):
                return True
    if isinstance(e, ast.Call) and \
            model.ext_name(f.module, e.func) == 'os.path.join':
        if (len(e.args) == 2 and isinstance(e.args[0], ast.Name) and
                e.args[0].id in roots and
                isinstance(e.args[1], ast.Constant) and e.args[1].value == ''):
            return True
    return False


def classify_containment(model, f, test, subject, roots):
    """Classify a guard test as a containment check of `subject` in one of
    `roots`.  -> (kind, contained_when_true) with kind 'component' (sound) or
    'bare-prefix' (prefix-sibling hole); None if the test is not a
    containment test on subject."""
    t, neg = _strip_not(test)
    results = []
    for c in walk_own(t):
        if (isinstance(c, ast.Call) and isinstance(c.func, ast.Attribute)
                and c.func.attr == 'startswith'
                and isinstance(c.func.value, ast.Name)
                and c.func.value.id == subject and c.args):
            a = c.args[0]
            if isinstance(a, ast.Name) and a.id in roots:
                results.append(('bare-prefix', True))
            elif _root_with_sep(model, f, a, roots):
                results.append(('component', True))
        elif isinstance(c, ast.Compare) and len(c.ops) == 1 and \
                isinstance(c.ops[0], (ast.Eq, ast.NotEq)):
            sides = [c.left, c.comparators[0]]
            for s, o in (sides, list(reversed(sides))):
                if (isinstance(s, ast.Call) and model.ext_name(
                        f.module, s.func) == 'os.path.commonpath'
                        and isinstance(o, ast.Name) and o.id in roots
                        and _uses(s, {subject}) and _uses(s, set(roots))):
                    results.append(('component',
                                    isinstance(c.ops[0], ast.Eq)))
    if not results:
        return None
    pols = {p for (_k, p) in results}
    if len(pols) != 1:
        return None
    pol = pols.pop() != neg
    kinds = {k for (k, _p) in results}
    return ('bare-prefix' if 'bare-prefix' in kinds else 'component', pol)


# ---------------------------------------------------------------------------

def rule_include(ctx, res):
    model = ctx.model
    qual = 'pico8.game.formatter.p8:process_includes'
    f = model.func(qual)
    cfg = cfg_of(f)
    params = f.params()
    if not params:
        res.vanished('R-C12-taint', qual, 'params', 'no parameters')
        return
    seeds = {params[0]}
    tainted = taint_closure(f.node, seeds)
    # the regex match result must be what taints the path pieces
    sinks = sinks_in(model, f, tainted)
    res.stats['include_tainted_names'] = sorted(tainted)
    if len(sinks) < 2:
        res.vanished('R-C12-taint', qual, 'sinks',
                     'expected the isfile probe and the open()s, found '
                     '{}'.format(len(sinks)))
    roots = {n for n in _names_assigned_from_call(
        model, f, 'pico8.game.formatter.p8:get_root_include_path')}
    if not roots:
        res.vanished('R-C12-taint', qual, 'root',
                     'include root is not taken from get_root_include_path')
        return
    guards = raising_guards(cfg)
    for (call, arg, what) in sinks:
        inst = '{}({})'.format(what, unparse(arg, 40))
        loc = f.module.loc(call)
        if not isinstance(arg, ast.Name):
            res.violation('R-C12-taint', qual, inst,
                          'cart-controlled path expression reaches a '
                          'file-system sink without being the validated '
                          'variable', loc)
            continue
        subject = arg.id
        sink_nodes = cfg.nodes_of(call)
        verdicts = []
        dom_guard = None
        # plain copies of the subject (x = y) carry the same value
        aliases = {subject}
        changed = True
        while changed:
            changed = False
            for nm in list(aliases):
                for (_s, v) in assignments_to(f.node, nm):
                    if isinstance(v, ast.Name) and v.id not in aliases and \
                            len(assignments_to(f.node, nm)) == 1:
                        aliases.add(v.id)
                        changed = True
        for (g, fail, ok) in guards:
            cls = None
            for al in sorted(aliases):
                cls = cls or classify_containment(model, f, g.ast, al, roots)
            if cls is None:
                continue
            # polarity: the failing (raising) branch is the one where the
            # containment does NOT hold
            kind, contained_when_true = cls
            if (fail == 'true') == contained_when_true:
                continue
            if all(cfg.dominates(g, s) for s in sink_nodes):
                verdicts.append(kind)
                dom_guard = g
        if not verdicts:
            res.violation(
                'R-C12-taint', qual, inst,
                'cart-controlled path reaches this sink on a path with no '
                'containment test (raising on failure) on the same value '
                'against the include root', loc)
            continue
        res.holds('R-C12-taint', qual, inst,
                  'dominated by a raising containment test of {} against '
                  '{}'.format(subject, sorted(roots)), loc)
        # R-C12-norm: normalised before the test, not re-assigned after it
        norm = any(is_normalised(model, f, al) for al in aliases)
        res.check(norm, 'R-C12-norm', qual, subject + ' normalised',
                  'tested path is abspath/normpath-normalised before the test',
                  'tested path is not normalised before the containment '
                  'test: "dir/../.." survives a prefix test', loc)
        reassigned = False
        for (st, _v) in assignments_to(f.node, subject):
            if isinstance(_v, ast.Name) and _v.id in aliases:
                continue          # a plain copy of the validated value
            for an in cfg.nodes_of(st):
                if dom_guard is not None and not cfg.dominates(an, dom_guard):
                    # assignment not before the guard: is it between?
                    if an in cfg.reachable_from(
                            cfg.succ_by_label(dom_guard, 'true') +
                            cfg.succ_by_label(dom_guard, 'false')) and any(
                                s in cfg.reachable_from([an])
                                for s in sink_nodes):
                        reassigned = True
        res.check(not reassigned, 'R-C12-norm', qual,
                  inst + ' same value as tested',
                  'the value opened is the value that passed the test',
                  'the path variable is re-assigned between the containment '
                  'test and the sink', loc)
    res.require_min('R-C12-taint', 3)


def _names_assigned_from_call(model, f, callee_qual):
    out = set()
    for n in walk_own(f.node):
        if isinstance(n, ast.Assign) and isinstance(n.value, ast.Call):
            kind, targets = model.resolve_call(f, n.value)
            if any(isinstance(t, FuncInfo) and t.qual == callee_qual
                   for t in targets):
                for t in n.targets:
                    if isinstance(t, ast.Name):
                        out.add(t.id)
    return out


def rule_component(ctx, res):
    """Every startswith() between two path-kinded values in the package."""
    model = ctx.model
    n_inst = 0
    for f in model.functions.values():
        for c in model.own_nodes(f.node):
            if not (isinstance(c, ast.Call) and
                    isinstance(c.func, ast.Attribute) and
                    c.func.attr == 'startswith' and c.args and
                    isinstance(c.func.value, ast.Name)):
                continue
            recv = c.func.value.id
            if not path_kinded(model, f, recv):
                continue
            a = c.args[0]
            roots = set()
            for x in walk_own(a):
                if isinstance(x, ast.Name) and (
                        path_kinded(model, f, x.id) or
                        x.id in _names_assigned_from_call(
                            model, f,
                            'pico8.game.formatter.p8:get_root_include_path')):
                    roots.add(x.id)
            if not roots:
                continue
            n_inst += 1
            inst = '{}.startswith({})'.format(recv, unparse(a, 50))
            loc = f.module.loc(c)
            if isinstance(a, ast.Name):
                res.violation(
                    'R-C12-component', f.qual, 'path prefix test ' + recv,
                    'bare string-prefix test between two paths: a sibling '
                    'directory whose name merely starts with the root\'s '
                    'name passes (' + inst + ')', loc)
            elif _root_with_sep(model, f, a, roots):
                res.holds('R-C12-component', f.qual,
                          'path prefix test ' + recv,
                          'component-wise: ' + inst, loc)
            else:
                res.undecided('R-C12-component', f.qual,
                              'path prefix test ' + recv,
                              'unrecognised containment idiom: ' + inst, loc)
    if n_inst == 0:
        # containment may be expressed with commonpath instead; then the
        # taint rule has classified it.  Still require the two anchors.
        for q in ('pico8.game.formatter.p8:process_includes',
                  'pico8.game.formatter.p8:get_root_include_path'):
            model.func(q)


def rule_require(ctx, res):
    model = ctx.model
    qual = 'pico8.build.build:_evaluate_require'
    f = model.func(qual)
    cfg = cfg_of(f)
    # sources: loop targets iterating <RequireWalker instance>.walk()
    walker_names = set()
    for n in walk_own(f.node):
        if isinstance(n, ast.Assign) and isinstance(n.value, ast.Call):
            r = model.resolve_expr(f.module, n.value.func)
            if r and r[0] == 'class' and any(
                    c.name == 'BaseASTWalker' for c in model.mro(r[1])):
                for t in n.targets:
                    if isinstance(t, ast.Name):
                        walker_names.add(t.id)
    seeds = set()
    for n in walk_own(f.node):
        if isinstance(n, ast.For) and isinstance(n.iter, ast.Call) and \
                isinstance(n.iter.func, ast.Attribute) and \
                isinstance(n.iter.func.value, ast.Name) and \
                n.iter.func.value.id in walker_names:
            # first element of the yielded tuple is the string
            tgt = n.target
            if isinstance(tgt, (ast.Tuple, ast.List)) and tgt.elts and \
                    isinstance(tgt.elts[0], ast.Name):
                seeds.add(tgt.elts[0].id)
            elif isinstance(tgt, ast.Name):
                seeds.add(tgt.id)
    if not seeds:
        res.vanished('R-C12-taint', qual, 'source',
                     'loop over RequireWalker.walk() not found')
        return
    tainted = taint_closure(f.node, seeds)
    sinks = sinks_in(model, f, tainted)
    if not sinks:
        res.vanished('R-C12-taint', qual, 'sinks',
                     'no file-system sink reached by the require string')
        return
    guards = raising_guards(cfg)
    # which direct string views of the seed exist (decode(), str())
    views = set(seeds)
    for n in walk_own(f.node):
        if isinstance(n, ast.Assign) and isinstance(n.value, ast.Call) and \
                isinstance(n.value.func, ast.Attribute) and \
                n.value.func.attr in ('decode',) and \
                isinstance(n.value.func.value, ast.Name) and \
                n.value.func.value.id in seeds:
            for t in n.targets:
                if isinstance(t, ast.Name):
                    views.add(t.id)
        if isinstance(n, ast.Assign) and isinstance(n.value, ast.Call) and \
                isinstance(n.value.func, ast.Name) and \
                n.value.func.id == 'str' and n.value.args and \
                isinstance(n.value.args[0], ast.Name) and \
                n.value.args[0].id in seeds:
            for t in n.targets:
                if isinstance(t, ast.Name):
                    views.add(t.id)
    from ..predlang import pred_lang, NotAPredicate
    from ..lang import Lang
    ALL = Lang.all_strings()
    # a `..` path component anywhere -- also as the last one: a load-path
    # template may continue with `/` right behind the `?` (`?/init.lua`) --
    # or an absolute path.  (A single-dot step stays inside the directory;
    # rejecting it as well is allowed, not demanded.)
    EPS = Lang.literal(b'')
    unsafe = EPS.union(ALL.concat(Lang.literal(b'/'))).concat(
        Lang.literal(b'..')).concat(
            EPS.union(Lang.literal(b'/').concat(ALL))).union(
                Lang.literal(b'/').concat(ALL))
    for (call, arg, what) in sinks:
        inst = '{}({})'.format(what, unparse(arg, 40))
        loc = f.module.loc(call)
        sink_nodes = cfg.nodes_of(call)
        # language of the require strings that can reach the sink: those no
        # dominating raising guard rejects
        passing = ALL
        n_guards = 0
        unread = []
        for (g, fail, ok) in guards:
            if not all(cfg.dominates(g, s_) for s_ in sink_nodes):
                continue
            names = {x.id for x in walk_own(g.ast)
                     if isinstance(x, ast.Name)}
            if not (names & views):
                continue
            try:
                rej = pred_lang(g.ast, views)
            except NotAPredicate:
                unread.append(unparse(g.ast, 60))
                continue
            if fail == 'false':
                rej = rej.complement()
            passing = passing.intersect(rej.complement())
            n_guards += 1
        w = passing.intersect(unsafe).witness()
        if w is None:
            res.holds('R-C12-taint', qual, inst,
                      'every string that passes the raising filter ({} '
                      'guard(s)) has no `..` path component (first, middle '
                      'or last) and does not start with "/"'.format(
                          n_guards), loc)
        elif unread:
            res.undecided(
                'R-C12-taint', qual, inst,
                'a raising filter on the require string is written in a '
                'form outside the predicate model ({}); without it {!r} '
                'would pass'.format('; '.join(unread[:2]), w), loc)
        else:
            res.violation(
                'R-C12-taint', qual, inst,
                'the require string {!r} passes every raising filter and '
                'reaches the file system: it selects a file outside the '
                'load path'.format(w), loc)
    res.require_min('R-C12-taint', 3)


def _filter_kind(test, views):
    # b'./' in X
    if isinstance(test, ast.Compare) and len(test.ops) == 1 and \
            isinstance(test.ops[0], ast.In):
        l, r = test.left, test.comparators[0]
        if isinstance(l, ast.Constant) and l.value in (b'./', './') and \
                isinstance(r, ast.Name) and r.id in views:
            return 'dotslash'
    # X.startswith(b'/')
    if isinstance(test, ast.Call) and isinstance(test.func, ast.Attribute) \
            and test.func.attr == 'startswith' and test.args and \
            isinstance(test.func.value, ast.Name) and \
            test.func.value.id in views:
        a = test.args[0]
        if isinstance(a, ast.Constant) and a.value in (b'/', '/'):
            return 'absolute'
        if dotted(a) in ('os.path.sep', 'os.sep'):
            return 'absolute'
    # os.path.isabs(X)
    if isinstance(test, ast.Call) and dotted(test.func) == 'os.path.isabs' \
            and test.args and isinstance(test.args[0], ast.Name) and \
            test.args[0].id in views:
        return 'absolute'
    # X[:1] == b'/'
    if isinstance(test, ast.Compare) and len(test.ops) == 1 and \
            isinstance(test.ops[0], ast.Eq):
        l, r = test.left, test.comparators[0]
        if isinstance(l, ast.Subscript) and isinstance(l.value, ast.Name) \
                and l.value.id in views and isinstance(l.slice, ast.Slice) \
                and isinstance(r, ast.Constant) and r.value in (b'/', '/'):
            lo, hi = l.slice.lower, l.slice.upper
            if (lo is None or (isinstance(lo, ast.Constant) and lo.value == 0)) \
                    and isinstance(hi, ast.Constant) and hi.value == 1:
                return 'absolute'
    return None


def rule_locate(ctx, res):
    model = ctx.model
    qual = 'pico8.build.build:_locate_require_file'
    f = model.func(qual)
    params = f.params()
    if len(params) < 3:
        res.vanished('R-C12-locate', qual, 'params', 'signature changed')
        return
    p_req, p_file, p_path = params[0], params[1], params[2]
    # every sink argument in this function
    sinks = sinks_in(model, f, taint_closure(f.node, {p_req}))
    if not sinks:
        res.vanished('R-C12-locate', qual, 'sinks', 'no probe found')
        return
    allowed_sources = {p_req, p_file, p_path}
    for (call, arg, what) in sinks:
        inst = '{}({})'.format(what, unparse(arg, 30))
        ok = True
        why = []
        if not isinstance(arg, ast.Name):
            res.undecided('R-C12-locate', qual, inst,
                          'probe argument is not a simple variable',
                          f.module.loc(call))
            continue
        # backward slice of the candidate variable
        seen, work = set(), [arg.id]
        leaves = set()
        while work:
            nm = work.pop()
            if nm in seen:
                continue
            seen.add(nm)
            asg = assignments_to(f.node, nm)
            if not asg and nm not in params:
                leaves.add(nm)
            for (st, v) in asg:
                if v is None:
                    # loop target: follow the iterable
                    if isinstance(st, ast.For):
                        v = st.iter
                    else:
                        ok = False
                        why.append('opaque binding of ' + nm)
                        continue
                comp_targets = set()
                for x in walk_own(v):
                    if isinstance(x, ast.comprehension):
                        for y in ast.walk(x.target):
                            if isinstance(y, ast.Name):
                                comp_targets.add(y.id)
                for x in walk_own(v):
                    if isinstance(x, ast.Name):
                        if x.id not in comp_targets:
                            work.append(x.id)
                    elif isinstance(x, ast.Call):
                        ext = model.ext_name(f.module, x.func)
                        if ext is None and not isinstance(
                                x.func, ast.Attribute):
                            ok = False
                            why.append('call ' + unparse(x.func))
        ext_leaves = set()
        for nm in leaves:
            r = model.resolve_name(f.module, nm)
            if r and r[0] in ('extmodule', 'module'):
                continue
            if r and r[0] == 'const':
                ext_leaves.add(nm)
                continue
            if nm in ('str', 'bytes', 'len', 'None'):
                continue
            ok = False
            why.append('unknown source ' + nm)
        # the load path may come from the parameter, the environment or a
        # module constant -- never from the require string
        lp_ok = True
        for (st, v) in assignments_to(f.node, p_path):
            if v is None or _uses(v, {p_req}):
                lp_ok = False
        # relative candidates are joined to dirname(file_path)
        joins = [c for c in model.own_nodes(f.node)
                 if isinstance(c, ast.Call) and
                 model.ext_name(f.module, c.func) == 'os.path.join']
        base_ok = True
        for j in joins:
            if j.args and isinstance(j.args[0], ast.Name):
                b = j.args[0].id
                srcs = set()
                for (_s, v) in assignments_to(f.node, b):
                    if v is not None:
                        srcs |= {x.id for x in walk_own(v)
                                 if isinstance(x, ast.Name)}
                if not (srcs & {p_file}) or (srcs & {p_req}):
                    base_ok = False
            else:
                base_ok = False
        res.check(ok and lp_ok and base_ok, 'R-C12-locate', qual, inst,
                  'candidate built only from load path entries (parameter / '
                  'environment / {}) with "?" replaced, joined to the '
                  'requiring file\'s directory'.format(sorted(ext_leaves)),
                  'candidate path has another source: ' + '; '.join(why) +
                  ('' if lp_ok else '; load path derives from the require '
                   'string') + ('' if base_ok else '; join base is not the '
                                'requiring file\'s directory'),
                  f.module.loc(call))
    # the load path is cut into entries BEFORE the require string is put in:
    # nothing cart-controlled may take part in a split
    from .. import norm as _norm
    splits = 0
    for (g, n) in _norm.region_nodes(ctx, f):
        if isinstance(n, ast.Call) and isinstance(n.func, ast.Attribute) \
                and n.func.attr in ('split', 'rsplit', 'partition',
                                    'rpartition', 'splitlines'):
            recv = _norm.subst_locals(g.node, n.func.value) \
                if g is f else n.func.value
            tainted = any(isinstance(x, ast.Name) and x.id == p_req
                          for x in ast.walk(recv))
            if g is not f:
                continue
            splits += 1
            res.check(not tainted, 'R-C12-locate', qual,
                      'the text cut into load path entries does not contain '
                      'the require string',
                      unparse(recv, 50),
                      'the load path is split AFTER the require string was '
                      'substituted into it (`{}`): a separator inside the '
                      'require string starts a new candidate that never met '
                      'the string filter'.format(unparse(recv, 70)),
                      f.module.loc(n), semantic=True)
    # callers pass a load path that is not cart-controlled
    ev = model.func('pico8.build.build:_evaluate_require')
    for n in model.own_nodes(ev.node):
        if isinstance(n, ast.Call):
            kind, targets = model.resolve_call(ev, n)
            if any(isinstance(t, FuncInfo) and t.qual == qual
                   for t in targets):
                b = dict(_bind(f, n))
                a = b.get(p_path)
                ok = a is None or (isinstance(a, ast.Name) and
                                   a.id in ev.params())
                res.check(ok, 'R-C12-locate', ev.qual,
                          'load path argument',
                          'load path handed down from the caller\'s own '
                          'parameter', 'load path computed inside '
                          '_evaluate_require: ' + (unparse(a) if a else ''),
                          ev.module.loc(n))
                a2 = b.get(p_file)
                ok2 = isinstance(a2, ast.Name) and a2.id in ev.params()
                res.check(ok2, 'R-C12-locate', ev.qual,
                          'requiring-file argument',
                          'relative lookups anchored at the requiring file',
                          'requiring-file argument is not the parameter',
                          ev.module.loc(n))
    res.require_min('R-C12-locate', 3)


def pure_aliases(fnode, base):
    """Names that can only ever hold the value of `base` itself: bound by
    plain aliasing, membership of a list/tuple of aliases, or iteration over
    such a collection.  A name with any other binding is not pure."""
    bindings = {}

    def bind(name, kind, value):
        bindings.setdefault(name, []).append((kind, value))
    for n in walk_own(fnode):
        if isinstance(n, ast.Assign):
            for t in n.targets:
                for x in walk_own(t):
                    if isinstance(x, ast.Name):
                        bind(x.id, 'val' if x is t else 'opaque', n.value)
        elif isinstance(n, (ast.AugAssign, ast.AnnAssign)):
            if isinstance(n.target, ast.Name):
                bind(n.target.id, 'opaque', None)
        elif isinstance(n, ast.NamedExpr):
            bind(n.target.id, 'val', n.value)
        elif isinstance(n, (ast.For, ast.comprehension)):
            for x in walk_own(n.target):
                if isinstance(x, ast.Name):
                    bind(x.id, 'elem' if x is n.target else 'opaque', n.iter)
        elif isinstance(n, ast.With):
            for it in n.items:
                if it.optional_vars is not None:
                    for x in walk_own(it.optional_vars):
                        if isinstance(x, ast.Name):
                            bind(x.id, 'opaque', None)
        elif isinstance(n, ast.Call) and isinstance(n.func, ast.Attribute) \
                and isinstance(n.func.value, ast.Name) and \
                n.func.attr in ('append', 'insert', 'extend', 'add'):
            a = n.args[-1] if n.args else None
            bind(n.func.value.id,
                 'coll-ext' if n.func.attr == 'extend' else 'coll-add', a)
    pure = {base}
    colls = set()
    changed = True

    def is_pure(e):
        return isinstance(e, ast.Name) and e.id in pure

    def is_coll(e):
        if isinstance(e, (ast.List, ast.Tuple, ast.Set)):
            return all(is_pure(x) for x in e.elts)
        return isinstance(e, ast.Name) and e.id in colls
    while changed:
        changed = False
        for name, bs in bindings.items():
            if name not in pure and all(
                    (k == 'val' and is_pure(v)) or (k == 'elem' and is_coll(v))
                    for (k, v) in bs):
                pure.add(name)
                changed = True
            if name not in colls and all(
                    (k == 'val' and is_coll(v)) or
                    (k == 'coll-add' and v is not None and is_pure(v)) or
                    (k == 'coll-ext' and v is not None and is_coll(v))
                    for (k, v) in bs) and any(k == 'val' for (k, _v) in bs):
                colls.add(name)
                changed = True
    return pure


def rule_verbatim(ctx, res):
    """The string the filter validated is the string substituted for `?`."""
    model = ctx.model
    qual = 'pico8.build.build:_locate_require_file'
    f = model.func(qual)
    p_req = f.params()[0]
    tainted = taint_closure(f.node, {p_req})
    pure = pure_aliases(f.node, p_req)
    n_sub = 0
    for n in model.own_nodes(f.node):
        # every use of a value derived from the require string
        if isinstance(n, ast.Call) and isinstance(n.func, ast.Attribute) and \
                n.func.attr == 'replace' and len(n.args) >= 2 and \
                isinstance(n.args[0], ast.Constant) and \
                n.args[0].value in ('?', b'?'):
            n_sub += 1
            a = n.args[1]
            ok = isinstance(a, ast.Name) and a.id in pure
            res.check(ok, 'R-C12-verbatim', qual,
                      'value substituted for "?"',
                      '{} is the require string itself'.format(unparse(a, 30)),
                      'the value substituted for "?" ({}) is not the require '
                      'string itself but is computed from it: the "./" and '
                      'leading-"/" filter validated a different string, so a '
                      'transformed name can climb out of the load path or '
                      'become absolute'.format(unparse(a, 40)),
                      f.module.loc(n))
    if n_sub == 0:
        res.vanished('R-C12-verbatim', qual, 'substitution',
                     'no <entry>.replace("?", name) found')
    # derived (non-alias) values of the require string must not exist at all
    derived = sorted(nm for nm in tainted - pure
                     if _derived_directly(f.node, nm, pure))
    res.tables['locate_require_aliases'] = sorted(pure)
    # the caller hands over a direct view of the filtered string
    ev = model.func('pico8.build.build:_evaluate_require')
    for n in model.own_nodes(ev.node):
        if isinstance(n, ast.Call):
            kind, targets = model.resolve_call(ev, n)
            if any(isinstance(t, FuncInfo) and t.qual == qual
                   for t in targets):
                a = dict(_bind(f, n)).get(p_req)
                views = _views_of_walker_string(model, ev)
                ok = isinstance(a, ast.Name) and a.id in views
                res.check(ok, 'R-C12-verbatim', ev.qual,
                          'require-string argument',
                          '{} is a direct view of the filtered string'.format(
                              unparse(a, 30) if a is not None else '?'),
                          'the string handed to _locate_require_file ({}) is '
                          'not the filtered string or its decode()'.format(
                              unparse(a, 40) if a is not None else '?'),
                          ev.module.loc(n))
    res.require_min('R-C12-verbatim', 2)


def _derived_directly(fnode, name, pure):
    for (_s, v) in assignments_to(fnode, name):
        if v is not None and _uses(v, pure):
            return True
    return False


def _views_of_walker_string(model, f):
    walker_names = set()
    for n in walk_own(f.node):
        if isinstance(n, ast.Assign) and isinstance(n.value, ast.Call):
            r = model.resolve_expr(f.module, n.value.func)
            if r and r[0] == 'class' and any(
                    c.name == 'BaseASTWalker' for c in model.mro(r[1])):
                for t in n.targets:
                    if isinstance(t, ast.Name):
                        walker_names.add(t.id)
    seeds = set()
    for n in walk_own(f.node):
        if isinstance(n, ast.For) and isinstance(n.iter, ast.Call) and \
                isinstance(n.iter.func, ast.Attribute) and \
                isinstance(n.iter.func.value, ast.Name) and \
                n.iter.func.value.id in walker_names:
            tgt = n.target
            if isinstance(tgt, (ast.Tuple, ast.List)) and tgt.elts and \
                    isinstance(tgt.elts[0], ast.Name):
                seeds.add(tgt.elts[0].id)
            elif isinstance(tgt, ast.Name):
                seeds.add(tgt.id)
    views = set(seeds)
    for n in walk_own(f.node):
        if isinstance(n, ast.Assign) and isinstance(n.value, ast.Call) and \
                len(n.targets) == 1 and isinstance(n.targets[0], ast.Name):
            c = n.value
            if isinstance(c.func, ast.Attribute) and c.func.attr == 'decode' \
                    and isinstance(c.func.value, ast.Name) and \
                    c.func.value.id in seeds:
                views.add(n.targets[0].id)
            if isinstance(c.func, ast.Name) and c.func.id == 'str' and \
                    c.args and isinstance(c.args[0], ast.Name) and \
                    c.args[0].id in seeds:
                views.add(n.targets[0].id)
    # a view must have exactly one binding
    return {v for v in views if v in seeds or
            len(assignments_to(f.node, v)) == 1}


def rule_other_opens(ctx, res):
    """Provenance of every other open()/probe in the package (report)."""
    model = ctx.model
    covered = {'pico8.game.formatter.p8:process_includes',
               'pico8.build.build:_evaluate_require',
               'pico8.build.build:_locate_require_file'}
    for f in model.functions.values():
        if f.qual in covered:
            continue
        for n in model.own_nodes(f.node):
            if isinstance(n, ast.Call):
                ext = model.ext_name(f.module, n.func)
                if ext in FS_SINKS and ext in OPEN_NAMES:
                    a = _arg(n, 0, ('file',))
                    res.info('R-C12-taint', f.qual,
                             'open({})'.format(unparse(a, 30) if a else '?'),
                             'not reachable from cart text: argument comes '
                             'from the caller / CLI', f.module.loc(n))


def run(ctx, res):
    rule_include(ctx, res)
    rule_component(ctx, res)
    rule_require(ctx, res)
    from . import c12eval
    c12eval.report(ctx, res)
    rule_locate(ctx, res)
    rule_verbatim(ctx, res)
    rule_other_opens(ctx, res)
