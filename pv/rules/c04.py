"""C04 -- .p8.png write/read round trip preserves cart and label picture.

Rules: R-C04-stego, R-C04-memmap, R-C04-header, R-C04-refuse, R-C04-kinds,
R-C04-label (shared with C11/C13).
"""
import ast

from ..cfg import cfg_of
from ..consteval import UNKNOWN
from ..core import AnalysisError
from ..refs import formats as ref
from ..srcmodel import walk_own, const_str, FuncInfo
from .common import unparse
from . import codecs
from .c18 import _region_sizes

EXPLANATION = (
    'R-C04-stego: bit provenance of get_pngdata_from_picodata (writer) and '
    'get_picodata_from_pngdata (reader), extracted independently: the reader '
    'takes data bit k from exactly the (plane, bit) the writer put it in, '
    'the four 2-bit groups partition the byte, the upper six bits of every '
    'channel are the source pixel\'s, pixels past the data are copied. '
    'R-C04-memmap: the prefix sums of the region sizes in the writer\'s join '
    'order equal the reader\'s slice bounds and each slice is consumed by '
    'the class of its region. R-C04-header: the `:c:` header the writer '
    'emits (magic, length high/low byte, two zero bytes = 8 bytes) is what '
    'the readers test and consume, and compressed code is chosen iff '
    'strictly smaller. R-C04-refuse: every path to the store that fills the '
    'code area passes a raising test that the code fits -- or the slice '
    'store cannot lengthen the array. R-C04-kinds: kind inference '
    '(bytes/str) of the value reaching bytes(x, encoding). R-C04-label: see '
    'C11.')

ASSUMPTIONS = [
    'that the written file is a valid PNG is pypng\'s job',
    'CR / trailing-newline normalisation equalities and the _update60 '
    'suffix are not decided',
]

PNG = 'pico8.game.formatter.p8png'


def rule_stego(ctx, res):
    # whole-function evaluation first: whatever way the two loops are written
    from . import cxcodecs as XC
    try:
        pe = XC.evaluate_png(ctx)
        if not isinstance(pe.writer, AnalysisError) and \
                not isinstance(pe.reader, AnalysisError):
            d = pe.roundtrip_diff()
            res.check(d is None, 'R-C04-stego', pe.wf.qual,
                      'reader(writer(data, image)) == data; upper six bits '
                      'of every sample and all pixels past the data are the '
                      'source image\'s',
                      'evaluated on a {}x{} image, {} planes, {} data bytes, '
                      'all contents symbolic'.format(*XC.PNG_DIMS),
                      'the .p8.png pixel codec does not round-trip: '
                      '{}'.format(d), pe.wf.loc, semantic=True)
            return
    except AnalysisError:
        pass
    r = codecs.png_reader_layout(ctx)
    w = codecs.png_writer_layout(ctx)
    f, g = r['func'], w['func']
    put = {}
    upper_ok = True
    for plane, cells in w['planes'].items():
        for b, c in enumerate(cells):
            if c and c[0] == 'pico':
                put[c[1]] = (plane, b)
            elif not (c and c[0] == 'row' and c[1] == plane and c[2] == b):
                upper_ok = False
    got = dict(enumerate(r['bits']))
    res.check(put == got and len(put) == 8, 'R-C04-stego', g.qual,
              'reader reads each data bit from where the writer put it',
              'data bit k <-> (plane, bit): {}'.format(sorted(put.items())),
              'writer places data bits at {} but the reader takes them from '
              '{}'.format(sorted(put.items()), sorted(got.items())), g.loc)
    groups = {}
    for k, (p, b) in put.items():
        groups.setdefault(p, set()).add(b)
    res.check(all(v == {0, 1} for v in groups.values()) and len(groups) == 4
              and upper_ok, 'R-C04-stego', g.qual,
              'two low bits per plane carry data, upper six bits = source '
              'pixel', '', 'the written pixel does not keep the label '
              'image\'s upper six bits / uses other bits: {}'.format(
                  w['planes']), g.loc)
    res.check(w['copy_ok'] and w['test_ok'], 'R-C04-stego', g.qual,
              'pixels past the data are copied unchanged', '',
              'the beyond-data branch changed', g.loc)
    res.check(r['index_ok'] and r['width'] <= 8, 'R-C04-stego', f.qual,
              'reader fills data byte row*width + col', '',
              'reader index / width changed', f.loc)


def rule_memmap(ctx, res):
    """evaluated first: the writer's layout of the image memory (to_file on
    symbolic regions) against the slices the loaded game is built from
    (from_file on symbolic image memory) -- writer and reader compared with
    each other, whatever way they are written"""
    from . import cxcodecs as XC
    F = PNG + ':P8PNGFormatter'
    try:
        pl = XC.evaluate_png_plumbing(ctx)
        if not isinstance(pl.writer, AnalysisError) and \
                not isinstance(pl.loaded, AnalysisError):
            wl = pl.writer_layout()
            gr = pl.game_regions()
            cs = pl.code_slice()
            bad = []
            for n in ('gfx', 'map', 'gff', 'music', 'sfx'):
                w_ = wl.get(n)
                g_ = gr.get(n)
                if w_ is None or g_ is None or (g_[1], g_[2]) != w_ or \
                        g_[0] != XC.SECTIONS[n].split(':')[-1]:
                    bad.append((n, w_, g_))
            if cs is None or wl.get('code') != cs[:2]:
                bad.append(('code', wl.get('code'), cs))
            vw = wl.get('version', (None,))[0]
            vr = gr.get('version')
            if vw is None or vr is None or vr[1] != vw or (
                    cs is not None and cs[2] != vw):
                bad.append(('version', vw, vr))
            res.check(not bad, 'R-C04-memmap', F + '.from_file',
                      'reader slice bounds == prefix sums of the writer\'s '
                      'regions, each slice consumed by the class of its '
                      'region',
                      'evaluated: writer layout {}'.format(
                          {k: v for k, v in wl.items() if k != 'size'}),
                      'the writer lays the image memory out differently '
                      'from what the reader takes: (part, writer, reader) '
                      '{}'.format(bad), ctx.model.func(F + '.from_file').loc,
                      semantic=True)
            code = wl.get('code')
            res.check(code is not None and code[1] - code[0] ==
                      ref.CODE_AREA and wl.get('size') == 0x8001,
                      'R-C04-memmap', F + '.to_file',
                      'code area is 0x3d00 bytes, image is 0x8001 bytes',
                      '', 'code area {} / image {}'.format(code,
                                                           wl.get('size')),
                      ctx.model.func(F + '.to_file').loc, semantic=True)
            return
    except AnalysisError:
        pass
    sizes = _region_sizes(ctx)
    m = codecs.png_memory_order(ctx)
    w, r = m['writer'], m['reader']
    # code area size
    gb = ctx.model.func(PNG + ':get_bytes_from_code')
    code_size = None
    for n in walk_own(gb.node):
        if isinstance(n, ast.Call) and isinstance(n.func, ast.Name) and \
                n.func.id == 'bytearray' and n.args:
            v = ctx.consts.eval_expr(gb.module, n.args[0])
            if isinstance(v, int):
                code_size = v
    if not m['order']:
        res.vanished('R-C04-memmap', w.qual, 'join', 'join tuple not found')
        return
    bounds = {}
    pos = 0
    attr_of = {'gfx': 'gfx', 'map': 'p8map', 'gff': 'gfx_props',
               'music': 'song', 'sfx': 'sfx', 'code': 'codedata',
               'version': 'version'}
    ok = True
    for name in m['order']:
        size = sizes.get(name) if name in sizes else (
            code_size if name == 'code' else (1 if name == 'version'
                                              else None))
        if size is None:
            ok = False
            break
        bounds[attr_of.get(name, name)] = (pos, pos + size)
        pos += size
    got = {k: (a, (b if b is not None else a + 1))
           for k, (a, b) in m['slices'].items()}
    res.check(ok and bounds == got, 'R-C04-memmap', r.qual,
              'reader slice bounds == prefix sums of the writer\'s regions',
              '{}'.format({k: (hex(a), hex(b)) for k, (a, b) in
                           sorted(bounds.items(), key=lambda x: x[1])}),
              'writer lays the image out as {} but the reader slices '
              '{}'.format(bounds, got), r.loc)
    want_cons = {'gfx': ('Gfx', 'gfx'), 'gff': ('Gff', 'gfx_props'),
                 'map': ('Map', 'p8map'), 'sfx': ('Sfx', 'sfx'),
                 'music': ('Music', 'song')}
    res.check(m['consumers'] == want_cons, 'R-C04-memmap',
              PNG + ':P8PNGFormatter.from_file',
              'each slice is consumed by the class of its region', '',
              'slices consumed as {}'.format(m['consumers']))
    res.check(code_size == ref.CODE_AREA and pos == 0x8001, 'R-C04-memmap',
              gb.qual, 'code area is 0x3d00 bytes, image is 0x8001 bytes',
              '', 'code area {} / image {}'.format(code_size, pos), gb.loc)


def _flat_bytes(e):
    """parts of a byte-string built by + or b''.join([...])"""
    if isinstance(e, ast.BinOp) and isinstance(e.op, ast.Add):
        return _flat_bytes(e.left) + _flat_bytes(e.right)
    if isinstance(e, ast.Call) and isinstance(e.func, ast.Attribute) and \
            e.func.attr == 'join' and const_str(e.func.value) == b'' and \
            len(e.args) == 1 and isinstance(e.args[0], (ast.List, ast.Tuple)):
        out = []
        for x in e.args[0].elts:
            out.extend(_flat_bytes(x))
        return out
    return [e]


def _is_be16(e, lentext):
    """e == bytes(<two ints>) spelling the big-endian 16-bit value of
    len(code), checked by evaluating the extracted expression for several
    lengths"""
    from ..absint import arith
    if not (isinstance(e, ast.Call) and isinstance(e.func, ast.Name) and
            e.func.id == 'bytes' and len(e.args) == 1):
        return False
    a = e.args[0]
    try:
        for Lv in (0, 1, 255, 256, 0x1234, 0x3d00, 65535):
            env = {lentext: Lv}
            if isinstance(a, (ast.List, ast.Tuple)) and len(a.elts) == 2:
                got = [arith.ev(x, env) for x in a.elts]
            elif isinstance(a, ast.Call) and isinstance(a.func, ast.Name) \
                    and a.func.id == 'divmod' and len(a.args) == 2:
                x, y = arith.ev(a.args[0], env), arith.ev(a.args[1], env)
                got = [x // y, x % y]
            else:
                return False
            if got != [Lv >> 8, Lv & 255]:
                return False
    except AnalysisError:
        return False
    return True


def rule_header(ctx, res):
    from ..absint.symbody import SymBody
    model, ev = ctx.model, ctx.consts
    u = ast.unparse
    gb = model.func(PNG + ':get_bytes_from_code')
    code = gb.params()[0]
    sym = SymBody(ctx, gb, no_inline={'compress_code'})
    paths = [p for p in sym.run(gb.node.body) if p.end == 'return']
    COMP = 'compress.compress_code({})'.format(code)
    comp_paths, raw_paths, unknown = [], [], []
    for p in paths:
        choice = None
        for (t, v) in p.conds:
            tt = u(t).replace(' ', '')
            c = COMP.replace(' ', '')
            L = 'len({})'.format(code)
            if tt == 'len({})<{}'.format(c, L):
                choice = v
            elif tt == 'len({})>={}'.format(c, L):
                choice = not v
            elif tt == '{}>len({})'.format(L, c):
                choice = v
            elif tt == '{}<=len({})'.format(L, c):
                choice = not v
        (comp_paths if choice else raw_paths if choice is False
         else unknown).append(p)
    if unknown or not comp_paths or not raw_paths:
        res.undecided('R-C04-header', gb.qual, 'compressed/raw choice',
                      'paths of get_bytes_from_code not recognised ({} '
                      'compressed, {} raw, {} other)'.format(
                          len(comp_paths), len(raw_paths), len(unknown)),
                      gb.loc)
    else:
        res.holds('R-C04-header', gb.qual,
                  'compressed form used iff strictly smaller, raw otherwise',
                  'len(compressed) < len(code) selects the compressed form',
                  gb.loc)
    # what is stored into the code area on each path: area[:len(X)] = X
    def stored(p):
        for e in p.events:
            if e[0] == 'store' and isinstance(e[2], ast.Slice):
                return e[3]
        return None
    ok = bool(comp_paths)
    detail = ''
    for p in comp_paths:
        x = stored(p)
        if x is None:
            ok = False
            detail = 'nothing stored into the code area'
            continue
        parts = _flat_bytes(x)
        txt = [const_str(q) if isinstance(const_str(q), bytes) else
               u(q).replace(' ', '') for q in parts]
        L = 'len({})'.format(code)
        len_forms = ('bytes([{0}>>8,{0}&255])'.format(L),
                     'bytes(({0}>>8,{0}&255))'.format(L),
                     'bytes([{0}//256,{0}%256])'.format(L),
                     'bytes(({0}//256,{0}%256))'.format(L))
        good = len(txt) == 4 and txt[0] == ref.C_HEADER and \
            (txt[1] in len_forms or _is_be16(parts[1], L)) and \
            txt[2] == b'\x00\x00' and \
            txt[3] in (COMP.replace(' ', ''),
                       'bytes({})'.format(COMP.replace(' ', '')))
        if not good:
            ok = False
            detail = 'header written as {}'.format(txt[:4])
    res.check(ok, 'R-C04-header', gb.qual,
              'writer header = :c:\\0, len hi, len lo, \\0\\0 (8 bytes)',
              'magic, length of the code (big endian), two zero bytes, '
              'compressed stream', detail or 'header not recognised', gb.loc)
    for p in raw_paths:
        x = stored(p)
        good = x is not None and u(x).replace(' ', '') in (
            'bytes({})'.format(code), code)
        res.check(good, 'R-C04-header', gb.qual,
                  'raw form stores the code itself', '',
                  'raw path stores {}'.format(u(x) if x is not None else None),
                  gb.loc)
        break
    # ---- reader -----------------------------------------------------------------
    gc = model.func(PNG + ':get_code_from_bytes')
    rs = SymBody(ctx, gc, no_inline={'decompress_code'})
    rpaths = [p for p in rs.run(gc.node.body) if p.end == 'return']
    n_dec = n_raw = 0
    bad = []
    for p in rpaths:
        magic = ver0 = None
        for (t, v) in p.conds:
            tt = u(t).replace(' ', '')
            if tt == 'version==0':
                ver0 = v
            elif tt == 'version!=0':
                ver0 = not v
            elif tt in ("bytes(codedata[:4])!=b':c:\\x00'",):
                magic = not v
            elif tt in ("bytes(codedata[:4])==b':c:\\x00'",):
                magic = v
        uses_dec = 'decompress_code(codedata)' in u(p.ret) if p.ret is not \
            None else False
        want_dec = (ver0 is False and magic is True)
        if uses_dec:
            n_dec += 1
            if not want_dec:
                bad.append('decompresses although version==0 is {} / magic '
                           'matches is {}'.format(ver0, magic))
        else:
            n_raw += 1
            if want_dec:
                bad.append('takes the code raw although the magic matches')
    if n_dec == 0 or n_raw == 0:
        res.undecided('R-C04-header', gc.qual,
                      'reader recognises compressed code by the same 4-byte '
                      'magic', 'reader paths not recognised', gc.loc)
    else:
        res.check(not bad, 'R-C04-header', gc.qual,
                  'reader recognises compressed code by the same 4-byte '
                  'magic', '{} decompressing / {} raw paths'.format(
                      n_dec, n_raw),
                  'reader tests another magic / length: ' + '; '.join(
                      sorted(set(bad))[:2]), gc.loc)
    dec = model.func('pico8.game.compress:decompress_code')
    src = ast.unparse(dec.node).replace(' ', '')
    res.check(('code_length=codedata[4]<<8|codedata[5]' in src or
               'code_length=(codedata[4]<<8)|codedata[5]' in src) and
              'in_i=8' in src and "bytes(codedata[6:8])==b'\\x00\\x00'" in src,
              'R-C04-header', dec.qual,
              'decoder consumes the same 8-byte header', '',
              'decoder header handling changed', dec.loc)
    # raw branch of the reader: text up to the first zero byte, + newline
    gsrc = ast.unparse(gc.node).replace(' ', '')
    try:
        area = ev.module_const(PNG, 'CODE_AREA_SIZE')
    except Exception:
        area = None
    raw_ok = ('codedata.index(0)' in gsrc or 'codedata.find(0)' in gsrc) \
        and ('0x8000-0x4300' in gsrc or '32768-17152' in gsrc or
             '15616' in gsrc or area == ref.CODE_AREA)
    res.check(raw_ok, 'R-C04-header', gc.qual,
              'raw code = bytes up to the first zero (or the whole area)',
              '', 'raw code extraction changed', gc.loc)


def _int_of(e):
    """value of a constant-size expression: 5, len(bytearray(5)), ..."""
    if isinstance(e, ast.Constant) and isinstance(e.value, int) and \
            not isinstance(e.value, bool):
        return e.value
    if isinstance(e, ast.Call) and isinstance(e.func, ast.Name) and \
            e.func.id == 'len' and len(e.args) == 1:
        a = e.args[0]
        if isinstance(a, ast.Call) and isinstance(a.func, ast.Name) and \
                a.func.id in ('bytearray', 'bytes') and len(a.args) == 1:
            return _int_of(a.args[0])
        if isinstance(a, ast.Constant) and isinstance(a.value, bytes):
            return len(a.value)
    if isinstance(e, ast.BinOp) and isinstance(e.op, (ast.Sub, ast.Add)):
        x, y = _int_of(e.left), _int_of(e.right)
        if x is not None and y is not None:
            return x - y if isinstance(e.op, ast.Sub) else x + y
    return None


def _bounds_len(test, val, vtext):
    """the largest len(V) the condition (test is val) allows, or None"""
    if not (isinstance(test, ast.Compare) and len(test.ops) == 1):
        return None
    a, op, b = test.left, test.ops[0], test.comparators[0]

    def is_len(e):
        return isinstance(e, ast.Call) and isinstance(e.func, ast.Name) and \
            e.func.id == 'len' and len(e.args) == 1 and \
            ast.unparse(e.args[0]) == vtext
    flip = {ast.Gt: ast.Lt, ast.GtE: ast.LtE, ast.Lt: ast.Gt,
            ast.LtE: ast.GtE}
    if is_len(b) and type(op) in flip:
        a, b, op = b, a, flip[type(op)]()
    if not is_len(a):
        return None
    c = _int_of(b)
    if c is None:
        return None
    if isinstance(op, ast.Gt) and val is False:
        return c
    if isinstance(op, ast.GtE) and val is False:
        return c - 1
    if isinstance(op, ast.LtE) and val is True:
        return c
    if isinstance(op, ast.Lt) and val is True:
        return c - 1
    return None


def rule_refuse(ctx, res):
    """on every returning path of get_bytes_from_code, the slice store of
    the code into the fixed-size area is preceded by a condition that bounds
    the length of the stored value by the size of the area"""
    from ..absint.symbody import SymBody
    model = ctx.model
    gb = model.func(PNG + ':get_bytes_from_code')
    sym = SymBody(ctx, gb, no_inline={'compress_code'})
    paths = [p for p in sym.run(gb.node.body) if p.end == 'return']
    if not paths:
        res.undecided('R-C04-refuse', gb.qual, 'code area store',
                      'no returning path')
        return
    seen = 0
    bad = None
    for p in paths:
        for i, ev in enumerate(p.events):
            if ev[0] != 'store' or not isinstance(ev[2], ast.Slice):
                continue
            arr, sl, val, node = ev[1], ev[2], ev[3], ev[4]
            if isinstance(arr, ast.Name):
                binds = [e for e in p.events[:i]
                         if e[0] == 'bind' and e[1] == arr.id]
                if binds:
                    arr = binds[-1][2]
            cap = _int_of(ast.Call(func=ast.Name(id='len', ctx=ast.Load()),
                                   args=[arr], keywords=[]))
            if cap is None:
                continue
            seen += 1
            vtext = ast.unparse(val)
            limit = None
            for k, (t, v) in enumerate(p.conds):
                if p.conds.at[k] > i:
                    continue
                b = _bounds_len(t, v, vtext)
                if b is not None:
                    limit = b if limit is None else min(limit, b)
            if limit is None or limit > cap:
                bad = (node, cap, limit, p)
    if not seen:
        res.undecided('R-C04-refuse', gb.qual, 'code area store',
                      'no slice store into a fixed-size bytearray found on '
                      'the returning paths')
        return
    if bad is None:
        res.holds('R-C04-refuse', gb.qual,
                  'code that does not fit is refused',
                  'on each of the {} returning paths the length of the '
                  'stored code is bounded by the size of the area before '
                  'the store'.format(len(paths)), gb.loc)
    else:
        node, cap, limit, p = bad
        res.violation(
            'R-C04-refuse', gb.qual, 'code that does not fit is refused',
            'the slice store `{}` into the {}-byte area is not guarded '
            '(bound on the path: {}): code longer than the area LENGTHENS '
            'the bytearray, the image data becomes longer than the PNG, '
            'and the tail of the code and the version byte fall off the '
            'last pixel -- a truncated cart is written without any '
            'error'.format(unparse(node, 60), cap, limit),
            gb.module.loc(node))


def rule_kinds(ctx, res):
    model = ctx.model
    gb = model.func(PNG + ':get_bytes_from_code')
    params = gb.params()
    # kind of each parameter from the call sites in the package
    kinds = {p: set() for p in params}
    g, _ = model.callgraph()
    for q, edges in g.items():
        caller = model.functions[q]
        for (call, kind, targets) in edges:
            if any(isinstance(t, FuncInfo) and t.qual == gb.qual
                   for t in targets):
                for i, a in enumerate(call.args):
                    if i < len(params):
                        kinds[params[i]].add(_kind_of(caller, a))
    n = 0
    for c in walk_own(gb.node):
        if isinstance(c, ast.Call) and isinstance(c.func, ast.Name) and \
                c.func.id == 'bytes' and len(c.args) + len(c.keywords) >= 2 \
                and c.args and isinstance(c.args[0], ast.Name) and \
                c.args[0].id in kinds:
            n += 1
            k = kinds[c.args[0].id]
            res.check('bytes' not in k, 'R-C04-kinds', gb.qual,
                      'bytes(x, encoding) receives text',
                      'argument kinds {}'.format(sorted(map(str, k))),
                      'bytes({}, <encoding>) is reached by a value of kind '
                      'bytes (every call site passes b"".join(...)): Python '
                      'raises TypeError("encoding without a string '
                      'argument") -- every cart whose code does not '
                      'compress smaller cannot be saved as .p8.png'.format(
                          c.args[0].id), gb.module.loc(c))
    if n == 0:
        # no encoding conversion of a parameter: the raw branch must still
        # produce bytes from the parameter
        raw = [s for s in walk_own(gb.node) if isinstance(s, ast.Assign) and
               ast.unparse(s.targets[0]) == 'code_bytes']
        ok = any(ast.unparse(s.value).replace(' ', '') in
                 ('bytes(code)', 'code', 'bytearray(code)') for s in raw)
        res.check(ok, 'R-C04-kinds', gb.qual,
                  'raw branch stores the code bytes as they are', '',
                  'raw branch does not store the code itself', gb.loc)
    # the caller hands bytes
    res.check(all(k <= {'bytes'} for k in kinds.values() if k),
              'R-C04-kinds', gb.qual, 'call sites pass bytes',
              '{}'.format({p: sorted(map(str, k)) for p, k in kinds.items()}),
              'a call site passes a non-bytes value', gb.loc)


def _kind_of(f, e):
    if isinstance(e, ast.Constant):
        return 'bytes' if isinstance(e.value, bytes) else (
            'str' if isinstance(e.value, str) else 'other')
    if isinstance(e, ast.Call) and isinstance(e.func, ast.Attribute) and \
            e.func.attr == 'join':
        return _kind_of(f, e.func.value)
    if isinstance(e, ast.Call) and isinstance(e.func, ast.Name) and \
            e.func.id in ('bytes', 'bytearray'):
        return 'bytes'
    if isinstance(e, ast.Call) and isinstance(e.func, ast.Name) and \
            e.func.id == 'str':
        return 'str'
    return 'unknown'


def rule_code_area_evaluated(ctx, res):
    """-> True when both directions of the code area were decided by
    evaluation (the shape rules for header / refuse / kinds are then
    redundant)"""
    from . import cxcodecs as XC
    ca = XC.CodeAreaEval(ctx)
    decided = 0
    try:
        wp = ca.writer_problem()
        cases = ', '.join('{}/{}'.format(n, m) for (n, m) in ca.CASES)
        refuse = wp is not None and ('do not fit' in wp or
                                     'does not fit' in wp)
        res.check(wp is None or refuse, 'R-C04-header', ca.f.qual,
                  'code area = `:c:\\0` + length (hi, lo) + `\\0\\0` + '
                  'stream when the stream is shorter than the code, else '
                  'the code itself; zero padded to 0x3d00 (evaluated)',
                  'get_bytes_from_code evaluated with a stand-in compressor '
                  'for code/stream lengths ' + cases,
                  wp or '', ca.f.loc, semantic=True)
        res.check(not refuse, 'R-C04-refuse', ca.f.qual,
                  'code that does not fit is refused (evaluated)',
                  'lengths at and around the 0x3d00-byte limit, with and '
                  'without the 8-byte header', wp or '', ca.f.loc,
                  semantic=True)
        decided += 1
    except AnalysisError as e:
        res.info('R-C04-header', ca.f.qual, 'code area writer not followed '
                 'by the evaluation', str(e)[:160])
    try:
        rp = ca.reader_problem()
        res.check(rp is None, 'R-C04-header', ca.g.qual,
                  'an area starting with `:c:\\0` (version > 0) goes to the '
                  'decompressor and its result is returned; any other area '
                  'is the text up to the first zero + newline (evaluated)',
                  '', rp or '', ca.g.loc, semantic=True)
        decided += 1
    except AnalysisError as e:
        res.info('R-C04-header', ca.g.qual, 'code area reader not followed '
                 'by the evaluation', str(e)[:160])
    return decided == 2


def run(ctx, res):
    evaluated = False
    try:
        evaluated = rule_code_area_evaluated(ctx, res)
    except AnalysisError as e:
        res.info('R-C04-header', 'rule_code_area_evaluated', 'analysis',
                 str(e)[:160])
    rules = (rule_stego, rule_memmap) if evaluated else (
        rule_stego, rule_memmap, rule_header, rule_refuse, rule_kinds)
    for rule in rules:
        try:
            rule(ctx, res)
        except AnalysisError as e:
            res.undecided('R-C04-' + rule.__name__[5:], rule.__name__,
                          'analysis', str(e))
    from .c11 import rule_label
    rule_label(ctx, res)
