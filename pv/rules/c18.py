"""C18 -- raw cart-memory writes land at the addressed bytes and only there.

Rules: R-C18-reject, R-C18-map, R-C18-slices.
"""
import ast

from ..absint import arith, addrsim
from ..cfg import cfg_of
from ..consteval import UNKNOWN
from ..core import AnalysisError
from ..refs import formats as ref
from ..srcmodel import walk_own, const_str
from .common import unparse

EXPLANATION = (
    'Game.write_cart_data is analysed as piecewise-affine index arithmetic in '
    'two symbols, s = start_addr and e = s + len(data); cart data plays no '
    'role (the whole function body, including early returns and any number '
    'of loops over the memory map, is interpreted on the integers). R-C18-map: the memmap tuple evaluates to contiguous '
    '(start, end, region) rows from 0 to 0x4300 that equal the reference '
    'memory map, each row\'s array is the region of that name, and each '
    'region\'s size (from its empty() constructor) equals end - start. '
    'R-C18-reject: the raising test dominates the loop and is true exactly '
    'when s + len(data) exceeds the end of the map. R-C18-slices: every '
    'comparison in the loop body is checked to compare s or e with a row '
    'constant, so the body is affine on each cell of the arrangement cut by '
    '{start, end} on the s- and e-axes; the slice bounds are evaluated (own '
    'integer evaluator, Python slice normalisation including negative and -0 '
    'bounds) at affinely independent representative points of every cell, '
    'which decides for ALL (s, len): destination slice == [max(s,a)-a, '
    'min(e,b)-a), source slice == [max(s,a)-s, min(e,b)-s), equal lengths '
    '(no region changes size), and nothing is stored when the intersection '
    'is empty.')

ASSUMPTIONS = [
    'Python slice-assignment semantics (documented)',
    'piecewise-affine completeness argument: two affine maps that agree on '
    'three affinely independent points of a cell agree on the cell',
]

Q = 'pico8.game.game:Game.write_cart_data'


def _region_sizes(ctx):
    model, ev = ctx.model, ctx.consts
    out = {}
    for name, clsq in (('gfx', 'pico8.gfx.gfx:Gfx'), ('map', 'pico8.map.map:Map'),
                       ('gff', 'pico8.gff.gff:Gff'),
                       ('music', 'pico8.music.music:Music'),
                       ('sfx', 'pico8.sfx.sfx:Sfx')):
        c = model.cls(clsq)
        m = c.methods.get('empty')
        size = None
        if m is not None:
            for n in walk_own(m.node):
                if isinstance(n, ast.Call):
                    for k in n.keywords:
                        if k.arg == 'data':
                            v = ev.eval_expr(m.module, k.value)
                            if isinstance(v, (bytes, bytearray)):
                                size = len(v)
        out[name] = size
    return out


def rule_map(ctx, res, rows, node, f):
    want = [(a, b, n) for (n, a, b) in ref.MEMORY_MAP]
    res.tables['memmap'] = [(hex(a), hex(b), n) for (a, b, n) in rows]
    res.check(rows == want, 'R-C18-map', Q, 'memmap == reference memory map',
              '{}'.format(res.tables['memmap']),
              'memory map differs from the PICO-8 map: got {} want {}'.format(
                  rows, want), f.module.loc(node))
    contiguous = all(rows[i][1] == rows[i + 1][0]
                     for i in range(len(rows) - 1)) and rows[0][0] == 0 and \
        rows[-1][1] == ref.DATA_END
    res.check(contiguous, 'R-C18-map', Q, 'rows contiguous from 0 to 0x4300',
              '', 'gap or overlap between regions', f.module.loc(node))
    sizes = _region_sizes(ctx)
    res.tables['region_sizes'] = sizes
    for (a, b, n) in rows:
        res.check(sizes.get(n) == b - a, 'R-C18-map', Q,
                  'region {} size == end - start'.format(n),
                  '{} bytes'.format(b - a),
                  'region {} holds {} bytes but the map gives it {}'.format(
                      n, sizes.get(n), b - a), f.module.loc(node))


def _sim(ctx, f):
    params = f.params()
    data = params[1] if len(params) > 1 else 'data'
    addr = params[2] if len(params) > 2 else 'start_addr'
    return addrsim.Sim(ctx, f, data, addr)


def extract_rows(ctx, f):
    """the memory map the function walks: [(start, end, region name)]"""
    sim = _sim(ctx, f)
    sim.run(0, 1)
    if len(sim.row_tables) != 1:
        raise AnalysisError('expected one (start, end, region array) table '
                            'walked by a loop, found {}'.format(
                                len(sim.row_tables)))
    return sim.row_tables[0]


def _axis(points, total):
    """representative values: every breakpoint, and the ends and an interior
    point of every open interval between consecutive breakpoints"""
    bps = sorted({min(max(k, 0), total + 3) for k in points})
    out = []
    prev = -1
    for k in bps:
        if k - 1 > prev:
            lo, hi = prev + 1, k - 1
            out.append(sorted({lo, min(lo + 1, hi), hi}))
        out.append([k])
        prev = k
    return out


def rule_effect(ctx, res, f, rows):
    total = rows[-1][1]
    sim = _sim(ctx, f)
    # integer constants of the function shift the breakpoints
    offs = {0}
    for n in walk_own(f.node):
        if isinstance(n, ast.Constant) and isinstance(n.value, int) and \
                not isinstance(n.value, bool) and 0 < abs(n.value) <= 64:
            offs |= {n.value, -n.value}
    marks = {0, total, total + 1, total + 2} | \
        {k + o for (a, b, _n) in rows for k in (a, b) for o in offs}
    res.stats['breakpoint_offsets'] = sorted(offs)
    axis = _axis(marks, total)
    n_pts = cells = 0
    bad_reject = None
    bad = {}
    sizes = {name: b - a for (a, b, name) in rows}
    bounds = {name: (a, b) for (a, b, name) in rows}
    for sp in axis:
        for ep in axis:
            pts = [(s, e) for s in sp for e in ep if s <= e]
            if not pts:
                continue
            cells += 1
            for (s, e) in pts:
                n_pts += 1
                L = e - s
                try:
                    outcome, stores = sim.run(s, L)
                except AnalysisError as ex:
                    res.undecided('R-C18-slices', Q, 'analysis', str(ex),
                                  f.loc)
                    return
                if (outcome == 'raise') != (e > total) or (
                        outcome == 'raise' and stores):
                    if bad_reject is None or (s, L) < bad_reject[:2]:
                        bad_reject = (s, L, outcome, len(stores))
                    continue
                if outcome == 'raise':
                    continue
                # net effect per region
                per = {}
                for (reg, dlo, dhi, slo, shi) in stores:
                    per.setdefault(reg, []).append((dlo, dhi, slo, shi))
                for (a, b, name) in rows:
                    lo_i, hi_i = max(s, a), min(e, b)
                    got = per.get(name, [])
                    msg = None
                    eff = []
                    for (dlo, dhi, slo, shi) in got:
                        d0, d1 = arith.norm_slice(dlo, dhi, sizes[name])
                        s0, s1 = arith.norm_slice(slo, shi, L)
                        raw = 'region[{}:{}] = data[{}:{}]'.format(
                            '' if dlo is None else dlo,
                            '' if dhi is None else dhi,
                            '' if slo is None else slo,
                            '' if shi is None else shi)
                        if d1 - d0 != s1 - s0:
                            msg = ('{} replaces {} bytes by {}: the region '
                                   'changes size'.format(raw, d1 - d0,
                                                         s1 - s0))
                            break
                        if d1 > d0:
                            eff.append((d0, d1, s0, s1, raw))
                    if msg is None:
                        if lo_i >= hi_i:
                            if eff:
                                msg = ('nothing of the write lies in the '
                                       'region, yet {} is executed'.format(
                                           eff[0][4]))
                        elif not eff:
                            msg = ('nothing is stored although bytes '
                                   '0x{:x}..0x{:x} fall into the '
                                   'region'.format(lo_i, hi_i - 1))
                        elif len(eff) > 1:
                            msg = 'several stores into one region'
                        else:
                            (d0, d1, s0, s1, raw) = eff[0]
                            want_d = (lo_i - a, hi_i - a)
                            want_s = (lo_i - s, hi_i - s)
                            if (d0, d1) != want_d or (s0, s1) != want_s:
                                msg = ('{} addresses region bytes [{}:{}) / '
                                       'data bytes [{}:{}); expected region '
                                       '[{}:{}) / data [{}:{})'.format(
                                           raw, d0, d1, s0, s1, want_d[0],
                                           want_d[1], want_s[0], want_s[1]))
                    if msg is not None:
                        old = bad.get(name)
                        if old is None or (L, s) < (old[1], old[0]):
                            bad[name] = (s, L, msg)
                extra = set(per) - set(sizes)
                if extra:
                    bad.setdefault(sorted(extra)[0], (s, L, 'store into an '
                                                      'array outside the map'))
    res.stats['slice_points_evaluated'] = n_pts
    res.stats['arrangement_cells'] = cells
    res.check(bad_reject is None, 'R-C18-reject', Q,
              'rejects exactly the writes that pass 0x{:x}, before any '
              'store'.format(total),
              '{} cells of the (start, end) arrangement'.format(cells),
              'write_cart_data(data of {} bytes, start_addr=0x{:x}) {} '
              '(write ends at 0x{:x}; {} stores made)'.format(
                  bad_reject[1], bad_reject[0],
                  'raises' if bad_reject[2] == 'raise' else 'is accepted',
                  bad_reject[0] + bad_reject[1], bad_reject[3])
              if bad_reject else '', f.loc)
    for (a, b, name) in rows:
        inst = 'region {} [0x{:x},0x{:x})'.format(name, a, b)
        if name not in bad:
            res.holds('R-C18-slices', Q, inst,
                      '{} cells of the (start, end) arrangement, all '
                      'representative points agree with the '
                      'specification'.format(cells), f.loc)
        else:
            (s, L, msg) = bad[name]
            res.violation('R-C18-slices', Q, inst,
                          'write_cart_data(data of {} bytes, start_addr='
                          '0x{:x}): {}'.format(L, s, msg), f.loc)
    res.require_min('R-C18-slices', 5)


def rule_reject_dominates(ctx, res, f, rows):
    """structural part: a raising test precedes every store on every path"""
    cfg = cfg_of(f)
    stores = [n for n in walk_own(f.node) if isinstance(n, ast.Assign) and
              isinstance(n.targets[0], ast.Subscript)]
    guards = []
    for n in cfg.nodes:
        if n.kind == 'test' and isinstance(n.stmt, ast.If):
            tr = cfg.succ_by_label(n, 'true')
            reach = cfg.reachable_from(tr, avoid={n})
            if cfg.raise_exit in reach and cfg.exit not in reach:
                guards.append(n)
    ok = bool(guards) and bool(stores) and all(
        any(cfg.dominates(g, sn) for g in guards)
        for st in stores for sn in cfg.nodes_of(st))
    res.check(ok, 'R-C18-reject', Q, 'raising size test dominates all stores',
              '{} store site(s)'.format(len(stores)),
              'no raising test precedes the region stores: an oversized '
              'write is partially applied', f.loc)


def rule_fresh_regions(ctx, res):
    """write_cart_data must reach the section arrays of the game as it is
    NOW: a memory map cached on the object on first use keeps pointing at
    section objects that were replaced since (build, from_file and every
    caller may rebind game.gfx ...)"""
    from . import memo
    cls = ctx.model.func(Q).cls
    hits = 0
    for q, f in sorted(ctx.model.functions.items()):
        if f.cls is not cls:
            continue
        for (node, attr, reads) in memo.lazy_attribute_caches(f):
            if any(r in ('gfx', 'gff', 'map', 'sfx', 'music') for r in reads):
                hits += 1
                res.violation(
                    'R-C18-map', f.qual, 'region arrays are looked up on '
                    'every write, not cached on the game',
                    'self.{} is filled once from self.{{{}}} and reused: '
                    'after a section is replaced (game.gfx = other.gfx, as '
                    'build does) writes land in the old section object and '
                    'the addressed bytes of the cart do not change'.format(
                        attr, ', '.join(reads)), f.module.loc(node),
                    semantic=True)
    if not hits:
        res.holds('R-C18-map', cls.qual, 'region arrays are looked up on '
                  'every write, not cached on the game', '')


def rule_evaluated(ctx, res, f, why):
    """write_cart_data is written in a form the row extraction cannot read:
    evaluate the whole method (absint/cx.py) on a game whose five regions and
    whose data are symbolic bytes, for every (start, end) pair taken from the
    region bounds +-2 and a few interior points, and compare every byte of
    every region with the specification"""
    from ..absint import cx as CX
    from ..absint.symx import BV
    cxi = CX.Cx(ctx.model, ctx.consts)
    G = f.cls
    secs = {'gfx': 'pico8.gfx.gfx:Gfx', 'map': 'pico8.map.map:Map',
            'gff': 'pico8.gff.gff:Gff', 'music': 'pico8.music.music:Music',
            'sfx': 'pico8.sfx.sfx:Sfx'}
    total = ref.DATA_END
    mem = {n: [BV.source(('mem', n, k), 8) for k in range(b - a)]
           for (n, a, b) in ref.MEMORY_MAP}
    import operator
    data_all = [BV.source(('data', k), 8) for k in range(total + 3)]

    def same(xs, ys):
        return len(xs) == len(ys) and all(map(operator.is_, xs, ys))
    pts = {0, 1, total, total + 1}
    for (_n, a, b) in ref.MEMORY_MAP:
        for k in (a, b):
            pts |= {k - 1, k, k + 1}
        pts.add((a + b) // 2)
    pts = sorted(x for x in pts if 0 <= x <= total + 2)
    pairs = [(s, e) for s in pts for e in pts if s <= e]
    bad = None
    bad_reject = None
    n = 0
    try:
        for (s, e) in pairs:
            n += 1
            L = e - s
            data = data_all[:L]
            state = {}

            def go():
                g = CX.Obj(G)
                for nm, q in secs.items():
                    o = CX.Obj(ctx.model.cls(q))
                    o.attrs['_data'] = CX.Seq('bytearray', list(mem[nm]))
                    o.attrs['_version'] = 8
                    g.attrs[nm] = o
                state['g'] = g
                return cxi.call(cxi.getattr(g, 'write_cart_data'),
                                [CX.Seq('bytes', list(data)), s], {})
            paths = cxi.explore(go)
            if len(paths) != 1 or paths[0][0]:
                raise CX.CxError('write_cart_data branches on data bytes')
            kind, val = paths[0][1]
            g = state['g']
            changed = any(not same(g.attrs[nm].attrs['_data'].items,
                                   mem[nm]) for nm in secs)
            if (kind == 'raise') != (e > total) or (kind == 'raise' and
                                                    changed):
                if bad_reject is None:
                    bad_reject = (s, L, kind, val.tname if kind == 'raise'
                                  else '')
                continue
            if kind == 'raise':
                continue
            for (nm, a, b) in ref.MEMORY_MAP:
                got = g.attrs[nm].attrs['_data'].items
                if len(got) != b - a:
                    bad = bad or (s, L, nm, 'the region has {} bytes '
                                  'afterwards instead of {}'.format(
                                      len(got), b - a))
                    continue
                lo, hi = max(s, a), min(e, b)
                if lo >= hi:
                    want_l = mem[nm]
                else:
                    want_l = mem[nm][:lo - a] + data[lo - s:hi - s] + \
                        mem[nm][hi - a:]
                if same(got, want_l):
                    continue
                for i in range(b - a):
                    x, want = got[i], want_l[i]
                    if x is want:
                        continue
                    xb = x if isinstance(x, BV) else BV.const(x, 8)
                    if xb != want:
                        bad = bad or (s, L, nm, 'byte 0x{:x} of the cart '
                                      'holds {} instead of {}'.format(
                                          a + i, xb, want))
                        break
    except AnalysisError as ex:
        res.undecided('R-C18-map', Q, 'memmap', '{}; whole-method evaluation '
                      'could not follow it either: {}'.format(
                          why[:100], str(ex)[:100]), f.loc)
        return
    res.check(bad_reject is None, 'R-C18-reject', Q,
              'rejects exactly the writes that pass 0x{:x}, before any '
              'store (evaluated)'.format(total),
              '{} (start, end) pairs'.format(n),
              'write_cart_data(data of {} bytes, start_addr=0x{:x}) {}'.format(
                  bad_reject[1], bad_reject[0],
                  'raises ' + bad_reject[3] if bad_reject[2] == 'raise'
                  else 'is accepted') if bad_reject else '', f.loc,
              semantic=True)
    res.check(bad is None, 'R-C18-slices', Q,
              'the addressed bytes become the data, every other byte of '
              'every region is unchanged (evaluated)',
              '{} (start, end) pairs around every region bound, all region '
              'and data bytes symbolic'.format(n),
              'write_cart_data(data of {} bytes, start_addr=0x{:x}), region '
              '{}: {}'.format(bad[1], bad[0], bad[2], bad[3]) if bad else '',
              f.loc, semantic=True)


def run(ctx, res):
    model = ctx.model
    f = model.func(Q)
    rule_fresh_regions(ctx, res)
    try:
        rows = extract_rows(ctx, f)
    except AnalysisError as e:
        rule_evaluated(ctx, res, f, str(e))
        return
    rule_map(ctx, res, rows, f.node, f)
    rule_reject_dominates(ctx, res, f, rows)
    rule_effect(ctx, res, f, rows)
