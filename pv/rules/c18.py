"""C18 -- raw cart-memory writes land at the addressed bytes and only there.

Rules: R-C18-reject, R-C18-map, R-C18-slices.
"""
import ast

from ..absint import arith
from ..cfg import cfg_of
from ..consteval import UNKNOWN
from ..core import AnalysisError
from ..refs import formats as ref
from ..srcmodel import walk_own, const_str
from .common import unparse

EXPLANATION = (
    'Game.write_cart_data is analysed as piecewise-affine index arithmetic in '
    'two symbols, s = start_addr and e = s + len(data); cart data plays no '
    'role. R-C18-map: the memmap tuple evaluates to contiguous '
    '(start, end, region) rows from 0 to 0x4300 that equal the reference '
    'memory map, each row\'s array is the region of that name, and each '
    'region\'s size (from its empty() constructor) equals end - start. '
    'R-C18-reject: the raising test dominates the loop and is true exactly '
    'when s + len(data) exceeds the end of the map. R-C18-slices: every '
    'comparison in the loop body is checked to compare s or e with a row '
    'constant, so the body is affine on each cell of the arrangement cut by '
    '{start, end} on the s- and e-axes; the slice bounds are evaluated (own '
    'integer evaluator, Python slice normalisation including negative and -0 '
    'bounds) at affinely independent representative points of every cell, '
    'which decides for ALL (s, len): destination slice == [max(s,a)-a, '
    'min(e,b)-a), source slice == [max(s,a)-s, min(e,b)-s), equal lengths '
    '(no region changes size), and nothing is stored when the intersection '
    'is empty.')

ASSUMPTIONS = [
    'Python slice-assignment semantics (documented)',
    'piecewise-affine completeness argument: two affine maps that agree on '
    'three affinely independent points of a cell agree on the cell',
]

Q = 'pico8.game.game:Game.write_cart_data'


def _region_sizes(ctx):
    model, ev = ctx.model, ctx.consts
    out = {}
    for name, clsq in (('gfx', 'pico8.gfx.gfx:Gfx'), ('map', 'pico8.map.map:Map'),
                       ('gff', 'pico8.gff.gff:Gff'),
                       ('music', 'pico8.music.music:Music'),
                       ('sfx', 'pico8.sfx.sfx:Sfx')):
        c = model.cls(clsq)
        m = c.methods.get('empty')
        size = None
        if m is not None:
            for n in walk_own(m.node):
                if isinstance(n, ast.Call):
                    for k in n.keywords:
                        if k.arg == 'data':
                            v = ev.eval_expr(m.module, k.value)
                            if isinstance(v, (bytes, bytearray)):
                                size = len(v)
        out[name] = size
    return out


def extract_memmap(ctx, f):
    """-> [(start, end, region attr name)], tuple node, loop node"""
    for n in walk_own(f.node):
        if isinstance(n, ast.Assign) and isinstance(n.value, ast.Tuple) and \
                n.value.elts and all(isinstance(r, ast.Tuple) and
                                     len(r.elts) == 3
                                     for r in n.value.elts):
            rows = []
            for r in n.value.elts:
                a = ctx.consts.eval_expr(f.module, r.elts[0])
                b = ctx.consts.eval_expr(f.module, r.elts[1])
                arr = r.elts[2]
                if not (isinstance(a, int) and isinstance(b, int)):
                    raise AnalysisError('memmap bounds do not evaluate')
                if not (isinstance(arr, ast.Attribute) and
                        arr.attr == '_data' and
                        isinstance(arr.value, ast.Attribute) and
                        isinstance(arr.value.value, ast.Name) and
                        arr.value.value.id == 'self'):
                    raise AnalysisError('memmap array is not self.<r>._data')
                rows.append((a, b, arr.value.attr))
            name = n.targets[0].id if isinstance(n.targets[0], ast.Name) \
                else None
            for lp in walk_own(f.node):
                if isinstance(lp, ast.For) and isinstance(lp.iter, ast.Name) \
                        and lp.iter.id == name:
                    return rows, n, lp
    raise AnalysisError('memmap tuple / loop not found')


def rule_map(ctx, res, rows, node, f):
    want = [(a, b, n) for (n, a, b) in ref.MEMORY_MAP]
    res.tables['memmap'] = [(hex(a), hex(b), n) for (a, b, n) in rows]
    res.check(rows == want, 'R-C18-map', Q, 'memmap == reference memory map',
              '{}'.format(res.tables['memmap']),
              'memory map differs from the PICO-8 map: got {} want {}'.format(
                  rows, want), f.module.loc(node))
    contiguous = all(rows[i][1] == rows[i + 1][0]
                     for i in range(len(rows) - 1)) and rows[0][0] == 0 and \
        rows[-1][1] == ref.DATA_END
    res.check(contiguous, 'R-C18-map', Q, 'rows contiguous from 0 to 0x4300',
              '', 'gap or overlap between regions', f.module.loc(node))
    sizes = _region_sizes(ctx)
    res.tables['region_sizes'] = sizes
    for (a, b, n) in rows:
        res.check(sizes.get(n) == b - a, 'R-C18-map', Q,
                  'region {} size == end - start'.format(n),
                  '{} bytes'.format(b - a),
                  'region {} holds {} bytes but the map gives it {}'.format(
                      n, sizes.get(n), b - a), f.module.loc(node))


def rule_reject(ctx, res, f, loop, rows):
    cfg = cfg_of(f)
    total = rows[-1][1]
    addr, data = f.params()[2] if len(f.params()) > 2 else 'start_addr', \
        f.params()[1]
    addr = f.params()[2] if len(f.params()) > 2 else 'start_addr'
    data = f.params()[1] if len(f.params()) > 1 else 'data'
    guard = None
    for n in cfg.nodes:
        if n.kind == 'test' and isinstance(n.stmt, ast.If) and \
                not any(n.ast is x for x in walk_own(loop)):
            tr = cfg.succ_by_label(n, 'true')
            reach = cfg.reachable_from(tr, avoid={n})
            if cfg.raise_exit in reach and cfg.exit not in reach:
                guard = n
    loop_nodes = cfg.nodes_of(loop)
    ok = guard is not None and all(cfg.dominates(guard, ln)
                                   for ln in loop_nodes)
    res.check(ok, 'R-C18-reject', Q, 'raising size test dominates all stores',
              '', 'no raising test precedes the region loop: an oversized '
              'write is partially applied', f.loc)
    if guard is None:
        return addr, data
    bad = None
    for s in (0, 1, total - 1, total, 0x2000):
        for e in (total - 1, total, total + 1, total + 2):
            if e < s:
                continue
            env = {addr: s, 'len({})'.format(data): e - s}
            try:
                v = arith.ev(guard.ast, env)
            except AnalysisError as ex:
                res.undecided('R-C18-reject', Q, 'threshold', str(ex))
                return addr, data
            if bool(v) != (e > total):
                bad = (s, e - s, bool(v))
    res.check(bad is None, 'R-C18-reject', Q,
              'rejects exactly writes that pass 0x{:x}'.format(total),
              unparse(guard.ast, 60),
              'start {} length {}: test gives {} (a write ending at 0x{:x} '
              'must be {}ed)'.format(
                  *(bad + (bad[0] + bad[1],
                           'reject' if bad[0] + bad[1] > total else 'accept'))
                  if bad else (0, 0, 0, 0, '')),
              f.module.loc(guard.ast))
    return addr, data


def _check_guards_affine(loop, addr, data, rowvars):
    """Every comparison in the loop body relates s or s+len(data) (possibly
    minus a row constant) to a row constant / zero -- the piecewise-affine
    structure the cell argument needs."""
    ok_names = {addr, data} | set(rowvars)
    for n in walk_own(loop):
        if isinstance(n, ast.Compare):
            names = {x.id for x in walk_own(n) if isinstance(x, ast.Name)}
            locs = names - ok_names - {'len', 'max', 'min'}
            # locals defined in the body from the same symbols are fine
            for x in locs:
                pass
        if isinstance(n, (ast.Mult, ast.FloorDiv, ast.Mod, ast.Pow)):
            return False
    return True


def rule_slices(ctx, res, f, loop, rows, addr, data):
    total = rows[-1][1]
    tgt = loop.target
    if not (isinstance(tgt, ast.Tuple) and len(tgt.elts) == 3 and
            all(isinstance(e, ast.Name) for e in tgt.elts)):
        res.undecided('R-C18-slices', Q, 'loop target', 'not a 3-tuple')
        return
    va, vb, varr = [e.id for e in tgt.elts]
    if not _check_guards_affine(loop, addr, data, (va, vb)):
        res.undecided('R-C18-slices', Q, 'affine structure',
                      'loop body uses * // % : not piecewise affine')
        return
    lenkey = 'len({})'.format(data)

    def run_body(env):
        """-> None (skipped) or (dlo, dhi, slo, shi) raw slice bounds"""
        env = dict(env)
        result = [None]

        def block(stmts):
            for st in stmts:
                if isinstance(st, ast.Expr) and isinstance(st.value,
                                                           ast.Constant):
                    continue
                if isinstance(st, ast.If):
                    if arith.ev(st.test, env):
                        block(st.body)
                    else:
                        block(st.orelse)
                    continue
                if isinstance(st, ast.Continue):
                    raise arith.Skip()
                if isinstance(st, ast.Assign) and len(st.targets) == 1:
                    t = st.targets[0]
                    if isinstance(t, ast.Name):
                        env[t.id] = arith.ev(st.value, env)
                        continue
                    if isinstance(t, ast.Subscript) and \
                            isinstance(t.value, ast.Name) and \
                            t.value.id == varr and \
                            isinstance(t.slice, ast.Slice) and \
                            isinstance(st.value, ast.Subscript) and \
                            isinstance(st.value.value, ast.Name) and \
                            st.value.value.id == data and \
                            isinstance(st.value.slice, ast.Slice):
                        d, sl = t.slice, st.value.slice
                        if d.step is not None or sl.step is not None:
                            raise AnalysisError('slice step')
                        result[0] = tuple(
                            arith.ev(x, env) if x is not None else None
                            for x in (d.lower, d.upper, sl.lower, sl.upper))
                        continue
                raise AnalysisError('statement outside the model: ' +
                                    unparse(st, 60))
        try:
            block(loop.body)
        except arith.Skip:
            return None
        return result[0]

    n_pts = 0
    # integer constants in the body shift the breakpoints of the arrangement
    offs = {0}
    for n in walk_own(loop):
        if isinstance(n, ast.Constant) and isinstance(n.value, int) and \
                not isinstance(n.value, bool) and 0 < abs(n.value) <= 4096:
            offs |= {n.value, -n.value}
    res.stats['breakpoint_offsets'] = sorted(offs)
    for (a, b, name) in rows:
        size = b - a
        bps = sorted({min(max(k + o, 0), total) for k in (a, b) for o in offs}
                     | {0, total})
        axis = []
        prev = -1
        for k in bps:
            if k - 1 > prev:
                lo, hi = prev + 1, k - 1
                axis.append(sorted({lo, min(lo + 1, hi), hi}))
            axis.append([k])
            prev = k
        bad = None
        cells = 0
        for sp in axis:
            for ep in axis:
                cell_pts = [(s, e) for s in sp for e in ep if s <= e]
                if not cell_pts:
                    continue
                cells += 1
                for (s, e) in cell_pts:
                    n_pts += 1
                    L = e - s
                    env = {addr: s, lenkey: L, va: a, vb: b}
                    try:
                        r = run_body(env)
                    except AnalysisError as ex:
                        res.undecided('R-C18-slices', Q, 'region ' + name,
                                      str(ex), f.module.loc(loop))
                        return
                    lo_i, hi_i = max(s, a), min(e, b)
                    if r is None:
                        if lo_i < hi_i and bad is None:
                            bad = (s, L, 'the write is skipped although '
                                   'bytes 0x{:x}..0x{:x} fall into the '
                                   'region'.format(lo_i, hi_i - 1))
                        continue
                    d0, d1 = arith.norm_slice(r[0], r[1], size)
                    s0, s1 = arith.norm_slice(r[2], r[3], L)
                    dl, slen = d1 - d0, s1 - s0
                    if lo_i >= hi_i:
                        want_d = want_s = None
                        if dl != 0 or slen != 0:
                            if bad is None:
                                bad = (s, L, 'nothing of the write lies in '
                                       'the region, yet region[{}:{}] = '
                                       'data[{}:{}] is executed ({} bytes '
                                       'replaced by {})'.format(
                                           r[0], r[1], r[2], r[3], dl, slen))
                        continue
                    want_d = (lo_i - a, hi_i - a)
                    want_s = (lo_i - s, hi_i - s)
                    if (d0, d1) != want_d or (s0, s1) != want_s:
                        if bad is None:
                            bad = (s, L, 'region[{}:{}] = data[{}:{}] '
                                   'addresses region bytes [{}:{}) / data '
                                   'bytes [{}:{}); expected region [{}:{}) '
                                   '/ data [{}:{}){}'.format(
                                       r[0], r[1], r[2], r[3], d0, d1, s0, s1,
                                       want_d[0], want_d[1], want_s[0],
                                       want_s[1],
                                       ' -- the region changes size' if
                                       dl != slen else ''))
        inst = 'region {} [0x{:x},0x{:x})'.format(name, a, b)
        if bad is None:
            res.holds('R-C18-slices', Q, inst,
                      '{} cells of the (start, end) arrangement, all '
                      'representative points agree with the '
                      'specification'.format(cells), f.module.loc(loop))
        else:
            res.violation('R-C18-slices', Q, inst,
                          'write_cart_data(data of {} bytes, start_addr='
                          '0x{:x}): {}'.format(bad[1], bad[0], bad[2]),
                          f.module.loc(loop))
    res.stats['slice_points_evaluated'] = n_pts
    res.require_min('R-C18-slices', 5)


def run(ctx, res):
    model = ctx.model
    f = model.func(Q)
    try:
        rows, node, loop = extract_memmap(ctx, f)
    except AnalysisError as e:
        res.undecided('R-C18-map', Q, 'memmap', str(e), f.loc)
        return
    rule_map(ctx, res, rows, node, f)
    addr, data = rule_reject(ctx, res, f, loop, rows)
    rule_slices(ctx, res, f, loop, rows, addr, data)
