"""C16 -- on-disk encodings match the PICO-8 cart formats, not merely each
other.  Every codec side is extracted with the abstract evaluator as a map
between memory bits and file positions and compared with refs/formats.py.
"""
import ast

from ..absint.symx import Aff, BV, NONE, TOP
from ..consteval import UNKNOWN
from ..core import AnalysisError
from ..refs import formats as ref
from ..srcmodel import walk_own, const_str
from . import codecs, layouts as LY
from .c18 import _region_sizes

EXPLANATION = (
    'Each codec direction is extracted independently by abstract '
    'interpretation (bit provenance over memory bytes, hex digits of a text '
    'line, PNG plane bits) and compared with the reference layout of the '
    'PICO-8 formats in refs/formats.py: R-C16-gfx (row digit k = pixel k, '
    'even pixel = low nibble, 64 bytes per row, both directions), '
    'R-C16-hexrows (gff/map plain hex, high digit first, 128 bytes per row, '
    'rows x bytes = region size), R-C16-sfx (line = bytes 64..67 then 32 '
    'notes pp w v e; RAM note bits pitch 0-5, waveform 6-8 + bit 15, volume '
    '9-11, effect 12-14, from get_note AND set_note AND both line codecs; '
    '68-byte stride, 64 patterns), R-C16-music (flag bit k <-> bit 7 of RAM '
    'byte k, channel = low 7 bits, 4 bytes x 64), R-C16-png (data byte = '
    'A1A0 R1R0 G1G0 B1B0 over the two low bits of planes 3,0,1,2, both '
    'directions; memory order gfx,map,gff,music,sfx,code,version with the '
    'reference bounds), R-C16-stream (compression constants = reference). '
    'Because every codec is a fixed selection/permutation of bits, layout '
    'equality is behaviour equality for all 2^n values -- a round-trip test '
    'cannot see a mistake shared by writer and reader; this comparison can.')

ASSUMPTIONS = [
    'refs/formats.py (the format description) is the trusted base',
    'bytes.fromhex / format(b, "02x") / pypng: library semantics',
]


def _word(off, bit):
    return off * 8 + bit


def _part(res, rule, what, fn):
    try:
        fn()
    except AnalysisError as e:
        res.undecided(rule, what, 'analysis', str(e))


RULE_OF = {'gfx': 'R-C16-gfx', 'gff': 'R-C16-hexrows', 'map': 'R-C16-hexrows',
           'sfx': 'R-C16-sfx', 'music': 'R-C16-music'}


def rule_lines_evaluated(ctx, res, sizes):
    """whole-function evaluation of every section codec (absint/cx.py): the
    text to_lines() produces from symbolic memory is compared character by
    character with the reference encoding, and from_lines() applied to the
    reference encoding must give the memory back.
    -> {section: set of directions decided}"""
    from . import cxcodecs as XC
    decided = {}
    for sec in ('gfx', 'gff', 'map', 'sfx', 'music'):
        rule = RULE_OF[sec]
        if sizes.get(sec) != ref.REGION_SIZE[sec]:
            continue
        try:
            se = XC.evaluate(ctx, sec, sizes[sec])
        except AnalysisError:
            continue
        done = set()
        wf = ctx.model.lookup_method(se.cls, 'to_lines')
        rf = ctx.model.lookup_method(se.cls, 'from_lines')
        if isinstance(se.writer, AnalysisError):
            res.info(rule, se.cls.qual, sec + ': writer not followed by the '
                     'whole-function evaluation', str(se.writer)[:160])
        else:
            d = se.writer_diff()
            res.check(d is None, rule, se.cls.qual,
                      '{} writer: to_lines(memory) is the reference text for '
                      'every content of the {} bytes'.format(sec, se.size),
                      '{} lines'.format(len(se.want_lines)),
                      '{} section is not written in the PICO-8 format: '
                      '{}'.format(sec, d), wf.loc if wf else '',
                      semantic=True)
            done.add('writer')
        skip = set(ref.MUSIC_UNREPRESENTABLE) if sec == 'music' else set()
        if isinstance(se.reader_ref, AnalysisError):
            ok, d, note = se.prefix_check('ref', skip)
            if ok:
                res.check(d is None, rule, se.cls.qual,
                          '{} reader: from_lines(reference text) == memory '
                          'on every path (tests on content bits followed)'
                          .format(sec), note,
                          '{} section is not read per the PICO-8 format: '
                          '{}'.format(sec, d), rf.loc if rf else '',
                          semantic=True)
                done.add('reader')
            else:
                res.info(rule, se.cls.qual, sec + ': reader not followed by '
                         'the whole-function evaluation',
                         (str(se.reader_ref) + ' / ' + note)[:200])
        else:
            skip = set(ref.MUSIC_UNREPRESENTABLE) if sec == 'music' else set()
            d = se.mem_diff(se.reader_ref, skip)
            res.check(d is None, rule, se.cls.qual,
                      '{} reader: from_lines(reference text of memory) == '
                      'memory for every content'.format(sec), '',
                      '{} section is not read per the PICO-8 format: '
                      '{}'.format(sec, d), rf.loc if rf else '',
                      semantic=True)
            done.add('reader')
        decided[sec] = done
    return decided


def rule_gfx(ctx, res, sizes, skip=()):
    ev = ctx.consts
    hl = ev.class_const(ctx.model.cls('pico8.gfx.gfx:Gfx'),
                        'HEX_LINE_LENGTH_BYTES')

    def writer():
        w = codecs.gfx_writer_layout(ctx)
        f = w['func']
        ok = w['digit0_bits'] == [0, 1, 2, 3] and \
            w['digit1_bits'] == [4, 5, 6, 7] and w['seq_ok'] and \
            w['hexed'] and 'HEX_LINE_LENGTH_BYTES' in (w['step'] or '')
        res.check(ok, 'R-C16-gfx', f.qual,
                  'writer: digit 2k = low nibble (pixel 2k), digit 2k+1 = '
                  'high nibble', 'bytes in address order, one row per {} '
                  'bytes'.format(hl),
                  'gfx row digits carry memory bits {} / {}: pixels are not '
                  'in screen order'.format(w['digit0_bits'],
                                           w['digit1_bits']), f.loc)

    def reader():
        r = codecs.gfx_reader_layout(ctx)
        g = r['func']
        ok = r['swap'] == (0, 2 * hl, 2) and r['fromhex'] and \
            r['listed'] and r['filter'] == 2 * hl + 1
        res.check(ok, 'R-C16-gfx', g.qual,
                  'reader: digit pairs swapped then hex-decoded',
                  'byte m = (digit 2m+1)<<4 | digit 2m, for all {} digits; '
                  'rows of {} characters'.format(2 * hl, 2 * hl + 1),
                  'gfx reader: swap range {} / filter {} / fromhex {} do not '
                  'implement "pixel 2m = low nibble of byte m" for {}-byte '
                  'rows'.format(r['swap'], r['filter'], r['fromhex'], hl),
                  g.loc)

    if 'writer' not in skip:
        _part(res, 'R-C16-gfx', 'Gfx.to_lines', writer)
    res.check(hl == ref.P8_BYTES_PER_LINE['gfx'] and
              sizes.get('gfx', 0) % hl == 0, 'R-C16-gfx',
              'pico8.gfx.gfx:Gfx', '64 bytes (128 pixels) per row',
              '', 'gfx rows hold {} bytes'.format(hl))
    if 'reader' not in skip:
        _part(res, 'R-C16-gfx', 'Gfx.from_lines', reader)


def rule_hexrows(ctx, res, sizes, skip=()):
    model, ev = ctx.model, ctx.consts
    for name, clsq in (('gff', 'pico8.gff.gff:Gff'),
                       ('map', 'pico8.map.map:Map')):
        c = model.cls(clsq)
        hl = ev.class_const(c, 'HEX_LINE_LENGTH_BYTES')
        inherits = ('writer' in skip and 'reader' in skip) or (
            'to_lines' not in c.methods and (
                'from_lines' not in c.methods or name == 'map'))
        res.check(hl == ref.P8_BYTES_PER_LINE[name] and
                  sizes.get(name, 1) % hl == 0 and inherits,
                  'R-C16-hexrows', clsq,
                  '{}: {} bytes per plain-hex row'.format(name, hl),
                  '{} rows'.format(sizes.get(name, 0) // hl if hl else '?'),
                  '{} rows hold {} bytes (format: {}) or the class overrides '
                  'the plain codec'.format(name, hl,
                                           ref.P8_BYTES_PER_LINE[name]),
                  c.module.loc(c.node))
    if 'writer' in skip and 'reader' in skip:
        return
    b = model.func('pico8.util:BaseSection.to_lines')
    src = ast.unparse(b.node).replace(' ', '')
    ok = 'bytes_to_hex(bytes(self._data[start_i:end_i]))' in src and \
        'range(0,len(self._data),self.HEX_LINE_LENGTH_BYTES)' in src and \
        "+b'\\n'" in src
    if not ok:
        res.undecided('R-C16-hexrows', b.qual,
                      'writer: bytes in address order, hex, newline',
                      'BaseSection.to_lines is written in a form outside the '
                      'model', b.loc)
    else:
        res.holds('R-C16-hexrows', b.qual,
                  'writer: bytes in address order, hex, newline', '', b.loc)
    h = model.func('pico8.util:bytes_to_hex')
    fmt = [const_str(n.args[1]) for n in walk_own(h.node)
           if isinstance(n, ast.Call) and isinstance(n.func, ast.Name)
           and n.func.id == 'format' and len(n.args) == 2]
    res.check(fmt == ['02x'], 'R-C16-hexrows', h.qual,
              'two lower-case hex digits per byte, high digit first',
              "format(b, '02x')", 'byte formatting is {}'.format(fmt), h.loc)
    r = model.func('pico8.util:BaseSection.from_lines')
    src = ast.unparse(r.node).replace(' ', '')
    ok = 'bytearray.fromhex(' in src and 'line.rstrip()' in src and \
        "b''.join(" in src
    if not ok:
        res.undecided('R-C16-hexrows', r.qual,
                      'reader: hex-decode each row, concatenate in order',
                      'BaseSection.from_lines is written in a form outside '
                      'the model', r.loc)
    else:
        res.holds('R-C16-hexrows', r.qual,
                  'reader: hex-decode each row, concatenate in order', '',
                  r.loc)


def expected_sfx_note_digits():
    bits = ref.SFX_NOTE_BITS
    p, w, v, e = bits['pitch'], bits['waveform'], bits['volume'], \
        bits['effect']

    def pos(wordbit):
        return ('self._data', wordbit // 8, wordbit % 8)
    Z = ('const', 0)
    return [
        [pos(p[4]), pos(p[5]), Z, Z],                 # pitch hi digit
        [pos(p[0]), pos(p[1]), pos(p[2]), pos(p[3])],  # pitch lo digit
        [pos(w[0]), pos(w[1]), pos(w[2]), pos(w[3])],
        [pos(v[0]), pos(v[1]), pos(v[2]), Z],
        [pos(e[0]), pos(e[1]), pos(e[2]), Z],
    ]


def rule_sfx(ctx, res, sizes, skip=()):
    S = 'pico8.sfx.sfx:Sfx'
    try:
        _rule_sfx_accessors(ctx, res, sizes, S)
        # the statement-form analysis places the ARGUMENT bits; that the
        # other bits of the note word are kept (read from the byte that is
        # written back) is decided by evaluating the accessors
        from . import c17eval
        try:
            for (_r, meth, inst, prob) in c17eval.eval_sfx(
                    ctx, sizes['sfx'])[0]:
                if meth in ('get_note', 'set_note'):
                    res.check(prob is None, 'R-C16-sfx', S + '.' + meth,
                              '{}: {} (evaluated)'.format(meth, inst),
                              'on symbolic memory, sampled ids / notes',
                              prob or '', '', semantic=True)
        except AnalysisError as e2:
            res.info('R-C16-sfx', S, 'note accessors evaluated',
                     'not followed: ' + str(e2)[:120])
    except AnalysisError as e:
        # the statement-form analysis cannot follow get_note / set_note:
        # decide the note word layout by evaluating them
        from . import c17eval
        try:
            results = [r for r in c17eval.eval_sfx(ctx, sizes['sfx'])[0]
                       if r[1] in ('get_note', 'set_note')]
        except AnalysisError as e2:
            raise AnalysisError('{}; evaluation: {}'.format(e, e2))
        # drop the half-finished instances of the statement-form attempt
        res.instances[:] = [i for i in res.instances if not (
            i.rule == 'R-C16-sfx' and ('get_note' in i.inst or
                                       'set_note' in i.inst))]
        for (_rule, meth, inst, prob) in results:
            if prob is not None:
                res.violation('R-C16-sfx', S + '.' + meth,
                              '{}: {} (evaluated)'.format(meth, inst), prob,
                              '', semantic=True)
                continue
            for fld in ('pitch', 'waveform', 'volume', 'effect'):
                res.holds('R-C16-sfx', S + '.' + meth,
                          '{}: {} = note word bits {} (evaluated)'.format(
                              meth, fld, ref.SFX_NOTE_BITS[fld]),
                          'note word layout of the format, evaluated on '
                          'symbolic memory', '')
    _rule_sfx_lines(ctx, res, sizes, S, skip)


def _rule_sfx_accessors(ctx, res, sizes, S):
    # RAM note layout from get_note
    r = {'id': (0, 63), 'note': (0, 31)}
    base = Aff({'id': 68, 'note': 2}, 0)
    ev, ps = LY.run_method(ctx, S + '.get_note',
                           {'id': Aff.sym('id'), 'note': Aff.sym('note')}, r)
    live = [p for p in ps if not p.raised]
    g = ctx.model.func(S + '.get_note')
    fields = ['pitch', 'waveform', 'volume', 'effect']
    got = {}
    if len(live) == 1 and isinstance(live[0].ret, tuple):
        for name, bv in zip(fields, live[0].ret):
            bv = ev.to_bv(bv)
            pos = LY.bv_positions(bv, base, len(ref.SFX_NOTE_BITS[name]))
            got[name] = [_word(p[1], p[2]) if p and p[0] == 'self._data'
                         else None for p in pos]
            extra = bv.width > len(ref.SFX_NOTE_BITS[name])
            if extra:
                got[name].append('wider')
    for name in fields:
        res.check(got.get(name) == ref.SFX_NOTE_BITS[name], 'R-C16-sfx',
                  g.qual, 'get_note: {} = note word bits {}'.format(
                      name, ref.SFX_NOTE_BITS[name]), '',
                  'get_note reads {} from word bits {} (format: {})'.format(
                      name, got.get(name), ref.SFX_NOTE_BITS[name]), g.loc)
    # set_note placement
    from .c17 import DOC_RANGES
    s = ctx.model.func(S + '.set_note')
    for name in fields:
        env = {'id': Aff.sym('id'), 'note': Aff.sym('note')}
        for o in fields:
            env[o] = NONE
        env[name] = Aff.sym(name)
        rr = dict(r)
        rr[name] = (0, (1 << len(ref.SFX_NOTE_BITS[name])) - 1)
        ev2, ps2 = LY.run_method(ctx, S + '.set_note', env, rr)
        live2 = [p for p in ps2 if not p.raised]
        placed = {}
        if len(live2) == 1:
            for (arr, idx, bv, node) in live2[0].stores:
                d = idx - base
                if not d.is_const():
                    continue
                for k in range(8):
                    a = LY.cell_single(bv.cell(k))
                    if a and a[0] == ('sym', name):
                        placed[a[1]] = _word(d.const, k)
        want = dict(enumerate(ref.SFX_NOTE_BITS[name]))
        res.check(placed == want, 'R-C16-sfx', s.qual,
                  'set_note: {} -> note word bits {}'.format(
                      name, ref.SFX_NOTE_BITS[name]), '',
                  'set_note writes {} to word bits {} (format: {})'.format(
                      name, placed, want), s.loc)


def _rule_sfx_lines(ctx, res, sizes, S, skip=()):
    def writer():
        # line writer
        w = codecs.sfx_writer_layout(ctx)
        f = w['func']
        hdr_want = []
        for nm in ref.SFX_LINE_HEADER_ORDER:
            off = ref.SFX_HEADER_OFFSETS[nm]
            hdr_want.append([('self._data', off, b) for b in (4, 5, 6, 7)])
            hdr_want.append([('self._data', off, b) for b in (0, 1, 2, 3)])
        res.check(w['header'] == hdr_want, 'R-C16-sfx', f.qual,
                  'line header = bytes 64..67 (mode, speed, loop start, loop '
                  'end)', '', 'sfx line header digits carry {}'.format(
                      w['header'][:4]), f.loc)
        res.check(w['note'] == expected_sfx_note_digits(), 'R-C16-sfx', f.qual,
                  'note digits = pitch(2) waveform volume effect', '',
                  'sfx note digits carry memory bits {}'.format(w['note']),
                  f.loc)
        if not w['tail_ok']:
            res.undecided('R-C16-sfx', f.qual, 'line assembled from the digit '
                          'buffer + newline', 'the yield of Sfx.to_lines is not '
                          "b''.join(<buffer>) + b'\\n'", f.loc)
        res.check(w['patterns'] == (0, ref.SFX_PATTERNS, 1) and
                  w['notes'] == (0, ref.SFX_NOTES, 1) and
                  sizes.get('sfx') == ref.SFX_PATTERNS * ref.SFX_BYTES,
                  'R-C16-sfx', f.qual, '64 patterns x 32 notes, 68-byte stride',
                  '', 'pattern / note counts are {} / {}'.format(
                      w['patterns'], w['notes']), f.loc)

    def reader():
        # line reader
        rd = codecs.sfx_reader_layout(ctx)
        g2 = rd['func']
        ok = rd['filter'] == 8 + 5 * ref.SFX_NOTES + 1 and \
            rd['irange'] == (8, 8 + 5 * ref.SFX_NOTES, 5) and rd['id_inc'] and \
            rd['note_inc']
        res.check(ok, 'R-C16-sfx', g2.qual,
                  'reader walks 32 five-digit notes from digit 8 of 169-char '
                  'lines', '', 'sfx reader geometry: filter {} range {}'.format(
                      rd['filter'], rd['irange']), g2.loc)
        # header stores: byte 64+k <- digits 2k, 2k+1
        hdr_ok = len(rd['hdr_stores']) == 4
        idb = Aff({rd['id_var']: 68}, 0)
        for (arr, idx, bv, node) in rd['hdr_stores']:
            d = idx - idb
            if not d.is_const() or not 64 <= d.const <= 67:
                hdr_ok = False
                continue
            k = d.const - 64
            for bit in range(8):
                a = LY.cell_single(bv.cell(bit))
                p = codecs.digit_atom_pos(a) if a else None
                wantp = ('abs', 2 * k + (0 if bit >= 4 else 1), bit % 4)
                if p != wantp:
                    hdr_ok = False
        res.check(hdr_ok, 'R-C16-sfx', g2.qual,
                  'reader: digits 0-7 -> bytes 64..67', '',
                  'sfx header digits are stored elsewhere', g2.loc)
        # note stores
        nb = Aff({rd['id_var']: 68, rd['note_var']: 2}, 0)
        got_bits = {}
        for (arr, idx, bv, node) in rd['note_stores']:
            d = idx - nb
            if not d.is_const() or d.const not in (0, 1):
                got_bits[('bad', str(idx))] = None
                continue
            for bit in range(8):
                c = bv.cell(bit)
                a = LY.cell_single(c)
                if a is None:
                    continue
                p = codecs.digit_atom_pos(a, rd['note_var'], 8, 5)
                if p and p[0] == 'note':
                    got_bits[_word(d.const, bit)] = (p[1], p[2])
        want_bits = {}
        for di, cells in enumerate(expected_sfx_note_digits()):
            for b, c in enumerate(cells):
                if c[0] == 'self._data':
                    want_bits[_word(c[1], c[2])] = (di, b)
        res.check(got_bits == want_bits, 'R-C16-sfx', g2.qual,
                  'reader: note digits -> RAM note bits per the format', '',
                  'sfx reader: RAM note bit <- (digit, bit) differs from the '
                  'format at {}'.format(sorted(
                      (k, got_bits.get(k), want_bits.get(k))
                      for k in set(got_bits) | set(want_bits)
                      if got_bits.get(k) != want_bits.get(k))[:6]), g2.loc)

    if 'writer' not in skip:
        _part(res, 'R-C16-sfx', 'Sfx.to_lines', writer)
    if 'reader' not in skip:
        _part(res, 'R-C16-sfx', 'Sfx.from_lines', reader)


def rule_music(ctx, res, sizes, skip=()):
    def writer():
        w = codecs.music_writer_layout(ctx)
        f = w['func']
        Z = ('const', 0)
        flags = [Z, Z, Z]
        for byte, fbit in ref.MUSIC_FLAG_OF_BYTE.items():
            flags[fbit] = ('self._data', byte, 7)
        want = [[Z, Z, Z, Z], flags + [Z], ('lit', b' ')]
        for k in range(4):
            want.append([('self._data', k, 4), ('self._data', k, 5),
                         ('self._data', k, 6), Z])
            want.append([('self._data', k, b) for b in range(4)])
        want.append(('lit', b'\n'))
        badp = [(a, l) for (a, l) in w['lines'] if l != want]
        why = ''
        if badp:
            a, l = badp[0]
            k = next((i for i, (x, y) in enumerate(zip(l, want)) if x != y),
                     min(len(l), len(want)))
            why = 'music line {}carries {} at digit {} where the RAM layout ' \
                  'has {}'.format(
                      'on the path [{}] '.format(', '.join(
                          '{} is {}'.format(t, v) for (t, v) in a)) if a else '',
                      l[k] if k < len(l) else 'nothing', k,
                      want[k] if k < len(want) else 'nothing')
        res.check(not badp and w['step'] == 4 and
                  sizes.get('music') == 4 * ref.MUSIC_PATTERNS, 'R-C16-music',
                  f.qual, 'line = flags byte, space, 4 channel bytes (low 7 '
                  'bits); flag bit k = bit 7 of RAM byte k',
                  '{} path(s)'.format(len(w['lines'])), why, f.loc)

    def reader():
        r = codecs.music_reader_layout(ctx)
        g = r['func']
        ok = r['sep'] == b' ' and r['filter'] and len(r['bytes']) == 4
        detail = ''
        if ok:
            for k, bv in enumerate(r['bytes']):
                for bit in range(7):
                    a = LY.cell_single(bv.cell(bit))
                    p = codecs.digit_atom_pos(a) if a else None
                    if not (a and a[0][1] == 'C' and
                            p == ('abs', 2 * k + (0 if bit >= 4 else 1),
                                  bit % 4)):
                        ok = False
                        detail = 'byte {} bit {} <- {}'.format(k, bit, a)
                c7 = bv.cell(7)
                srcs = set(c7.vars) if c7 is not TOP else set()
                chan7 = (('digit', 'C', ((), 2 * k)), 3)
                if k < 3:
                    fbit = ref.MUSIC_FLAG_OF_BYTE[k]
                    wantv = {chan7, (('digit', 'F', ((), 1)), fbit)}
                    if srcs != wantv or c7.table != 0b1110:
                        ok = False
                        detail = 'byte {} bit 7 <- {}'.format(k, c7)
                else:
                    if srcs != {chan7}:
                        ok = False
                        detail = 'byte 3 bit 7 <- {}'.format(c7)
        res.check(ok, 'R-C16-music', g.qual,
                  'reader: channel digits -> low 7 bits, flag bit k -> bit 7 of '
                  'byte k', '', 'music reader: ' + detail, g.loc)

    if 'writer' not in skip:
        _part(res, 'R-C16-music', 'Music.to_lines', writer)
    if 'reader' not in skip:
        _part(res, 'R-C16-music', 'Music.from_lines', reader)


def rule_png(ctx, res, sizes):
    try:
        rule_png_pixels(ctx, res)
    except AnalysisError as e:
        res.undecided('R-C16-png', 'pixel codec', 'analysis', str(e))
    rule_png_memory(ctx, res, sizes)


def rule_png_pixels(ctx, res):
    from . import cxcodecs as XC
    pe = None
    try:
        pe = XC.evaluate_png(ctx)
    except AnalysisError:
        pass
    done = set()
    if pe is not None and not isinstance(pe.reader, AnalysisError):
        d = pe.reader_diff()
        res.check(d is None, 'R-C16-png', pe.rf.qual,
                  'reader: data byte = A1A0 R1R0 G1G0 B1B0 (planes 3,0,1,2)',
                  'evaluated on a {}x{} image of symbolic pixels'.format(
                      *XC.PNG_DIMS[:2]),
                  'PNG reader does not follow the format: {}'.format(d),
                  pe.rf.loc, semantic=True)
        done.add('reader')
    if pe is not None and not isinstance(pe.writer, AnalysisError):
        d = pe.writer_diff()
        res.check(d is None, 'R-C16-png', pe.wf.qual,
                  'writer: two low bits of each plane <- data bits, upper '
                  'six bits = source pixel, pixels past the data copied',
                  'evaluated on a {}x{} image, {} data bytes'.format(
                      XC.PNG_DIMS[0], XC.PNG_DIMS[1], XC.PNG_DIMS[3]),
                  'PNG writer does not follow the format: {}'.format(d),
                  pe.wf.loc, semantic=True)
        done.add('writer')
    if 'reader' not in done:
        _png_reader_old(ctx, res)
    if 'writer' not in done:
        _png_writer_old(ctx, res)


def _png_reader_old(ctx, res):
    r = codecs.png_reader_layout(ctx)
    f = r['func']
    want = [None] * 8
    for plane, (hi, lo) in ref.PNG_BITS_OF_PLANE.items():
        want[lo] = (plane, 0)
        want[hi] = (plane, 1)
    res.check(r['bits'] == want and r['index_ok'] and r['width'] <= 8,
              'R-C16-png', f.qual,
              'reader: data byte = A1A0 R1R0 G1G0 B1B0 (planes 3,0,1,2)',
              '', 'PNG reader takes data bits from (plane, bit) {}'.format(
                  r['bits']), f.loc)


def _png_writer_old(ctx, res):
    w = codecs.png_writer_layout(ctx)
    g = w['func']
    ok = set(w['planes']) == {0, 1, 2, 3} and w['copy_ok'] and w['test_ok']
    for plane, (hi, lo) in ref.PNG_BITS_OF_PLANE.items():
        cells = w['planes'].get(plane)
        if not cells:
            ok = False
            continue
        wantc = [('pico', lo), ('pico', hi)] + [
            ('row', plane, b) for b in range(2, 8)]
        if cells != wantc:
            ok = False
    res.check(ok, 'R-C16-png', g.qual,
              'writer: two low bits of each plane <- data bits, upper six '
              'bits = source pixel, pixels past the data copied', '',
              'PNG writer plane contents: {}'.format(
                  {k: v[:3] for k, v in w['planes'].items()}), g.loc)


def rule_png_memory(ctx, res, sizes):
    """evaluated first (absint/cx.py with the PNG library, the pixel codec
    and the compressor replaced by stand-ins); the shape-based extraction only
    when the evaluation cannot follow the code"""
    from . import cxcodecs as XC
    P = 'pico8.game.formatter.p8png:P8PNGFormatter'
    done = set()
    try:
        pl = XC.evaluate_png_plumbing(ctx)
    except AnalysisError:
        pl = None
    if pl is not None and not isinstance(pl.writer, AnalysisError):
        d = pl.writer_diff()
        res.check(d is None, 'R-C16-png', P + '.to_file',
                  'image memory order gfx,map,gff,music,sfx,code,version',
                  'to_file evaluated on symbolic regions: {} bytes laid out '
                  'as the format says'.format(ref.VERSION_OFFSET + 1),
                  'the image memory is not laid out per the format: '
                  '{}'.format(d), ctx.model.func(P + '.to_file').loc,
                  semantic=True)
        done.add('writer')
    if pl is not None and not isinstance(pl.loaded, AnalysisError):
        try:
            got = pl.game_regions()
            want = {n: (c.split(':')[-1], a, b) for (n, a, b) in
                    ref.MEMORY_MAP for c in [XC.SECTIONS[n]]}
            want['version'] = ('byte', ref.VERSION_OFFSET, None)
            cs = pl.code_slice()
            bad = sorted((k, got.get(k), want[k]) for k in want
                         if got.get(k) != want[k])
            if cs is None or cs[:2] != tuple(ref.CODE_REGION):
                bad.append(('code', cs, tuple(ref.CODE_REGION)))
            res.check(not bad, 'R-C16-png', P + '.from_file',
                      'reader slices = reference memory map, each slice '
                      'feeds the section class of its region',
                      'from_file evaluated on symbolic image memory: {}'
                      .format(sorted(got)),
                      'the loaded game takes {} (format: {})'.format(
                          [(k, g) for (k, g, _w) in bad],
                          [(k, w) for (k, _g, w) in bad]),
                      ctx.model.func(P + '.from_file').loc, semantic=True)
            done.add('reader')
        except AnalysisError:
            pass
    for (n, a, b) in ref.MEMORY_MAP:
        res.check(sizes.get(n) == b - a, 'R-C16-png',
                  'pico8.game.formatter.p8png:P8PNGFormatter.to_file',
                  'region {} contributes {} bytes'.format(n, b - a), '',
                  'region {} has {} bytes'.format(n, sizes.get(n)))
    if done == {'writer', 'reader'}:
        return
    m = codecs.png_memory_order(ctx)
    want_order = [n for (n, _a, _b) in ref.MEMORY_MAP] + ['code', 'version']
    res.check(m['order'] == want_order, 'R-C16-png', m['writer'].qual,
              'image memory order gfx,map,gff,music,sfx,code,version', '',
              'regions are joined in the order {}'.format(m['order']),
              m['writer'].loc)
    names = {'gfx': 'gfx', 'p8map': 'map', 'gfx_props': 'gff', 'song': 'music',
             'sfx': 'sfx'}
    want_slices = {}
    for attr, reg in names.items():
        (a, b) = [(x, y) for (n, x, y) in ref.MEMORY_MAP if n == reg][0]
        want_slices[attr] = (a, b)
    want_slices['codedata'] = ref.CODE_REGION
    want_slices['version'] = (ref.VERSION_OFFSET, None)
    res.check(m['slices'] == want_slices, 'R-C16-png', m['reader'].qual,
              'reader slices = reference memory map', '',
              'reader slices {} differ from the memory map {}'.format(
                  m['slices'], want_slices), m['reader'].loc)
    want_cons = {'gfx': ('Gfx', 'gfx'), 'gff': ('Gff', 'gfx_props'),
                 'map': ('Map', 'p8map'), 'sfx': ('Sfx', 'sfx'),
                 'music': ('Music', 'song')}
    res.check(m['consumers'] == want_cons, 'R-C16-png',
              'pico8.game.formatter.p8png:P8PNGFormatter.from_file',
              'each slice feeds the section class of its region', '',
              'slices are consumed as {}'.format(m['consumers']))


def run(ctx, res):
    sizes = _region_sizes(ctx)
    decided = {}
    try:
        decided = rule_lines_evaluated(ctx, res, sizes)
    except AnalysisError as e:
        res.info('R-C16-gfx', 'rule_lines_evaluated', 'analysis', str(e))
    both = {'writer', 'reader'}
    hexskip = decided.get('gff', set()) & decided.get('map', set())
    for rule, skip in ((rule_gfx, decided.get('gfx', ())),
                       (rule_hexrows, hexskip),
                       (rule_sfx, decided.get('sfx', ())),
                       (rule_music, decided.get('music', ()))):
        try:
            rule(ctx, res, sizes, skip)
        except AnalysisError as e:
            res.undecided('R-C16-' + rule.__name__[5:], rule.__name__,
                          'analysis', str(e))
    try:
        rule_png(ctx, res, sizes)
    except AnalysisError as e:
        res.undecided('R-C16-png', 'rule_png', 'analysis', str(e))
    from .c05 import rule_format, rule_literals
    lit = rule_literals(ctx, res, rule_id='R-C16-stream')
    rule_format(ctx, res, rule_id='R-C16-stream', literals_decided=bool(lit))
    res.require_min('R-C16-sfx', 10)
    res.require_min('R-C16-png', 7)
