"""python -m pv.check <Cxx> [--tier quick|thorough] [--replay path]

Runs the static rules of one property against /repo's working tree (or
$PV_REPO), prints one line per rule instance, the protocol lines, writes
/verif/evidence/<id>.json and exits 0 / 1 (violation) / 2 (analysis error).
"""
import argparse
import importlib
import json
import os
import sys
import time
import traceback

from . import core
from .core import AnalysisError, Results


class Ctx:
    def __init__(self, tier):
        self.tier = tier
        self._model = None
        self._consts = None

    @property
    def model(self):
        if self._model is None:
            from .srcmodel import Model
            self._model = Model()
        return self._model

    @property
    def consts(self):
        if self._consts is None:
            from .consteval import Evaluator
            self._consts = Evaluator(self.model)
        return self._consts


def run_property(prop, tier, write_evidence=True):
    t0 = time.time()
    res = Results(prop)
    try:
        mod = importlib.import_module('pv.rules.' + prop.lower())
    except ImportError:
        print('ANALYSIS-ERROR property={} no rule module'.format(prop))
        return 2
    ctx = Ctx(tier)
    analysed = {}
    crashed = None
    try:
        mod.run(ctx, res)
        from .rules import hygiene
        hygiene.rule_names(ctx, res, prop)
        analysed = dict(ctx.model.summary())
        analysed['repo'] = ctx.model.root
        analysed['accessed_modules'] = sorted(ctx.model.accessed_modules)
        analysed['tables'] = res.tables
        analysed.update(res.stats)
    except AnalysisError as e:
        crashed = '{}: {}'.format(type(e).__name__, e)
    except Exception as e:      # a bug in the checker is never a verdict
        traceback.print_exc(file=sys.stdout)
        crashed = 'checker crashed: {}: {}'.format(type(e).__name__, e)
    if crashed:
        res.undecided('runner', '-', 'analysis-aborted', crashed)
        if not analysed and ctx._model is not None:
            analysed = {'repo': ctx.model.root,
                        'accessed_modules': sorted(
                            ctx.model.accessed_modules)}
    return core.finish(
        prop, tier, res, t0,
        explanation=getattr(mod, 'EXPLANATION', ''),
        assumptions=list(getattr(mod, 'ASSUMPTIONS', [])),
        analysed=analysed,
        extra_cov=getattr(mod, 'extra_coverage', lambda r: None)(res),
        write_evidence=write_evidence)


def main(argv=None):
    ap = argparse.ArgumentParser()
    ap.add_argument('prop', nargs='?')
    ap.add_argument('--tier', default=os.environ.get('VERIF_TIER') or 'quick')
    ap.add_argument('--replay')
    ap.add_argument('--no-evidence', action='store_true')
    a = ap.parse_args(argv)
    if a.replay:
        with open(a.replay) as fh:
            rec = json.load(fh)
        prop = rec['property']
        print('replaying finding', rec.get('key'))
        rc = run_property(prop, a.tier, write_evidence=False)
        return rc
    if not a.prop:
        ap.error('property id required')
    tier = a.tier if a.tier in ('quick', 'thorough') else 'quick'
    rc = run_property(a.prop.upper(), tier,
                      write_evidence=not a.no_evidence)
    if tier == 'thorough' and not a.no_evidence:
        try:
            from .selftest import run as st
            st.run_for_property(a.prop.upper())
        except ImportError:
            pass
        except Exception:
            traceback.print_exc(file=sys.stdout)
            print('SELFTEST-ERROR (does not affect the verdict)')
    return rc


if __name__ == '__main__':
    sys.exit(main())
