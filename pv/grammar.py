"""E7 -- grammar tools over refs/grammar.py: nullable / FIRST / LAST and the
terminal-adjacency relation (which ordered pairs of terminals can be
neighbours in some sentence of the dialect)."""
from .refs import grammar as G


def is_terminal(sym):
    return isinstance(sym, bytes) or sym in G.CLASSES


def analyse(grammar=None, start=None):
    grammar = grammar or G.GRAMMAR
    nullable = set()
    changed = True
    while changed:
        changed = False
        for nt, prods in grammar.items():
            if nt in nullable:
                continue
            for p in prods:
                if all((not is_terminal(s)) and s in nullable for s in p):
                    nullable.add(nt)
                    changed = True
                    break
    first = {nt: set() for nt in grammar}
    last = {nt: set() for nt in grammar}

    def f_of(sym):
        return {sym} if is_terminal(sym) else first[sym]

    def l_of(sym):
        return {sym} if is_terminal(sym) else last[sym]
    changed = True
    while changed:
        changed = False
        for nt, prods in grammar.items():
            for p in prods:
                for s in p:
                    new = f_of(s) - first[nt]
                    if new:
                        first[nt] |= new
                        changed = True
                    if is_terminal(s) or s not in nullable:
                        break
                for s in reversed(p):
                    new = l_of(s) - last[nt]
                    if new:
                        last[nt] |= new
                        changed = True
                    if is_terminal(s) or s not in nullable:
                        break
    adj = set()
    for nt, prods in grammar.items():
        for p in prods:
            for i in range(len(p)):
                for j in range(i + 1, len(p)):
                    if all((not is_terminal(p[k])) and p[k] in nullable
                           for k in range(i + 1, j)):
                        for a in l_of(p[i]):
                            for b in f_of(p[j]):
                                adj.add((a, b))
                    else:
                        continue
    return {'nullable': nullable, 'first': first, 'last': last, 'adj': adj}


_cache = {}


def adjacency():
    if 'adj' not in _cache:
        r = analyse()
        _cache['adj'] = {(a, b) for (a, b) in r['adj']
                         if a != G.NL and b != G.NL}
        _cache['all'] = r
    return _cache['adj']


def before_line_end():
    """terminals that can directly precede a significant line end (the NL of
    short-if and `?`): the tokens that can end a statement."""
    adjacency()
    return {a for (a, b) in _cache['all']['adj'] if b == G.NL and a != G.NL}


def enumerate_adjacent(depth=4, limit=200000):
    """Independent derivation of adjacent pairs by bounded sentence
    enumeration of the reference grammar (cross-check for `thorough`)."""
    grammar = G.GRAMMAR
    from functools import lru_cache

    @lru_cache(maxsize=None)
    def firsts_lasts(sym, d):
        """set of (first terminal, last terminal, internal adjacent pairs
        frozenset, can_be_empty) -- summarised sentences of sym up to depth"""
        if is_terminal(sym):
            return frozenset([(sym, sym, frozenset(), False)])
        if d == 0:
            return frozenset()
        out = set()
        for p in grammar[sym]:
            partial = {(None, None, frozenset(), True)}
            for s in p:
                sub = firsts_lasts(s, d - 1)
                nxt = set()
                for (f1, l1, ad1, e1) in partial:
                    for (f2, l2, ad2, e2) in sub:
                        ad = set(ad1) | set(ad2)
                        if l1 is not None and f2 is not None:
                            ad.add((l1, f2))
                        nxt.add((f1 if f1 is not None else f2,
                                 l2 if l2 is not None else l1,
                                 frozenset(ad), e1 and e2))
                        if len(nxt) > 4000:
                            break
                partial = nxt
                if not partial:
                    break
            out |= partial
        return frozenset(list(out)[:4000])
    pairs = set()
    for (_f, _l, ad, _e) in firsts_lasts(G.START, depth):
        pairs |= set(ad)
    return {(a, b) for (a, b) in pairs if a != G.NL and b != G.NL}
