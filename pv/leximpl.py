"""Extraction of picotool's effective tokenizer from the source of
pico8/lua/lexer.py (table rows via E2, procedural openers via the if-chain of
Lexer._process_token), and construction of the reference tokenizer from
refs/lexical.py.  Both become `lexmodel.Tokenizer`s over E6 automata."""
import ast
import re

from . import rx
from .consteval import UNKNOWN, Regex, ClassRef, TList
from .core import AnalysisError, Vanished
from .lexmodel import Row, Tokenizer
from .refs import lexical as ref
from .srcmodel import walk_own, const_str
from . import norm

KIND_OF_CLASS = {
    'TokComment': 'comment', 'TokSpace': 'space', 'TokNewline': 'newline',
    'TokNumber': 'number', 'TokLabel': 'label', 'TokKeyword': 'keyword',
    'TokSymbol': 'symbol', 'TokName': 'name', 'TokString': 'string',
}


def _literal_nfa(data):
    n = rx.NFA()
    cur = n.start
    for b in data:
        nxt = n.new()
        n.add_byte(cur, {b}, nxt)
        cur = nxt
    n.accept = cur
    return n


def block_nfa(opener, closer):
    """opener, then the shortest text ending in closer (first-accept row)."""
    n = rx.NFA()
    cur = n.start
    for b in opener:
        nxt = n.new()
        n.add_byte(cur, {b}, nxt)
        cur = nxt
    n.marks[cur] = 'commit'
    # KMP-free construction: NFA that guesses where the closer starts
    body = cur
    n.add_byte(body, rx.ALL, body)
    c = body
    for b in closer:
        nxt = n.new()
        n.add_byte(c, {b}, nxt)
        c = nxt
    n.accept = c
    return n


def quoted_nfa(quote, skip_after_backslash):
    """quote, body, quote; a backslash consumes the next byte blindly iff
    that byte is in skip_after_backslash, otherwise it is an ordinary byte."""
    q = quote[0]
    n = rx.NFA()
    body = n.new()
    n.add_byte(n.start, {q}, body)
    n.marks[body] = 'commit'
    esc = n.new()
    n.add_byte(body, rx.ALL - {q, 0x5c}, body)
    n.add_byte(body, {0x5c}, esc)
    n.add_byte(esc, skip_after_backslash, body)
    n.add_eps(esc, body, ('nla', frozenset(skip_after_backslash)))
    acc = n.new()
    n.add_byte(body, {q}, acc)
    n.accept = acc
    return n


class LexerSource:
    """What the analysis extracted from lexer.py."""

    def __init__(self, ctx):
        self.ctx = ctx
        self.model = ctx.model
        self.ev = ctx.consts
        self.module = self.model.module('pico8.lua.lexer')
        self.f = self.model.func('pico8.lua.lexer:Lexer._process_token')
        self.table = None          # [(Regex, class name|None)]
        self.unordered = []
        self.links = []            # if-chain description
        self.openers = []          # dicts
        self.escapes = None
        self._extract_table()
        self._extract_chain()

    # -- table -------------------------------------------------------------
    def _extract_table(self):
        t = self.ev.module_const('pico8.lua.lexer', '_TOKEN_MATCHERS')
        if t is UNKNOWN or not isinstance(t, list):
            raise AnalysisError('_TOKEN_MATCHERS does not evaluate')
        rows = []
        for item in t:
            if not (isinstance(item, tuple) and len(item) == 2 and
                    isinstance(item[0], Regex)):
                raise AnalysisError('unexpected _TOKEN_MATCHERS row ' +
                                    repr(item)[:80])
            cls = item[1]
            if cls is None:
                rows.append((item[0], None))
            elif isinstance(cls, ClassRef):
                rows.append((item[0], cls.name))
            else:
                raise AnalysisError('row class is not a class: ' +
                                    repr(cls)[:60])
        self.table = rows
        self.unordered = list(getattr(t, 'unordered', []))
        esc = self.ev.module_const('pico8.lua.lexer', '_STRING_ESCAPES')
        if esc is UNKNOWN or not isinstance(esc, dict):
            raise AnalysisError('_STRING_ESCAPES does not evaluate')
        self.escapes = esc
        self.rev_escapes = self.ev.module_const('pico8.lua.lexer',
                                                '_STRING_REVERSE_ESCAPES')

    # -- procedural if-chain -------------------------------------------------
    def _extract_chain(self):
        f = self.f
        if len(f.params()) < 2:
            raise AnalysisError('_process_token signature changed')
        self.s_name = f.params()[1]
        chain = None
        for st in f.node.body:
            if isinstance(st, ast.If):
                chain = st
                break
        if chain is None:
            raise Vanished('if-chain of Lexer._process_token not found')
        links = []
        node = chain
        while True:
            links.append(self._classify(node.test, node.body, node))
            if len(node.orelse) == 1 and isinstance(node.orelse[0], ast.If):
                node = node.orelse[0]
            else:
                if node.orelse:
                    links.append(self._classify(None, node.orelse, node))
                break
        self.links = links
        kinds = [l['kind'] for l in links]
        if 'table' not in kinds:
            raise Vanished('table-driven branch of _process_token not found')
        # continuation states must be tested before any opener (typestate)
        first_open = min([i for i, k in enumerate(kinds)
                          if k in ('prefix', 'regex')] or [len(kinds)])
        self.state_order_ok = all(
            i < first_open for i, k in enumerate(kinds) if k == 'state')
        self.table_last = kinds[-1] == 'table'
        states = {l['state']: l for l in links if l['kind'] == 'state'}
        for l in links:
            if l['kind'] in ('prefix', 'regex'):
                st = [c for c in l.get('sets_state') or [] if c in states]
                l['sets_state'] = st[0] if st else None
                cont = states.get(l['sets_state'])
                l['cont'] = cont
                self.openers.append(l)

    def _classify(self, test, body, node):
        s = self.s_name
        d = {'node': node, 'body': body, 'test': test}
        if test is None:
            for (fn, x) in norm.walk_deep(self.model, self.f, list(body)):
                if isinstance(x, ast.For) and isinstance(
                        x.iter, ast.Name) and \
                        x.iter.id == '_TOKEN_MATCHERS':
                    d['kind'] = 'table'
                    d['loop'] = x
                    d['loop_func'] = fn
                    return d
            d['kind'] = 'other'
            return d
        # self.X is not None
        if isinstance(test, ast.Compare) and len(test.ops) == 1 and \
                isinstance(test.ops[0], ast.IsNot) and \
                isinstance(test.left, ast.Attribute) and \
                isinstance(test.left.value, ast.Name) and \
                test.left.value.id == 'self' and \
                isinstance(test.comparators[0], ast.Constant) and \
                test.comparators[0].value is None:
            d['kind'] = 'state'
            d['state'] = test.left.attr
            return d
        # s.startswith(CONST) [or ...] / s.startswith((A, B))
        prefixes = norm.prefixes_of(self.ctx, self.f, test, s)
        if prefixes:
            d['kind'] = 'prefix'
            d['prefixes'] = prefixes
            d['sets_state'] = self._state_set_in(body)
            return d
        # re.match(CONST, s) / COMPILED.match(s)
        ru = norm.regex_use(self.ctx, self.f, test)
        if ru is not None and ru.method == 'match' and \
                isinstance(ru.subject, ast.Name) and ru.subject.id == s and \
                ru.pos is None:
            d['kind'] = 'regex'
            d['pattern'] = ru.pattern
            d['sets_state'] = self._state_set_in(body)
            # the body re-matches with a capturing group for the level
            for x in body:
                for c in walk_own(x):
                    r2 = norm.regex_use(self.ctx, self.f, c)
                    if r2 is not None and r2.method == 'match':
                        d['pattern_body'] = r2.pattern
            return d
        raise AnalysisError(
            'unrecognised branch test in Lexer._process_token: ' +
            ast.unparse(test)[:80])

    def _state_set_in(self, body):
        """attribute self.X assigned a non-None value in an opener body whose
        X is tested by a continuation branch."""
        cands = []
        for st in body:
            for n in walk_own(st):
                if isinstance(n, ast.Assign):
                    for t in n.targets:
                        if isinstance(t, ast.Attribute) and \
                                isinstance(t.value, ast.Name) and \
                                t.value.id == 'self' and not (
                                    isinstance(n.value, ast.Constant) and
                                    n.value.value is None):
                            cands.append(t.attr)
        return cands

    # -- terminators of the continuation branches ---------------------------
    def comment_terminator(self, link):
        """bytes literal searched by s.index(...) / s.find(...) and the number
        of bytes skipped past its start."""
        f = self.f
        for st in link['body']:
            for n in walk_own(st):
                fu = norm.find_use(self.ctx, f, n)
                if fu is None or not isinstance(fu[1], bytes):
                    continue
                term = fu[1]
                # the skip: <found> + K, K a constant or len(<the terminator>)
                add = None
                result_names = set()
                p = getattr(n, '_parent', None)
                if isinstance(p, ast.Assign) and p.value is n:
                    result_names = {t.id for t in p.targets
                                    if isinstance(t, ast.Name)}
                for st2 in link['body']:
                    for b in walk_own(st2):
                        if not (isinstance(b, ast.BinOp) and
                                isinstance(b.op, ast.Add)):
                            continue
                        if b.left is n or (isinstance(b.left, ast.Name) and
                                           b.left.id in result_names):
                            v = norm.fold(self.ctx, f, b.right)
                            if isinstance(v, int):
                                add = v
                return term, add
        return None, None

    def long_string_terminator(self, link):
        """(prefix, state attr, suffix) of the closer searched for:
        re.search(prefix + self.X + suffix, s) -- prefix/suffix regex source --
        or s.find(prefix + self.X + suffix) -- literal text.  Literal text is
        returned regex-escaped so both spellings compare equal."""
        f = self.f

        def parts_of(e):
            e = norm.subst_locals(f.node, e)
            parts = []

            def flat(x):
                if isinstance(x, ast.BinOp) and isinstance(x.op, ast.Add):
                    flat(x.left)
                    flat(x.right)
                else:
                    parts.append(x)
            flat(e)
            if len(parts) == 3 and isinstance(parts[1], ast.Attribute) and \
                    isinstance(parts[1].value, ast.Name) and \
                    parts[1].value.id == 'self':
                a = norm.fold_bytes(self.ctx, f, parts[0])
                b = norm.fold_bytes(self.ctx, f, parts[2])
                if a is not None and b is not None:
                    return a, parts[1].attr, b
            return None
        for st in link['body']:
            for n in walk_own(st):
                if isinstance(n, ast.Call) and self.model.ext_name(
                        self.module, n.func) == 're.search' and n.args:
                    r = parts_of(n.args[0])
                    if r:
                        return r
                if isinstance(n, ast.Call) and \
                        isinstance(n.func, ast.Attribute) and \
                        n.func.attr in ('find', 'index') and n.args:
                    r = parts_of(n.args[0])
                    if r:
                        return (re.escape(r[0]), r[1], re.escape(r[2]))
        return None

    def string_skip_set(self, link):
        """Bytes blindly consumed after a backslash by the in-string loop:
        first bytes of every regex matched after the backslash, plus the
        single-byte keys of the escape table.  Helper functions the branch
        calls are followed."""
        skip = set()
        uses_table = False
        for (fn, n) in norm.walk_deep(self.model, self.f, list(link['body'])):
            ru = norm.regex_use(self.ctx, fn, n)
            if ru is not None and ru.method == 'match':
                skip |= rx.first_bytes(rx.build(ru.pattern))
            elif isinstance(n, ast.Call) and self.model.ext_name(
                    fn.module, n.func) == 're.match' and n.args:
                raise AnalysisError('escape pattern not constant')
            if isinstance(n, ast.Name) and n.id == '_STRING_ESCAPES' and \
                    isinstance(n.ctx, ast.Load):
                uses_table = True
        if uses_table:
            for k in self.escapes:
                if isinstance(k, bytes) and len(k) == 1:
                    skip.add(k[0])
        return frozenset(skip)

    def token_class_in(self, link):
        for st in link['body']:
            for n in walk_own(st):
                if isinstance(n, ast.Call) and isinstance(n.func, ast.Name) \
                        and n.func.id in KIND_OF_CLASS:
                    return n.func.id
        return None


def build_impl(src, max_level=2):
    """-> Tokenizer('first') for one token from the start of a chunk."""
    rows = []
    for op in src.openers:
        cont = op.get('cont')
        if cont is None:
            raise AnalysisError('opener without continuation state')
        cls = src.token_class_in(cont)
        kind = KIND_OF_CLASS.get(cls)
        if kind is None:
            raise AnalysisError('continuation branch builds no token')
        if op['kind'] == 'prefix' and len(op['prefixes']) == 1 and \
                len(op['prefixes'][0]) > 1:
            term, _add = src.comment_terminator(cont)
            if term is None:
                raise AnalysisError('block terminator not found')
            rows.append(Row(kind, block_nfa(op['prefixes'][0], term),
                            'firstacc', True,
                            label='block ' + op['prefixes'][0].decode('latin-1')))
        elif op['kind'] == 'regex':
            t = src.long_string_terminator(cont)
            if t is None:
                raise AnalysisError('long-string terminator not found')
            pre, attr, suf = t
            # level alphabet from the opener pattern's group
            for lvl in range(max_level + 1):
                level = b'=' * lvl
                opener = None
                nfa_o = rx.build(op['pattern'])
                cand = b'[' + level + b'['
                if rx.accepts(nfa_o, cand):
                    opener = cand
                if opener is None:
                    continue
                closer_re = pre + re.escape(level) + suf
                # closer is a literal once the level is fixed
                closer = _regex_literal(closer_re)
                rows.append(Row(kind, block_nfa(opener, closer), 'firstacc',
                                True, label='long-string level {}'.format(lvl)))
        elif op['kind'] == 'prefix':
            skip = src.string_skip_set(cont)
            for q in op['prefixes']:
                rows.append(Row(kind, quoted_nfa(q, skip), 'firstacc', True,
                                label='quoted ' + q.decode('latin-1')))
        else:
            raise AnalysisError('opener idiom not modelled')
    base = len(rows)
    seg_of = {}
    for si, (a, b) in enumerate(src.unordered):
        for i in range(a, b):
            seg_of[i] = si
    for i, (rg, cls) in enumerate(src.table):
        kind = KIND_OF_CLASS.get(cls, 'skip' if cls is None else None)
        if kind is None:
            raise AnalysisError('unknown token class ' + str(cls))
        rows.append(Row(kind, rx.build(rg.pattern, rg.flags), 'longest',
                        False, label='row{} {}'.format(
                            i, rg.pattern.decode('latin-1')),
                        seg=seg_of.get(i)))
    return Tokenizer(rows, 'first'), base


def _regex_literal(pattern):
    """bytes denoted by a regex that is a plain literal (escaped chars)."""
    out = bytearray()
    for (op, av) in rx.parse(pattern):
        if str(op) != 'LITERAL':
            raise AnalysisError('terminator is not a literal')
        out.append(av)
    return bytes(out)


def build_reference(skip_after_backslash=None):
    rows = []
    rows.append(Row('comment', block_nfa(*ref.BLOCK_COMMENT), 'firstacc',
                    True, label='ref block comment'))
    for lvl in ref.LONG_STRING_LEVELS:
        eq = b'=' * lvl
        rows.append(Row('string', block_nfa(b'[' + eq + b'[', b']' + eq + b']'),
                        'firstacc', True,
                        label='ref long string {}'.format(lvl)))
    for q in ref.QUOTES:
        # Lua: a backslash always escapes the next character
        rows.append(Row('string', quoted_nfa(q, rx.ALL), 'firstacc', True,
                        label='ref quoted ' + q.decode()))
    for pat in ref.OUT_OF_DIALECT_PREFIXES:
        rows.append(Row('undef', rx.build(pat), 'firstacc', False,
                        label='out-of-dialect ' + pat.decode(), undef=True))
    for item in ref.PLAIN_ROWS:
        if len(item) == 3:
            kind, _none, lit = item
            rows.append(Row(kind, _literal_nfa(lit), 'longest', False,
                            label='ref ' + lit.decode('latin-1')))
        else:
            kind, pat = item
            rows.append(Row(kind, rx.build(pat), 'longest', False,
                            label='ref ' + kind + ' ' +
                            pat.decode('latin-1')[:24]))
    return Tokenizer(rows, 'longest')
