"""Extraction of picotool's effective tokenizer from the source of
pico8/lua/lexer.py (table rows via E2, procedural openers via the if-chain of
Lexer._process_token), and construction of the reference tokenizer from
refs/lexical.py.  Both become `lexmodel.Tokenizer`s over E6 automata."""
import ast
import re

from . import rx
from .consteval import UNKNOWN, Regex, ClassRef, TList
from .core import AnalysisError, Vanished
from .lexmodel import Row, Tokenizer
from .refs import lexical as ref
from .srcmodel import walk_own, const_str
from . import norm

KIND_OF_CLASS = {
    'TokComment': 'comment', 'TokSpace': 'space', 'TokNewline': 'newline',
    'TokNumber': 'number', 'TokLabel': 'label', 'TokKeyword': 'keyword',
    'TokSymbol': 'symbol', 'TokName': 'name', 'TokString': 'string',
}


def _literal_nfa(data):
    n = rx.NFA()
    cur = n.start
    for b in data:
        nxt = n.new()
        n.add_byte(cur, {b}, nxt)
        cur = nxt
    n.accept = cur
    return n


def block_nfa(opener, closer):
    """opener, then the shortest text ending in closer (first-accept row)."""
    n = rx.NFA()
    cur = n.start
    for b in opener:
        nxt = n.new()
        n.add_byte(cur, {b}, nxt)
        cur = nxt
    n.marks[cur] = 'commit'
    # KMP-free construction: NFA that guesses where the closer starts
    body = cur
    n.add_byte(body, rx.ALL, body)
    c = body
    for b in closer:
        nxt = n.new()
        n.add_byte(c, {b}, nxt)
        c = nxt
    n.accept = c
    return n


def quoted_nfa(quote, skip_after_backslash):
    """quote, body, quote; a backslash consumes the next byte blindly iff
    that byte is in skip_after_backslash, otherwise it is an ordinary byte."""
    q = quote[0]
    n = rx.NFA()
    body = n.new()
    n.add_byte(n.start, {q}, body)
    n.marks[body] = 'commit'
    esc = n.new()
    n.add_byte(body, rx.ALL - {q, 0x5c}, body)
    n.add_byte(body, {0x5c}, esc)
    n.add_byte(esc, skip_after_backslash, body)
    n.add_eps(esc, body, ('nla', frozenset(skip_after_backslash)))
    acc = n.new()
    n.add_byte(body, {q}, acc)
    n.accept = acc
    return n


class LexerSource:
    """What the analysis extracted from lexer.py."""

    def __init__(self, ctx):
        self.ctx = ctx
        self.model = ctx.model
        self.ev = ctx.consts
        self.module = self.model.module('pico8.lua.lexer')
        self.f = self.model.func('pico8.lua.lexer:Lexer._process_token')
        self.table = None          # [(Regex, class name|None)]
        self.unordered = []
        self.links = []            # if-chain description
        self.openers = []          # dicts
        self.escapes = None
        self._extract_table()
        self._extract_chain()

    # -- table -------------------------------------------------------------
    def _extract_table(self):
        t = self.ev.module_const('pico8.lua.lexer', '_TOKEN_MATCHERS')
        if t is UNKNOWN or not isinstance(t, list):
            raise AnalysisError('_TOKEN_MATCHERS does not evaluate')
        rows = []
        for item in t:
            if not (isinstance(item, tuple) and len(item) == 2 and
                    isinstance(item[0], Regex)):
                raise AnalysisError('unexpected _TOKEN_MATCHERS row ' +
                                    repr(item)[:80])
            cls = item[1]
            if cls is None:
                rows.append((item[0], None))
            elif isinstance(cls, ClassRef):
                rows.append((item[0], cls.name))
            else:
                raise AnalysisError('row class is not a class: ' +
                                    repr(cls)[:60])
        self.table = rows
        self.unordered = list(getattr(t, 'unordered', []))
        esc = self.ev.module_const('pico8.lua.lexer', '_STRING_ESCAPES')
        if esc is UNKNOWN or not isinstance(esc, dict):
            raise AnalysisError('_STRING_ESCAPES does not evaluate')
        self.escapes = esc
        self.rev_escapes = self.ev.module_const('pico8.lua.lexer',
                                                '_STRING_REVERSE_ESCAPES')

    # -- procedural part: paths of Lexer._process_token -----------------------
    def _extract_chain(self):
        """Branch structure of _process_token from its symbolic paths (not
        from the shape of its if-chain): which continuation state or opener
        test selects a path, in which order the tests are made."""
        from .absint.symbody import SymBody
        f = self.f
        if len(f.params()) < 2:
            raise AnalysisError('_process_token signature changed')
        self.s_name = f.params()[1]
        self.sym = SymBody(self.ctx, f, max_paths=600)
        self.paths = self.sym.run(f.node.body)
        branches = {}
        order = []
        order_ok = True
        for p in self.paths:
            key = None
            seen_opener_test = False
            for (t, val) in p.conds:
                c = self._classify_cond(t)
                if c is None:
                    continue
                if c[0] == 'state':
                    if seen_opener_test:
                        order_ok = False
                    if val and key is None:
                        key = c
                else:
                    seen_opener_test = True
                    if val and key is None:
                        key = c
            if key is None:
                key = ('table',)
            if key not in branches:
                branches[key] = []
                order.append(key)
            branches[key].append(p)
        self.branches = branches
        self.state_order_ok = order_ok
        links = []
        for key in order:
            d = {'node': f.node, 'paths': branches[key], 'kind': key[0]}
            if key[0] == 'state':
                d['state'] = key[1]
            elif key[0] == 'prefix':
                d['prefixes'] = list(key[1])
            elif key[0] == 'regex':
                d['pattern'] = key[1]
            links.append(d)
        self.links = links
        kinds = [l['kind'] for l in links]
        if 'table' not in kinds:
            raise Vanished('table-driven branch of _process_token not found')
        # the table branch: every state and opener test negative
        tl = [l for l in links if l['kind'] == 'table'][0]
        loop = None
        loop_f = None
        for p in tl['paths']:
            for e in p.events:
                if e[0] == 'loop' and isinstance(e[1], ast.For) and \
                        isinstance(e[1].iter, ast.Name) and \
                        e[1].iter.id == '_TOKEN_MATCHERS':
                    loop, loop_f = e[1], f
        if loop is None:
            for (fn, x) in norm.walk_deep(self.model, f, list(f.node.body)):
                if isinstance(x, ast.For) and isinstance(x.iter, ast.Name) \
                        and x.iter.id == '_TOKEN_MATCHERS':
                    loop, loop_f = x, fn
        if loop is None:
            raise Vanished('loop over _TOKEN_MATCHERS not found')
        tl['loop'] = loop
        tl['loop_func'] = loop_f
        n_tests = len([k for k in order if k[0] != 'table'])
        self.table_last = all(
            len([1 for (t, v) in p.conds
                 if self._classify_cond(t) is not None and not v]) >= n_tests
            for p in tl['paths'])
        states = {l['state']: l for l in links if l['kind'] == 'state'}
        for l in links:
            if l['kind'] in ('prefix', 'regex'):
                sets = set()
                for p in l['paths']:
                    for e in p.events:
                        if e[0] == 'set' and e[1].startswith('self.') and \
                                not (isinstance(e[2], ast.Constant) and
                                     e[2].value is None):
                            sets.add(e[1][5:])
                st = [c for c in sorted(sets) if c in states]
                l['sets_state'] = st[0] if st else None
                l['cont'] = states.get(l['sets_state'])
                if l['kind'] == 'regex':
                    # the pattern the body re-matches to capture the level
                    for p in l['paths']:
                        for e in p.events:
                            if e[0] == 'set':
                                for x in ast.walk(e[2]):
                                    ru = norm.regex_use(self.ctx, f, x)
                                    if ru is not None and \
                                            ru.method == 'match':
                                        l['pattern_body'] = ru.pattern
                self.openers.append(l)

    def _classify_cond(self, t):
        """('state', X) | ('prefix', (b..)) | ('regex', pattern) | None"""
        s = self.s_name
        neg = False
        while isinstance(t, ast.UnaryOp) and isinstance(t.op, ast.Not):
            t = t.operand
            neg = not neg
        if neg:
            return None
        if isinstance(t, ast.Compare) and len(t.ops) == 1 and \
                isinstance(t.ops[0], ast.IsNot) and \
                isinstance(t.left, ast.Attribute) and \
                isinstance(t.left.value, ast.Name) and \
                t.left.value.id == 'self' and \
                isinstance(t.comparators[0], ast.Constant) and \
                t.comparators[0].value is None:
            return ('state', t.left.attr)
        pre = norm.prefixes_of(self.ctx, self.f, t, s)
        if pre:
            return ('prefix', tuple(pre))
        ru = norm.regex_use(self.ctx, self.f, t)
        if ru is not None and ru.method == 'match' and \
                isinstance(ru.subject, ast.Name) and ru.subject.id == s and \
                ru.pos is None:
            return ('regex', ru.pattern)
        return None

    def _state_set_in(self, body):
        return []

    # -- what the paths of one branch do ---------------------------------------
    def branch_nodes(self, link):
        """(function, node) for every AST node of the substituted expressions
        of the branch's paths; loops the paths pass through are walked as
        source (with the helpers they call)"""
        seen_loops = set()
        for p in link['paths']:
            exprs = [t for (t, _v) in p.conds]
            if p.ret is not None:
                exprs.append(p.ret)
            for e in p.events:
                if e[0] == 'loop':
                    if id(e[1]) not in seen_loops:
                        seen_loops.add(id(e[1]))
                        for r in norm.walk_deep(self.model, self.f, [e[1]]):
                            yield r
                    continue
                for x in e[1:-1]:
                    if isinstance(x, ast.AST):
                        exprs.append(x)
                    elif isinstance(x, list):
                        exprs.extend(y for y in x if isinstance(y, ast.AST))
            for ex in exprs:
                for n in ast.walk(ex):
                    yield self.f, n

    def loop_paths(self, link, which=None):
        """per-iteration paths of the loops a branch passes through: the loop
        body run from the environment at loop entry (aliases resolved).
        -> [(loop node, [Path])]"""
        out = []
        seen = set()
        for p in link['paths']:
            for e in p.events:
                if e[0] == 'loop' and id(e[1]) not in seen:
                    seen.add(id(e[1]))
                    if which is not None and not which(e[1]):
                        continue
                    env = dict(e[2])
                    # what the loop itself assigns is unknown at its head
                    for x in ast.walk(e[1]):
                        if isinstance(x, ast.Name) and \
                                isinstance(x.ctx, ast.Store):
                            env.pop(x.id, None)
                    out.append((e[1], self.sym.run(e[1].body, env), env))
        return out

    def found_split(self, link):
        """paths of a continuation branch split by whether the terminator was
        found in this chunk: -> (found paths, not-found paths, needle)"""
        found, notfound = [], []
        needle = None
        for p in link['paths']:
            verdict = None
            for (t, val) in p.conds:
                r = self._found_cond(t)
                if r is None:
                    continue
                is_found, nd = r
                verdict = is_found if val else not is_found
                needle = nd if nd is not None else needle
            if verdict is None:
                # try/except form: s.index(T) raises when absent
                if any(ast.unparse(t).startswith('raised:')
                       for (t, _v) in p.conds):
                    verdict = False
                else:
                    verdict = True
            (found if verdict else notfound).append(p)
        return found, notfound, needle

    def _found_cond(self, t):
        """test expression -> (True when it means FOUND, needle expr)"""
        s = self.s_name
        if isinstance(t, ast.UnaryOp) and isinstance(t.op, ast.Not):
            r = self._found_cond(t.operand)
            return None if r is None else (not r[0], r[1])

        def is_search(e):
            if isinstance(e, ast.Call) and isinstance(e.func, ast.Attribute):
                if e.func.attr in ('find', 'index') and \
                        isinstance(e.func.value, ast.Name) and \
                        e.func.value.id == s and e.args:
                    return e.args[0]
                if self.model.ext_name(self.module, e.func) == 're.search' \
                        and len(e.args) >= 2:
                    return e.args[0]
            return None
        nd = is_search(t)
        if nd is not None:
            return True, nd                    # truthiness of re.search(..)
        if isinstance(t, ast.Compare) and len(t.ops) == 1:
            nd = is_search(t.left)
            c = t.comparators[0]
            v = c.value if isinstance(c, ast.Constant) else (
                -c.operand.value if isinstance(c, ast.UnaryOp) and
                isinstance(c.op, ast.USub) and
                isinstance(c.operand, ast.Constant) else None)
            if nd is not None and isinstance(v, int):
                op = t.ops[0]
                if isinstance(op, ast.Lt) and v == 0:
                    return False, nd
                if isinstance(op, ast.GtE) and v == 0:
                    return True, nd
                if isinstance(op, ast.Eq) and v == -1:
                    return False, nd
                if isinstance(op, ast.NotEq) and v == -1:
                    return True, nd
                if isinstance(op, ast.Gt) and v == -1:
                    return True, nd
                if isinstance(op, ast.LtE) and v == -1:
                    return False, nd
            if nd is not None and isinstance(c, ast.Constant) and \
                    c.value is None:
                if isinstance(t.ops[0], ast.IsNot):
                    return True, nd
                if isinstance(t.ops[0], ast.Is):
                    return False, nd
        return None

    def comment_terminator(self, link):
        """bytes literal searched by s.index(...) / s.find(...) in a block
        continuation and the number of bytes consumed past its start."""
        s = self.s_name
        found, _nf, _nd = self.found_split(link)
        for p in found:
            e = p.ret
            if isinstance(e, ast.BinOp) and isinstance(e.op, ast.Add):
                for a, b in ((e.left, e.right), (e.right, e.left)):
                    if isinstance(a, ast.Call) and \
                            isinstance(a.func, ast.Attribute) and \
                            a.func.attr in ('find', 'index') and \
                            isinstance(a.func.value, ast.Name) and \
                            a.func.value.id == s and a.args and \
                            isinstance(const_str(a.args[0]), bytes):
                        add = b.value if isinstance(b, ast.Constant) and \
                            isinstance(b.value, int) else None
                        return const_str(a.args[0]), add
        # fall back: any find/index with a literal needle in the branch
        for (fn, n) in self.branch_nodes(link):
            fu = norm.find_use(self.ctx, fn, n)
            if fu is not None and isinstance(fu[1], bytes):
                return fu[1], None
        return None, None

    def long_string_terminator(self, link):
        """(prefix, state attr, suffix) of the closer searched for:
        re.search(prefix + self.X + suffix, s) -- prefix/suffix regex source --
        or s.find(prefix + self.X + suffix) -- literal text.  Literal text is
        returned regex-escaped so both spellings compare equal."""
        def parts_of(e):
            parts = []

            def flat(x):
                if isinstance(x, ast.BinOp) and isinstance(x.op, ast.Add):
                    flat(x.left)
                    flat(x.right)
                else:
                    parts.append(x)
            flat(e)
            if len(parts) == 3 and isinstance(parts[1], ast.Attribute) and \
                    isinstance(parts[1].value, ast.Name) and \
                    parts[1].value.id == 'self':
                a = const_str(parts[0])
                b = const_str(parts[2])
                if isinstance(a, bytes) and isinstance(b, bytes):
                    return a, parts[1].attr, b
            return None
        for (fn, n) in self.branch_nodes(link):
            if isinstance(n, ast.Call) and self.model.ext_name(
                    fn.module, n.func) == 're.search' and n.args:
                r = parts_of(n.args[0])
                if r:
                    return r
            if isinstance(n, ast.Call) and \
                    isinstance(n.func, ast.Attribute) and \
                    n.func.attr in ('find', 'index') and n.args:
                r = parts_of(n.args[0])
                if r:
                    return (re.escape(r[0]), r[1], re.escape(r[2]))
        return None

    def string_skip_set(self, link):
        """Bytes blindly consumed after a backslash by the in-string loop:
        first bytes of every regex matched after the backslash, plus the
        single-byte keys of the escape table.  Helper functions the branch
        calls are followed."""
        skip = set()
        uses_table = False
        for (fn, n) in self.branch_nodes(link):
            ru = norm.regex_use(self.ctx, fn, n)
            if ru is not None and ru.method == 'match':
                skip |= rx.first_bytes(rx.build(ru.pattern))
            elif isinstance(n, ast.Call) and self.model.ext_name(
                    fn.module, n.func) == 're.match' and n.args:
                raise AnalysisError('escape pattern not constant')
            if isinstance(n, ast.Name) and n.id == '_STRING_ESCAPES' and \
                    isinstance(n.ctx, ast.Load):
                uses_table = True
        if uses_table:
            for k in self.escapes:
                if isinstance(k, bytes) and len(k) == 1:
                    skip.add(k[0])
        return frozenset(skip)

    def token_class_in(self, link):
        for (_fn, n) in self.branch_nodes(link):
            if isinstance(n, ast.Call) and isinstance(n.func, ast.Name) \
                    and n.func.id in KIND_OF_CLASS:
                return n.func.id
        return None


def build_impl(src, max_level=2):
    """-> Tokenizer('first') for one token from the start of a chunk."""
    rows = []
    for op in src.openers:
        cont = op.get('cont')
        if cont is None:
            raise AnalysisError('opener without continuation state')
        cls = src.token_class_in(cont)
        kind = KIND_OF_CLASS.get(cls)
        if kind is None:
            raise AnalysisError('continuation branch builds no token')
        if op['kind'] == 'prefix' and len(op['prefixes']) == 1 and \
                len(op['prefixes'][0]) > 1:
            term, _add = src.comment_terminator(cont)
            if term is None:
                raise AnalysisError('block terminator not found')
            rows.append(Row(kind, block_nfa(op['prefixes'][0], term),
                            'firstacc', True,
                            label='block ' + op['prefixes'][0].decode('latin-1')))
        elif op['kind'] == 'regex':
            t = src.long_string_terminator(cont)
            if t is None:
                raise AnalysisError('long-string terminator not found')
            pre, attr, suf = t
            # level alphabet from the opener pattern's group
            for lvl in range(max_level + 1):
                level = b'=' * lvl
                opener = None
                nfa_o = rx.build(op['pattern'])
                cand = b'[' + level + b'['
                if rx.accepts(nfa_o, cand):
                    opener = cand
                if opener is None:
                    continue
                closer_re = pre + re.escape(level) + suf
                # closer is a literal once the level is fixed
                closer = _regex_literal(closer_re)
                rows.append(Row(kind, block_nfa(opener, closer), 'firstacc',
                                True, label='long-string level {}'.format(lvl)))
        elif op['kind'] == 'prefix':
            skip = src.string_skip_set(cont)
            for q in op['prefixes']:
                rows.append(Row(kind, quoted_nfa(q, skip), 'firstacc', True,
                                label='quoted ' + q.decode('latin-1')))
        else:
            raise AnalysisError('opener idiom not modelled')
    base = len(rows)
    seg_of = {}
    for si, (a, b) in enumerate(src.unordered):
        for i in range(a, b):
            seg_of[i] = si
    for i, (rg, cls) in enumerate(src.table):
        kind = KIND_OF_CLASS.get(cls, 'skip' if cls is None else None)
        if kind is None:
            raise AnalysisError('unknown token class ' + str(cls))
        rows.append(Row(kind, rx.build(rg.pattern, rg.flags), 'longest',
                        False, label='row{} {}'.format(
                            i, rg.pattern.decode('latin-1')),
                        seg=seg_of.get(i)))
    return Tokenizer(rows, 'first'), base


def _regex_literal(pattern):
    """bytes denoted by a regex that is a plain literal (escaped chars)."""
    out = bytearray()
    for (op, av) in rx.parse(pattern):
        if str(op) != 'LITERAL':
            raise AnalysisError('terminator is not a literal')
        out.append(av)
    return bytes(out)


def build_reference(skip_after_backslash=None):
    rows = []
    rows.append(Row('comment', block_nfa(*ref.BLOCK_COMMENT), 'firstacc',
                    True, label='ref block comment'))
    for lvl in ref.LONG_STRING_LEVELS:
        eq = b'=' * lvl
        rows.append(Row('string', block_nfa(b'[' + eq + b'[', b']' + eq + b']'),
                        'firstacc', True,
                        label='ref long string {}'.format(lvl)))
    for q in ref.QUOTES:
        # Lua: a backslash always escapes the next character
        rows.append(Row('string', quoted_nfa(q, rx.ALL), 'firstacc', True,
                        label='ref quoted ' + q.decode()))
    for pat in ref.OUT_OF_DIALECT_PREFIXES:
        rows.append(Row('undef', rx.build(pat), 'firstacc', False,
                        label='out-of-dialect ' + pat.decode(), undef=True))
    for item in ref.PLAIN_ROWS:
        if len(item) == 3:
            kind, _none, lit = item
            rows.append(Row(kind, _literal_nfa(lit), 'longest', False,
                            label='ref ' + lit.decode('latin-1')))
        else:
            kind, pat = item
            rows.append(Row(kind, rx.build(pat), 'longest', False,
                            label='ref ' + kind + ' ' +
                            pat.decode('latin-1')[:24]))
    return Tokenizer(rows, 'longest')
