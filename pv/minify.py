"""Extraction of LuaMinifyTokenWriter as a finite transducer.

The writer is a loop over the token list with a branch per token class and a
few loop-carried flags.  The loop body is interpreted ABSTRACTLY: the token is
one of ten classes, flags are booleans / a small counter, so (class, state)
ranges over a finite set; for each the interpreter yields the emitted chunks
(symbolic: ' ', '\\n', the token's code, its short name, its label form) and
the next state.  Nothing of picotool runs; a construct outside the small
statement/expression subset aborts the analysis (exit 2).
"""
import ast

from .core import AnalysisError, Vanished
from .srcmodel import walk_own, const_str

# Token kinds.  The symbol and keyword kinds are split further into classes
# by the membership tests on the token's spelling that the writer itself makes
# (e.g. `token.code in b'])}'`): two spellings are in one class iff every
# such test gives the same answer for both.
KINDS = ('Comment', 'Space', 'Newline', 'Name', 'Label', 'Keyword', 'Number',
         'Symbol', 'String')
KIND_OF_TOKCLASS = {
    'TokComment': 'Comment', 'TokSpace': 'Space', 'TokNewline': 'Newline',
    'TokName': 'Name', 'TokLabel': 'Label', 'TokKeyword': 'Keyword',
    'TokNumber': 'Number', 'TokSymbol': 'Symbol', 'TokString': 'String',
}
CODE_KINDS = ('Name', 'Label', 'Keyword', 'Number', 'Symbol', 'String')

W = 'pico8.lua.lua:LuaMinifyTokenWriter'


class _Continue(Exception):
    pass


class MinifierModel:
    def __init__(self, ctx):
        self.ctx_ = ctx
        self.model = ctx.model
        self.ev = ctx.consts
        self.cls = self.model.cls(W)
        self.hazards = set()
        self.wrapper = None
        self.core = None
        self._find_core()
        self._partition()
        self._init_state()
        self.table = {}
        self._build()

    # ---- locate the per-token generator and (optionally) the wrapper --------
    def _find_core(self):
        tl = self.cls.methods.get('to_lines')
        if tl is None:
            raise Vanished('LuaMinifyTokenWriter.to_lines not found')
        loop = self._token_loop(tl)
        if loop is not None:
            self.core = tl
            self.loop = loop
            return
        # wrapper form: for chunk in self.<gen>(): ...
        for st in tl.node.body:
            if isinstance(st, ast.For) and isinstance(st.iter, ast.Call) and \
                    isinstance(st.iter.func, ast.Attribute) and \
                    isinstance(st.iter.func.value, ast.Name) and \
                    st.iter.func.value.id == 'self':
                gen = self.cls.methods.get(st.iter.func.attr)
                if gen is not None and self._token_loop(gen) is not None:
                    self.core = gen
                    self.loop = self._token_loop(gen)
                    self.wrapper = tl
                    self._extract_wrapper(tl, st)
                    return
        raise Vanished('token loop of LuaMinifyTokenWriter not found')

    def _token_loop(self, m):
        for st in m.node.body:
            if isinstance(st, ast.For) and isinstance(st.iter, ast.Attribute) \
                    and st.iter.attr == '_tokens' and \
                    isinstance(st.target, ast.Name):
                return st
        return None

    def _extract_wrapper(self, tl, loop):
        """hazard stage, from the per-chunk paths of the wrapper loop:
             [if T' + chunk[:1] in HAZ: yield b' ']; yield chunk;
             [if chunk: T = chunk | chunk[-1:]]
        with T' = T[-1:] when the whole last chunk is tracked, T when only
        its last byte is."""
        from .absint.symbody import SymBody
        u = ast.unparse
        var = loop.target.id if isinstance(loop.target, ast.Name) else None
        if var is None:
            raise AnalysisError('wrapper loop target')
        sym = SymBody(self.ctx_, tl)
        paths = sym.run(loop.body, {})
        self.wrapper_ok = True
        hazards = None
        track = None           # (name, 'chunk' | 'last-byte')
        for p in paths:
            ys = [e for e in p.events if e[0] == 'yield']
            others = [e for e in p.events if e[0] not in ('yield',)]
            if others or p.end not in ('fall', 'continue'):
                raise AnalysisError('wrapper statement outside model: ' +
                                    (u(others[0][1])[:50] if others and
                                     isinstance(others[0][1], ast.AST)
                                     else p.end))
            haz_val = None
            nonempty = None
            for (t, val) in p.conds:
                while isinstance(t, ast.UnaryOp) and \
                        isinstance(t.op, ast.Not):
                    t, val = t.operand, not val
                if isinstance(t, ast.Name) and t.id == var:
                    nonempty = val
                    continue
                if isinstance(t, ast.Compare) and len(t.ops) == 1 and \
                        isinstance(t.ops[0], (ast.In, ast.NotIn)) and \
                        isinstance(t.left, ast.BinOp) and \
                        isinstance(t.left.op, ast.Add):
                    try:
                        hz = ast.literal_eval(t.comparators[0])
                    except Exception:
                        raise AnalysisError('wrapper hazard test outside '
                                            'model')
                    l, r = t.left.left, t.left.right
                    if u(r) != var + '[:1]':
                        raise AnalysisError('wrapper hazard test outside '
                                            'model')
                    if isinstance(l, ast.Subscript) and \
                            isinstance(l.value, ast.Name) and \
                            u(l.slice) == '-1:':
                        tk = (l.value.id, 'chunk')
                    elif isinstance(l, ast.Name):
                        tk = (l.id, 'last-byte')
                    else:
                        raise AnalysisError('wrapper hazard test outside '
                                            'model')
                    if track is not None and tk != track:
                        self.wrapper_ok = False
                    track = tk
                    if not isinstance(hz, (tuple, list, set, frozenset)):
                        raise AnalysisError('wrapper hazard set')
                    hazards = {bytes(h) for h in hz}
                    haz_val = val if isinstance(t.ops[0], ast.In) else not val
                    continue
                raise AnalysisError('wrapper test outside model: ' +
                                    u(t)[:50])
            want = ([b' '] if haz_val else []) + [var]
            got = [(const_str(e[1]) if isinstance(const_str(e[1]), bytes)
                    else u(e[1])) for e in ys]
            if got != want:
                self.wrapper_ok = False
            # tracking update
            if track is not None:
                upd = p.env.get(track[0])
                exp = var if track[1] == 'chunk' else var + '[-1:]'
                if nonempty is True and (upd is None or u(upd) != exp):
                    self.wrapper_ok = False
                if nonempty is False and upd is not None:
                    self.wrapper_ok = False
                if nonempty is None and upd is not None and \
                        track[1] == 'chunk':
                    # unconditional update would forget the last non-empty
                    # chunk when an empty chunk passes
                    self.wrapper_ok = False
        if hazards is None or track is None:
            self.hazards = set()
            self.wrapper_ok = self.wrapper_ok and hazards is None
        else:
            self.hazards = hazards

    # ---- token classes ---------------------------------------------------------
    def _spelling_tests(self):
        """membership / equality tests on <tok>.code in the loop body:
        -> [(node, predicate over a spelling)]"""
        tok = self.loop.target.id
        out = []
        spell = {tok + '.code'}
        for n in walk_own(self.loop):
            if isinstance(n, ast.Assign) and len(n.targets) == 1 and \
                    isinstance(n.targets[0], ast.Name) and \
                    ast.unparse(n.value) == tok + '.code':
                spell.add(n.targets[0].id)
        for n in walk_own(self.loop):
            if not (isinstance(n, ast.Compare) and len(n.ops) == 1 and
                    ast.unparse(n.left) in spell):
                continue
            op, c = n.ops[0], n.comparators[0]
            try:
                lit = ast.literal_eval(c)
            except Exception:
                raise AnalysisError('minifier compares the spelling with a '
                                    'non-literal: ' + ast.unparse(n)[:60])
            if isinstance(op, (ast.In, ast.NotIn)):
                if isinstance(lit, bytes):
                    pred = (lambda sp, lit=lit: sp in lit)
                    members = [bytes([b]) for b in lit]
                elif isinstance(lit, (tuple, list, set, frozenset)) and all(
                        isinstance(x, bytes) for x in lit):
                    pred = (lambda sp, lit=frozenset(lit): sp in lit)
                    members = list(lit)
                else:
                    raise AnalysisError('minifier spelling test: ' +
                                        ast.unparse(n)[:60])
            elif isinstance(op, (ast.Eq, ast.NotEq)) and \
                    isinstance(lit, bytes):
                pred = (lambda sp, lit=lit: sp == lit)
                members = [lit]
            else:
                raise AnalysisError('minifier spelling test: ' +
                                    ast.unparse(n)[:60])
            neg = isinstance(op, (ast.NotIn, ast.NotEq))
            out.append((n, pred, neg, members))
        return out

    def _partition(self):
        from .refs import lexical
        self.tests = self._spelling_tests()
        universe = {'Symbol': list(lexical.SYMBOLS),
                    'Keyword': list(lexical.KEYWORDS)}
        known = set(lexical.SYMBOLS) | set(lexical.KEYWORDS)
        for (n, _p, _neg, members) in self.tests:
            for m in members:
                if m not in known and not all(
                        bytes([b]) in known or not bytes([b]).isalnum()
                        for b in m):
                    raise AnalysisError(
                        'minifier tests the spelling against {!r}, which is '
                        'neither a symbol nor a keyword'.format(m))
        self.classes = []
        self.kind_of = {}
        self.members = {}
        self.test_value = {}
        for kind in KINDS:
            if kind not in universe:
                self.classes.append(kind)
                self.kind_of[kind] = kind
                self.members[kind] = None
                # names, numbers, strings, labels, layout: no spelling of
                # these kinds equals a symbol or keyword
                self.test_value[kind] = tuple(False for _ in self.tests)
                continue
            groups = {}
            for sp in universe[kind]:
                sig = tuple(bool(p(sp)) for (_n, p, _neg, _m) in self.tests)
                groups.setdefault(sig, []).append(sp)
            if len(groups) == 1:
                sig = next(iter(groups))
                self.classes.append(kind)
                self.kind_of[kind] = kind
                self.members[kind] = frozenset(groups[sig])
                self.test_value[kind] = sig
                continue
            for sig, sps in sorted(groups.items(),
                                   key=lambda kv: (len(kv[1]), kv[1])):
                if len(sps) <= 6:
                    nm = kind + '{' + ' '.join(
                        x.decode('latin-1') for x in sps) + '}'
                else:
                    nm = '{}{{other {}}}'.format(kind, len(sps))
                    k = 2
                    while nm in self.kind_of:
                        nm = '{}{{other {} #{}}}'.format(kind, len(sps), k)
                        k += 1
                self.classes.append(nm)
                self.kind_of[nm] = kind
                self.members[nm] = frozenset(sps)
                self.test_value[nm] = sig
        self.code_classes = [c for c in self.classes
                             if self.kind_of[c] in CODE_KINDS]

    def class_of(self, kind, spelling=None):
        """class name of a token of `kind` (and spelling, for symbols and
        keywords)."""
        cands = [c for c in self.classes if self.kind_of[c] == kind]
        if len(cands) == 1:
            return cands[0]
        for c in cands:
            if spelling is not None and spelling in self.members[c]:
                return c
        return None

    # ---- loop-carried state ----------------------------------------------------
    def _init_state(self):
        st = {}
        init = self.cls.methods.get('__init__')
        if init is not None:
            for n in walk_own(init.node):
                if isinstance(n, ast.Assign) and \
                        isinstance(n.targets[0], ast.Attribute) and \
                        isinstance(n.targets[0].value, ast.Name) and \
                        n.targets[0].value.id == 'self' and \
                        isinstance(n.value, ast.Constant) and \
                        isinstance(n.value.value, (bool, int)):
                    st['self.' + n.targets[0].attr] = n.value.value
        for s in self.core.node.body:
            if s is self.loop:
                break
            if isinstance(s, ast.Assign) and \
                    isinstance(s.targets[0], ast.Name) and \
                    isinstance(s.value, ast.Constant) and \
                    isinstance(s.value.value, (bool, int)):
                st[s.targets[0].id] = s.value.value
        self.state_vars = sorted(st)
        self.initial = tuple(st[k] for k in self.state_vars)
        # counter cap: one above the largest constant it is compared with
        self.cap = {}
        for n in walk_own(self.loop):
            if isinstance(n, ast.Compare) and len(n.ops) == 1 and \
                    isinstance(n.comparators[0], ast.Constant) and \
                    isinstance(n.comparators[0].value, int) and \
                    not isinstance(n.comparators[0].value, bool):
                nm = ast.unparse(n.left)
                if nm in st:
                    init = st[nm] if isinstance(st[nm], int) and \
                        not isinstance(st[nm], bool) else 0
                    self.cap[nm] = max(self.cap.get(nm, 0),
                                       n.comparators[0].value + 1, init)

    # ---- abstract interpretation of the loop body -----------------------------
    def _build(self):
        tok = self.loop.target.id
        todo = [self.initial]
        seen = {self.initial}
        while todo:
            s = todo.pop()
            for c in self.classes:
                outs, ns = self._run(c, s, tok)
                self.table[(c, s)] = (outs, ns)
                if ns not in seen:
                    seen.add(ns)
                    todo.append(ns)
                if len(seen) > 5000:
                    raise AnalysisError('minifier state space too large')
        self.states = seen

    def _run(self, cls, state, tok):
        env = dict(zip(self.state_vars, state))
        self.locals_ = {}
        outs = []
        try:
            self._block(self.loop.body, env, outs, cls, tok)
        except _Continue:
            pass
        for k, cap in self.cap.items():
            if isinstance(env.get(k), int) and not isinstance(env[k], bool):
                env[k] = min(env[k], cap)
        return tuple(outs), tuple(env[k] for k in self.state_vars)

    def _block(self, stmts, env, outs, cls, tok):
        for st in stmts:
            if isinstance(st, ast.If):
                if self._test(st.test, env, cls, tok):
                    self._block(st.body, env, outs, cls, tok)
                else:
                    self._block(st.orelse, env, outs, cls, tok)
            elif isinstance(st, ast.Expr) and isinstance(st.value, ast.Yield):
                outs.append(self._chunk(st.value.value, tok))
            elif isinstance(st, ast.Expr) and isinstance(st.value,
                                                          ast.Constant):
                pass
            elif isinstance(st, ast.Continue):
                raise _Continue()
            elif isinstance(st, ast.Assign) and len(st.targets) == 1:
                k = ast.unparse(st.targets[0])
                if k not in env:
                    if isinstance(st.targets[0], ast.Name):
                        # a per-token local: kept as an expression (with
                        # earlier locals substituted) and expanded on use
                        self.locals_[k] = self._expand(st.value)
                        continue
                    raise AnalysisError('minifier assigns ' + k)
                env[k] = self._value(st.value, env, cls, tok)
            elif isinstance(st, ast.AugAssign) and \
                    isinstance(st.op, (ast.Add, ast.Sub)):
                k = ast.unparse(st.target)
                if k not in env or not isinstance(st.value, ast.Constant):
                    raise AnalysisError('minifier augments ' + k)
                env[k] = env[k] + st.value.value if isinstance(
                    st.op, ast.Add) else env[k] - st.value.value
            elif isinstance(st, ast.Pass):
                pass
            else:
                raise AnalysisError('minifier statement outside the model: ' +
                                    ast.unparse(st)[:60])

    def _expand(self, e):
        """copy of e with the per-token locals substituted"""
        if not self.locals_ or not any(
                isinstance(x, ast.Name) and x.id in self.locals_
                for x in ast.walk(e)):
            return e
        from .astutil import clone
        loc = self.locals_

        class T(ast.NodeTransformer):
            def visit_Name(self, n):
                if isinstance(n.ctx, ast.Load) and n.id in loc:
                    return clone(loc[n.id])
                return n
        return T().visit(clone(e))

    def _test(self, t, env, cls, tok):
        v = self._value(t, env, cls, tok)
        if not isinstance(v, (bool, int)):
            raise AnalysisError('minifier test is not boolean: ' +
                                ast.unparse(t)[:60])
        return bool(v)

    def _value(self, e, env, cls, tok):
        if isinstance(e, ast.Constant):
            return e.value
        for i, (n, _p, neg, _m) in enumerate(self.tests):
            if n is e:
                return self.test_value[cls][i] != neg
        e = self._expand(e)
        k = ast.unparse(e)
        if k in env:
            return env[k]
        if isinstance(e, ast.UnaryOp) and isinstance(e.op, ast.Not):
            return not self._value(e.operand, env, cls, tok)
        if isinstance(e, ast.BoolOp):
            vals = [self._value(v, env, cls, tok) for v in e.values]
            return all(vals) if isinstance(e.op, ast.And) else any(vals)
        if isinstance(e, ast.Compare) and len(e.ops) == 1:
            for i, (n, _p, neg, _m) in enumerate(self.tests):
                if n is e:
                    return self.test_value[cls][i] != neg
            l = self._value(e.left, env, cls, tok)
            r = self._value(e.comparators[0], env, cls, tok)
            op = e.ops[0]
            if isinstance(op, ast.Lt):
                return l < r
            if isinstance(op, ast.LtE):
                return l <= r
            if isinstance(op, ast.Gt):
                return l > r
            if isinstance(op, ast.GtE):
                return l >= r
            if isinstance(op, ast.Eq):
                return l == r
            if isinstance(op, ast.NotEq):
                return l != r
        if isinstance(e, ast.Call) and isinstance(e.func, ast.Attribute) and \
                e.func.attr == 'matches' and \
                isinstance(e.func.value, ast.Name) and \
                e.func.value.id == tok and e.args:
            nm = ast.unparse(e.args[0]).split('.')[-1]
            if nm in KIND_OF_TOKCLASS:
                return self.kind_of[cls] == KIND_OF_TOKCLASS[nm]
        if isinstance(e, ast.Call) and isinstance(e.func, ast.Name) and \
                e.func.id == 'isinstance' and len(e.args) == 2 and \
                isinstance(e.args[0], ast.Name) and e.args[0].id == tok:
            nm = ast.unparse(e.args[1]).split('.')[-1]
            if nm in KIND_OF_TOKCLASS:
                return self.kind_of[cls] == KIND_OF_TOKCLASS[nm]
        raise AnalysisError('minifier expression outside the model: ' + k[:60])

    def _chunk(self, e, tok):
        e = self._expand(e)
        c = const_str(e)
        if isinstance(c, bytes):
            return ('lit', c)
        k = ast.unparse(e)
        if k == tok + '.code':
            return ('code',)
        if isinstance(e, ast.Call) and isinstance(e.func, ast.Attribute) and \
                e.func.attr == 'get_short_name' and len(e.args) == 1 and \
                ast.unparse(e.args[0]) == tok + '.code':
            return ('short',)
        if isinstance(e, ast.BinOp):
            flat = []

            def rec(x):
                if isinstance(x, ast.BinOp) and isinstance(x.op, ast.Add):
                    rec(x.left)
                    rec(x.right)
                else:
                    flat.append(x)
            rec(e)
            if len(flat) == 3 and const_str(flat[0]) == b'::' and \
                    const_str(flat[2]) == b'::' and \
                    isinstance(flat[1], ast.Call) and \
                    isinstance(flat[1].func, ast.Attribute) and \
                    flat[1].func.attr == 'get_short_name' and \
                    ast.unparse(flat[1].args[0]) == tok + '.code[2:-2]':
                return ('label',)
        return ('other', k[:60])

    # ---- derived views --------------------------------------------------------
    def reachable_after_code(self):
        """states reachable right after a code token was processed"""
        out = set()
        for (c, s), (outs, ns) in self.table.items():
            if c in self.code_classes:
                out.add((c, ns))
        return out

    def sep_function(self, with_newlines=False):
        """{(A, B): set of separators emitted between the chunk of code token
        A and the chunk of code token B when they are directly adjacent
        (nothing, or only spaces/comments, between them) }.  With
        with_newlines, layouts that also contain Newline tokens are explored
        and the text the fillers themselves emit is part of the separator."""
        sep = {}
        fillers = ('Space', 'Comment') + (('Newline',) if with_newlines
                                          else ())
        for (a, s), (_outs, ns) in self.table.items():
            if a not in self.code_classes:
                continue
            # layout between the two tokens: nothing, spaces, dropped comments
            start = (ns, b'', False)
            mids = {start}
            frontier = [start]
            while frontier:
                (x, acc, had_nl) = frontier.pop()
                for filler in fillers:
                    o, y = self.table[(filler, x)]
                    if any(ch[0] != 'lit' for ch in o):
                        continue         # header comment: emits its text
                    if o and not with_newlines:
                        continue
                    acc2 = (acc + b''.join(ch[1] for ch in o))[:4]
                    st = (y, acc2, had_nl or filler == 'Newline')
                    if st not in mids:
                        mids.add(st)
                        frontier.append(st)
            for (x, acc, had_nl) in mids:
                if with_newlines and not had_nl:
                    continue
                for b in self.code_classes:
                    o, _y = self.table[(b, x)]
                    pre = []
                    for ch in o:
                        if ch[0] == 'lit':
                            pre.append(ch[1])
                        else:
                            break
                    sep.setdefault((a, b), set()).add(acc + b''.join(pre))
        return sep
