"""Reference string-escape forms for C06 (R-C06-escapes (ii)).

Sources: Lua 5.2 reference manual section 3.1 (\\a \\b \\f \\n \\r \\t \\v \\\\ \\" \\'
\\<newline>, \\ddd with one to three decimal digits, \\xhh with exactly two hex
digits) and the PICO-8 manual, P8SCII control codes appendix (\\* \\# \\- \\| \\+
\\^ for bytes 1..6; \\0 \\14 \\15 are ordinary decimal escapes).

Each row: (text after the opening quote, up to but excluding the closing
quote) -> the byte string it denotes.
"""

ESCAPE_FORMS = [
    (b'\\a', b'\x07'), (b'\\b', b'\x08'), (b'\\f', b'\x0c'), (b'\\n', b'\n'),
    (b'\\r', b'\r'), (b'\\t', b'\t'), (b'\\v', b'\x0b'), (b'\\\\', b'\\'),
    (b'\\"', b'"'), (b"\\'", b"'"), (b'\\\n', b'\n'),
    # decimal escapes, 1-3 digits, followed by digits or not
    (b'\\0', b'\x00'), (b'\\7', b'\x07'), (b'\\10', b'\n'), (b'\\65', b'A'),
    (b'\\065', b'A'), (b'\\255', b'\xff'), (b'\\0001', b'\x001'),
    (b'\\0651', b'A1'), (b'\\14', b'\x0e'), (b'\\15', b'\x0f'),
    (b'\\1a', b'\x01a'), (b'\\12x', b'\x0cx'),
    # hexadecimal escapes
    (b'\\x41', b'A'), (b'\\x00', b'\x00'), (b'\\xff', b'\xff'),
    (b'\\xFF', b'\xff'), (b'\\x410', b'A0'),
    # P8SCII control escapes
    (b'\\*', b'\x01'), (b'\\#', b'\x02'), (b'\\-', b'\x03'),
    (b'\\|', b'\x04'), (b'\\+', b'\x05'), (b'\\^', b'\x06'),
    # plain text
    (b'abc', b'abc'), (b'a\\nb', b'a\nb'),
]
