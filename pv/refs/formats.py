"""PICO-8 cart formats as layouts -- the oracle of C16 (and of the reference
side of C03/C04/C05/C18).

Sources: PICO-8 manual, "Memory" (base RAM / cart ROM layout 0x0000-0x42ff and
the 0x8000-byte cart image); the .p8 format as written by PICO-8 itself (the
reference carts in tests/testdata are PICO-8 output); PICO-8 wiki "P8FileFormat"
and "P8PNGFileFormat" (section line shapes, steganographic channel order,
the `:c:` compressed-code stream of pre-0.2 carts); sfx/music RAM layout from
the manual's "Audio" memory notes (68 bytes per sfx = 32 two-byte notes + 4
header bytes; 4 bytes per music pattern, loop flags in bit 7 of bytes 0..2).
"""

# cart ROM memory map: (name, start, end)
MEMORY_MAP = [
    ('gfx', 0x0000, 0x2000),
    ('map', 0x2000, 0x3000),
    ('gff', 0x3000, 0x3100),
    ('music', 0x3100, 0x3200),
    ('sfx', 0x3200, 0x4300),
]
CODE_REGION = (0x4300, 0x8000)
VERSION_OFFSET = 0x8000
DATA_END = 0x4300

REGION_SIZE = {n: b - a for (n, a, b) in MEMORY_MAP}

# .p8 text sections: bytes of memory per line
P8_BYTES_PER_LINE = {'gfx': 64, 'label': 64, 'gff': 128, 'map': 128}
# gfx / label: text digit k of a row is pixel k; pixel 2m is the LOW nibble of
# byte m, pixel 2m+1 the HIGH nibble.
GFX_DIGIT_OF_NIBBLE = {'lo': 0, 'hi': 1}      # position within the digit pair
# gff / map: plain hex, high digit first.

# sfx: one line per pattern: 4 header bytes (mode, speed, loop start, loop
# end) then 32 notes of 5 hex digits: pitch (2), waveform (1), volume (1),
# effect (1).  In RAM a pattern is 68 bytes: 32 notes x 2 bytes little endian,
# then the 4 header bytes at offsets 64..67.
SFX_PATTERNS = 64
SFX_BYTES = 68
SFX_NOTES = 32
SFX_HEADER_OFFSETS = {'editor_mode': 64, 'note_duration': 65,
                      'loop_start': 66, 'loop_end': 67}
SFX_LINE_HEADER_ORDER = ['editor_mode', 'note_duration', 'loop_start',
                         'loop_end']
# bits of the 16-bit little-endian note word
SFX_NOTE_BITS = {
    'pitch': [0, 1, 2, 3, 4, 5],
    'waveform': [6, 7, 8, 15],      # bit 15 = custom instrument = waveform bit 3
    'volume': [9, 10, 11],
    'effect': [12, 13, 14],
}
SFX_NOTE_DIGITS = ['pitch.hi', 'pitch.lo', 'waveform', 'volume', 'effect']

# music: one line per pattern: flags byte, space, 4 channel bytes.
# flag bit 0 (loop begin) <-> bit 7 of RAM byte 0, bit 1 (loop end) <-> bit 7
# of byte 1, bit 2 (stop) <-> bit 7 of byte 2; channel value = low 7 bits.
MUSIC_PATTERNS = 64
MUSIC_FLAG_OF_BYTE = {0: 0, 1: 1, 2: 2}     # RAM byte index -> flag bit
MUSIC_UNREPRESENTABLE = [(3, 7)]            # (byte, bit) the .p8 line drops

# .p8.png: data byte = A1 A0 R1 R0 G1 G0 B1 B0 (two low bits of each channel),
# pypng plane order is R,G,B,A = planes 0,1,2,3.
PNG_BITS_OF_PLANE = {3: (7, 6), 0: (5, 4), 1: (3, 2), 2: (1, 0)}

# `:c:` compressed code (pre-0.2.0 format)
C_HEADER = b':c:\x00'
C_HEADER_LEN = 8                 # magic(4) + length hi, lo + 2 zero bytes
C_TABLE = b'\n 0123456789abcdefghijklmnopqrstuvwxyz!#%(){}[]<>+=/*:;.,~_'
C_TABLE_FIRST_INDEX = 1          # byte values 0x01..0x3b index this table
C_LITERAL_ESCAPE = 0x00          # 0x00 b  -> literal byte b
C_BLOCK_FIRST = 0x3c             # b1 >= 0x3c: back reference
C_OFFSET_RADIX = 16              # offset = (b1 - 0x3c) * 16 + (b2 & 15)
C_LENGTH_BIAS = 2                # length = (b2 >> 4) + 2
C_MIN_LEN, C_MAX_LEN = 2, 17
C_MAX_OFFSET = (255 - 0x3c) * 16 + 15
CODE_AREA = 0x8000 - 0x4300
