"""Reference lexical grammar of the dialect picotool supports.

Sources, row by row:
  Lua 5.2 reference manual section 3.1 (names, keywords, numerals with
  [eE][+-]?digits exponents and 0x hex numerals, quoted strings with
  backslash escapes, long brackets [[ ]] / [=[ ]=], `--` comments, the symbol
  set); PICO-8 manual (Lua syntax section) for the extensions picotool
  supports today: != += -= *= /= %= ..= & | ^^ ~ << >> >>> <<> >>< \\ @ $
  `//` comments, `?` print shorthand (a name token in picotool), 0b literals,
  0x/0b fractions, identifiers over bytes >= 0x80 (P8SCII glyphs), and
  `::name::` as one label token (picotool's token model).

Selection: commit rows in order (once their opener is seen nothing else can
match there), then maximal munch, ties by row order (keyword before name).

Where the reference is UNDEFINED nothing is compared:
  * a numeral directly followed by a name character or `.` (Lua: malformed
    number; picotool deliberately lexes `1..x`);
  * `--[=[` long comments with level > 0 (picotool documents it does not
    support them);
  * newer PICO-8 compound operators (|= &= ^^= ^= \\= <<= >>= >>>= <<>= >><=),
    which C09 itself lists as lexable-but-not-parsed.
A CR inside a line comment is kept in the comment (as picotool does; CR is
normalised elsewhere), so the comment row is `--[^\\n]*`.
"""

NAME_START = br'[a-zA-Z_\x80-\xff]'
NAME_CHAR = br'[a-zA-Z0-9_\x80-\xff]'
NOT_NAME_AHEAD = br'(?!' + NAME_CHAR + br')'

KEYWORDS = [
    b'and', b'break', b'do', b'else', b'elseif', b'end', b'false', b'for',
    b'function', b'goto', b'if', b'in', b'local', b'nil', b'not', b'or',
    b'repeat', b'return', b'then', b'true', b'until', b'while']

SYMBOLS = [
    b'+=', b'-=', b'*=', b'/=', b'%=', b'..=',
    b'==', b'~=', b'!=', b'<=', b'>=',
    b'&', b'|', b'^^', b'~', b'<<>', b'>>>', b'>><', b'<<', b'>>',
    b'\\',
    b'+', b'-', b'*', b'/', b'%', b'^', b'#',
    b'@', b'$',
    b'<', b'>', b'=',
    b'(', b')', b'{', b'}', b'[', b']', b';', b':', b',',
    b'...', b'..', b'.']

OUT_OF_DIALECT_PREFIXES = [
    br'\|=', br'&=', br'\^\^=', br'\^=', br'\\=', br'<<=', br'>>=', br'>>>=',
    br'<<>=', br'>><=', br'--\[=+\[',
]

DEC = br'[0-9]+(\.[0-9]*)?([eE][+-]?[0-9]+)?'
DEC_FRAC = br'\.[0-9]+([eE][+-]?[0-9]+)?'
HEX = br'0[xX][0-9a-fA-F]+(\.[0-9a-fA-F]+)?'
HEX_FRAC = br'0[xX]\.[0-9a-fA-F]+'
BIN = br'0[bB][01]+(\.[01]+)?'
BIN_FRAC = br'0[bB]\.[01]+'

# numeral followed by one of these: malformed number => reference undefined
MALFORMED_AFTER_NUMBER = (
    b'abcdefghijklmnopqrstuvwxyzABCDEFGHIJKLMNOPQRSTUVWXYZ0123456789_.' +
    bytes(range(0x80, 0x100)))

# (kind, pattern, flags-or-None)   -- ordinary maximal-munch rows, in tie order
PLAIN_ROWS = (
    [('comment', br'--[^\n]*'), ('comment', br'//[^\n]*'),
     ('space', br'[ \t]+'),
     ('newline', br'\r\n'), ('newline', br'\n'), ('newline', br'\r'),
     ('number', HEX), ('number', HEX_FRAC), ('number', BIN),
     ('number', BIN_FRAC), ('number', DEC), ('number', DEC_FRAC),
     ('label', br'::' + NAME_START + NAME_CHAR + br'*::')] +
    [('keyword', kw + NOT_NAME_AHEAD) for kw in KEYWORDS] +
    [('symbol', None, s) for s in SYMBOLS] +
    [('name', NAME_START + NAME_CHAR + br'*'), ('name', br'\?')])

# commit rows: (kind, opener literal, closer literal) and quoted strings
BLOCK_COMMENT = (b'--[[', b']]')
LONG_STRING_LEVELS = (0, 1, 2)      # [[ ]], [=[ ]=], [==[ ]==]
QUOTES = (b'"', b"'")

# kinds whose spelling class is a single fixed string (symbols, keywords)
FIXED_KINDS = ('symbol', 'keyword')
