"""Reserved-name reference for C02 (R-C02-reserved).

Frozen minimum: the PICO-8 API / callback names picotool preserved at the
pinned commit (lua.PICO8_BUILTINS, 125 entries, taken from the PICO-8 manual
sections the source itself cites).  A deletion from the implementation's set
is a violation (that global would be renamed by luamin); additions are fine.
"""

PICO8_API_MINIMUM = frozenset([
    b'?', b'__index', b'_draw', b'_init', b'_update', b'_update60',
    b'_update_buttons', b'abs', b'add', b'all', b'assert', b'atan2', b'band',
    b'bnot', b'bor', b'btn', b'btnp', b'bxor', b'camera', b'cartdata',
    b'ceil', b'chr', b'circ', b'circfill', b'clip', b'cls', b'cocreate',
    b'color', b'coresume', b'cos', b'costatus', b'count', b'cstore',
    b'cursor', b'del', b'deli', b'dget', b'dir', b'dset', b'extcmd', b'fget',
    b'fillp', b'flip', b'flr', b'folder', b'foreach', b'fset',
    b'getmetatable', b'info', b'line', b'load', b'ls', b'lshr', b'map',
    b'mapdraw', b'max', b'memcpy', b'memset', b'menuitem', b'mget', b'mid',
    b'min', b'mset', b'music', b'ord', b'oval', b'ovalfill', b'pairs',
    b'pal', b'palt', b'peek', b'peek2', b'peek4', b'pget', b'poke', b'poke2',
    b'poke4', b'print', b'printh', b'pset', b'rawequal', b'rawget',
    b'rawlen', b'rawset', b'reboot', b'rect', b'rectfill', b'reload',
    b'resume', b'rnd', b'rotl', b'rotr', b'run', b'save', b'self', b'serial',
    b'setmetatable', b'sfx', b'sget', b'sgn', b'shl', b'shr', b'sin',
    b'split', b'spr', b'sqrt', b'srand', b'sset', b'sspr', b'stat', b'stop',
    b'sub', b't', b'time', b'tline', b'tonum', b'tostr', b'type', b'yield',
    b'\x83', b'\x8b', b'\x8e', b'\x91', b'\x94', b'\x97',
])

CALLBACKS = frozenset([b'_init', b'_update', b'_update60', b'_draw'])

LUA_KEYWORDS = frozenset([
    b'and', b'break', b'do', b'else', b'elseif', b'end', b'false', b'for',
    b'function', b'goto', b'if', b'in', b'local', b'nil', b'not', b'or',
    b'repeat', b'return', b'then', b'true', b'until', b'while'])
