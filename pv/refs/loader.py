"""Reference text of the Lua loader `p8tool build` puts in front of a cart that
uses require(): the package table, and the require function that runs a
package body at most once and caches what it returned (or `true`).  Written
from the README's description of require(); compared with the text
`_prepend_package_lua` assembles.  A loader spelled differently is reported as
"not decided", never as a violation (its meaning is Lua semantics, outside this
analysis)."""

PACKAGE_TABLE = b'package={loaded={},_c={}}\n'

REQUIRE_FUNCTION = (
    b'function require(p)\n'
    b'local l=package.loaded\n'
    b'if (l[p]==nil) l[p]=package._c[p]()\n'
    b'if (l[p]==nil) l[p]=true\n'
    b'return l[p]\n'
    b'end\n')
