"""Reference grammar of the dialect picotool supports (DESIGN.md Appendix B).

Sources: Lua 5.2 reference manual section 9 (complete syntax) plus the PICO-8
manual's syntax extensions picotool supports: compound assignment, short
`if (c) stmts [else stmts]` terminated by a line end, `?` print statement,
`!=`, PICO-8 unary `@ % $ ~` and binary `& | ^^ << >> >>> <<> >>< \\`.

Terminals: literal spellings (bytes) and the classes NAME, NUMBER, STRING,
LABEL (picotool lexes `::name::` as one token), NL (line end; only written
where it is significant).  Non-terminals are str.
"""

NAME, NUMBER, STRING, LABEL, NL = 'Name', 'Number', 'String', 'Label', 'NL'
CLASSES = (NAME, NUMBER, STRING, LABEL, NL)

BINOPS = [b'+', b'-', b'*', b'/', b'%', b'^', b'..', b'<', b'<=', b'>', b'>=',
          b'==', b'~=', b'!=', b'and', b'or', b'&', b'|', b'^^', b'<<', b'>>',
          b'>>>', b'<<>', b'>><', b'\\']
UNOPS = [b'-', b'not', b'#', b'~', b'@', b'%', b'$']
KEYWORD_OPERATORS = {b'and', b'or', b'not'}
ASSIGNOPS = [b'=', b'+=', b'-=', b'*=', b'/=', b'%=', b'..=']
STATEMENT_KEYWORDS = [b'do', b'while', b'repeat', b'if', b'for', b'function',
                      b'local', b'goto', b'break', b'return']

KEYWORDS = [b'and', b'break', b'do', b'else', b'elseif', b'end', b'false',
            b'for', b'function', b'goto', b'if', b'in', b'local', b'nil',
            b'not', b'or', b'repeat', b'return', b'then', b'true', b'until',
            b'while']

# plain BNF; optional / repeated parts are spelled out with helper
# non-terminals (suffix _opt, _rep).
GRAMMAR = {
    'chunk': [['stats', 'laststat_opt']],
    'stats': [[], ['stat', 'semi_opt', 'stats']],
    'semi_opt': [[], [b';'], [b';', 'semi_opt']],
    'laststat_opt': [[], ['laststat', 'semi_opt']],
    'stat': [
        ['varlist', 'assignop', 'explist'],
        ['functioncall'],
        [b'do', 'chunk', b'end'],
        [b'while', 'exp', b'do', 'chunk', b'end'],
        [b'repeat', 'chunk', b'until', 'exp'],
        [b'if', 'exp', 'then_or_do', 'chunk', 'elseifs', 'else_opt', b'end'],
        [b'if', b'(', 'exp', b')', 'chunk', 'shortelse_opt', NL],
        [b'for', NAME, b'=', 'exp', b',', 'exp', 'step_opt', b'do', 'chunk',
         b'end'],
        [b'for', 'namelist', b'in', 'explist', b'do', 'chunk', b'end'],
        [b'function', 'funcname', 'funcbody'],
        [b'local', b'function', NAME, 'funcbody'],
        [b'local', 'namelist'],
        [b'local', 'namelist', b'=', 'explist'],
        [b'goto', NAME],
        [LABEL],
        [b'?', 'explist', NL],
    ],
    'then_or_do': [[b'then'], [b'do']],
    'elseifs': [[], [b'elseif', 'exp', b'then', 'chunk', 'elseifs']],
    'else_opt': [[], [b'else', 'chunk']],
    'shortelse_opt': [[], [b'else', 'chunk']],
    'step_opt': [[], [b',', 'exp']],
    'laststat': [[b'return'], [b'return', 'explist'], [b'break']],
    'assignop': [[op] for op in ASSIGNOPS],
    'funcname': [[NAME, 'dotnames', 'method_opt']],
    'dotnames': [[], [b'.', NAME, 'dotnames']],
    'method_opt': [[], [b':', NAME]],
    'varlist': [['var'], ['var', b',', 'varlist']],
    'var': [[NAME], ['prefixexp', b'[', 'exp', b']'],
            ['prefixexp', b'.', NAME]],
    'namelist': [[NAME], [NAME, b',', 'namelist']],
    'explist': [['exp'], ['exp', b',', 'explist']],
    'exp': [[b'nil'], [b'false'], [b'true'], [NUMBER], [STRING], [b'...'],
            ['function'], ['prefixexp'], ['tableconstructor'],
            ['exp', 'binop', 'exp'], ['unop', 'exp']],
    'prefixexp': [['var'], ['functioncall'], [b'(', 'exp', b')']],
    'functioncall': [['prefixexp', 'args'],
                     ['prefixexp', b':', NAME, 'args']],
    'args': [[b'(', b')'], [b'(', 'explist', b')'], ['tableconstructor'],
             [STRING]],
    'function': [[b'function', 'funcbody']],
    'funcbody': [[b'(', 'parlist_opt', b')', 'chunk', b'end']],
    'parlist_opt': [[], ['namelist'], ['namelist', b',', b'...'], [b'...']],
    'tableconstructor': [[b'{', b'}'], [b'{', 'fieldlist', b'}']],
    'fieldlist': [['field'], ['field', 'fieldsep'],
                  ['field', 'fieldsep', 'fieldlist']],
    'fieldsep': [[b','], [b';']],
    'field': [[b'[', 'exp', b']', b'=', 'exp'], [NAME, b'=', 'exp'], ['exp']],
    'binop': [[op] for op in BINOPS],
    'unop': [[op] for op in UNOPS],
}
START = 'chunk'
