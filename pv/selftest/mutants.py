"""Self-test corpus: textual edits on a scratch copy of /repo/pico8.

Each entry: id, prop, file, old, new (old must occur exactly once), expect =
substring that must appear in the violation line (rule id), kind = 'mutant'
(default) or 'neutral' (behaviour-preserving: the check must stay silent).
`edits` = [(file, old, new), ...] for multi-site edits.
"""

CORPUS = []


def M(id, prop, file, old, new, expect=None, kind='mutant', note='',
      accept_error=False, on=None):
    """on=<seeded refactoring id>: the edit is applied on top of that
    refactoring's patch (checks must follow refactored code well enough to
    still see the breakage)"""
    CORPUS.append(dict(id=id, prop=prop, file=file, old=old, new=new,
                       expect=expect, kind=kind, note=note,
                       accept_error=accept_error, on=on))


def MM(id, prop, edits, expect=None, kind='mutant', note=''):
    CORPUS.append(dict(id=id, prop=prop, edits=edits, expect=expect,
                       kind=kind, note=note))


F_FILE = 'pico8/game/file.py'
F_P8 = 'pico8/game/formatter/p8.py'
F_PNG = 'pico8/game/formatter/p8png.py'
F_TOOL = 'pico8/tool.py'
F_BUILD = 'pico8/build/build.py'
F_LUA = 'pico8/lua/lua.py'
F_LEXER = 'pico8/lua/lexer.py'
F_PARSER = 'pico8/lua/parser.py'
F_GAME = 'pico8/game/game.py'
F_COMPRESS = 'pico8/game/compress.py'
F_GFX = 'pico8/gfx/gfx.py'
F_GFF = 'pico8/gff/gff.py'
F_MAP = 'pico8/map/map.py'
F_SFX = 'pico8/sfx/sfx.py'
F_MUSIC = 'pico8/music/music.py'
F_UTIL = 'pico8/util.py'

# ---------------------------------------------------------------- C11 ----
M('C11-direct-outstr', 'C11', F_FILE,
  "        fmt.to_file(game, outfh, filename=filename, *args, **kwargs)\n"
  "        outfh.seek(0)\n"
  "        with open(filename, **file_args) as finalfh:\n"
  "            finalfh.write(outfh.read())\n",
  "        with open(filename, 'wb') as finalfh:\n"
  "            fmt.to_file(game, finalfh, filename=filename, *args, **kwargs)\n",
  expect='R-C11-order')
M('C11-open-before-encode', 'C11', F_FILE,
  "        fmt.to_file(game, outfh, filename=filename, *args, **kwargs)\n"
  "        outfh.seek(0)\n"
  "        with open(filename, **file_args) as finalfh:\n",
  "        with open(filename, **file_args) as finalfh:\n"
  "            fmt.to_file(game, outfh, filename=filename, *args, **kwargs)\n"
  "            outfh.seek(0)\n",
  expect='R-C11-order')
M('C11-swallow-encoder-error', 'C11', F_FILE,
  "        fmt.to_file(game, outfh, filename=filename, *args, **kwargs)\n",
  "        try:\n"
  "            fmt.to_file(game, outfh, filename=filename, *args, **kwargs)\n"
  "        except Exception:\n"
  "            pass\n",
  expect='R-C11-order')
M('C11-formatter-opens-dest', 'C11', F_P8,
  "        outstr.write(HEADER_TITLE_STR)\n",
  "        outstr.write(HEADER_TITLE_STR)\n"
  "        if filename is not None:\n"
  "            open(filename, 'wb').write(HEADER_TITLE_STR)\n",
  expect='R-C11-owner')
M('C11-writep8-bypass', 'C11', F_TOOL,
  "    file.to_file(g, filename=out_fname)\n",
  "    with open(out_fname, 'wb') as fh:\n"
  "        file.formatter_for_filename(out_fname).to_file(g, fh, filename=out_fname)\n",
  expect='R-C11-')
M('C11-remove-on-failure', 'C11', F_FILE,
  "        fmt.to_file(game, outfh, filename=filename, *args, **kwargs)\n",
  "        try:\n"
  "            fmt.to_file(game, outfh, filename=filename, *args, **kwargs)\n"
  "        except Exception:\n"
  "            if os.path.exists(filename):\n"
  "                os.remove(filename)\n"
  "            raise\n",
  expect='R-C11-owner')
M('C11-label-open-rw', 'C11', F_PNG,
  "            with open(label_fname, 'rb') as label_fh:\n",
  "            with open(label_fname, 'rb+') as label_fh:\n",
  expect='R-C11-owner')
M('C11-sanity-after-write', 'C11', F_P8,
  "        outstr.write(bytes('version %s\\n' % game.version, 'utf-8'))\n",
  "        outstr.write(bytes('version %s\\n' % game.version, 'utf-8'))\n"
  "        if lua_writer_cls is None:\n"
  "            outstr.write(b'__lua__\\n')\n"
  "            for line in game.lua.to_lines():\n"
  "                outstr.write(bytes(lua.p8scii_to_unicode(line), 'utf-8'))\n"
  "            return\n",
  expect='R-C11-sanity', note='a fast path that skips the sanity re-parse')
M('C11-n-bytesio', 'C11', F_FILE,
  "    with tempfile.TemporaryFile(**file_args) as outfh:\n",
  "    import io\n    with io.BytesIO() as outfh:\n",
  kind='neutral')
M('C11-n-rename-local', 'C11', F_FILE,
  "        with open(filename, **file_args) as finalfh:\n"
  "            finalfh.write(outfh.read())\n",
  "        with open(filename, **file_args) as dest:\n"
  "            dest.write(outfh.read())\n",
  kind='neutral')

# ---------------------------------------------------------------- C12 ----
M('C12-drop-containment', 'C12', F_P8,
  "        if not inc_full_path.startswith(\n"
  "                root_path.rstrip(os.path.sep) + os.path.sep):\n"
  "            raise P8IncludeOutsideOfAllowedDirectory()\n",
  "", expect='R-C12-taint')
M('C12-revert-fix16-include', 'C12', F_P8,
  "        if not inc_full_path.startswith(\n"
  "                root_path.rstrip(os.path.sep) + os.path.sep):\n",
  "        if not inc_full_path.startswith(root_path):\n",
  expect='R-C12-component')
M('C12-revert-fix16-root', 'C12', F_P8,
  "        if full_file_path.startswith(full_candidate_path + os.path.sep):\n",
  "        if full_file_path.startswith(full_candidate_path):\n",
  expect='R-C12-component')
M('C12-open-raw-path', 'C12', F_P8,
  "            with open(inc_full_path, 'rb') as fh:\n                for line in fh:\n",
  "            with open(os.path.join(os.path.dirname(filename), inc_path + inc_extension), 'rb') as fh:\n                for line in fh:\n",
  expect='R-C12-taint')
M('C12-test-before-normalise', 'C12', F_P8,
  "        inc_full_path = os.path.abspath(\n"
  "            os.path.normpath(\n"
  "                os.path.join(\n"
  "                    os.path.dirname(filename), inc_path + inc_extension)))\n",
  "        inc_full_path = os.path.join(\n"
  "                    os.path.dirname(filename), inc_path + inc_extension)\n",
  expect='R-C12-norm')
M('C12-probe-raw', 'C12', F_P8,
  "        inc_tab = None\n        if inc_tab_b:\n",
  "        inc_tab = None\n"
  "        if not os.path.exists(os.path.join(os.path.dirname(filename), inc_path + inc_extension)):\n"
  "            raise P8IncludeNotFound()\n"
  "        if inc_tab_b:\n",
  expect='R-C12-taint')
M('C12-raise-to-warning', 'C12', F_P8,
  "            raise P8IncludeOutsideOfAllowedDirectory()\n",
  "            util.error('include outside of allowed directory\\n')\n",
  expect='R-C12-taint')
M('C12-require-filter-after-locate', 'C12', F_BUILD,
  "        # Disallow chars that select files outside of the load path.\n"
  "        if (b'./' in require_path or require_path.startswith(b'/') or\n"
  "                require_path == b'..' or require_path.endswith(b'/..')):\n"
  "            raise LuaBuildError(\n"
  "                'require() filename cannot contain \"./\" or \"../\" or start '\n"
  "                'with \"/\"', require_token)\n"
  "\n"
  "        if require_path not in package_lua:\n",
  "        if require_path not in package_lua:\n",
  expect='R-C12-taint')
M('C12-require-filter-no-abs', 'C12', F_BUILD,
  "        if (b'./' in require_path or require_path.startswith(b'/') or\n",
  "        if (b'./' in require_path or\n",
  expect='R-C12-taint')
M('C12-revert-fix27-dotdot', 'C12', F_BUILD,
  "        if (b'./' in require_path or require_path.startswith(b'/') or\n"
  "                require_path == b'..' or require_path.endswith(b'/..')):\n",
  "        if b'./' in require_path or require_path.startswith(b'/'):\n",
  expect='R-C12-taint', note='require("..") with the template ?/init.lua')
M('C12-dotdot-only-whole', 'C12', F_BUILD,
  "                require_path == b'..' or require_path.endswith(b'/..')):\n",
  "                require_path == b'..'):\n",
  expect='R-C12-taint', note='require("sub/..")')
M('C12-locate-join-cwd', 'C12', F_BUILD,
  "            candidate = os.path.join(rel_path_base, candidate)\n",
  "            candidate = os.path.join(os.getcwd(), candidate)\n",
  expect='R-C12-locate')
M('C12-n-commonpath', 'C12', F_P8,
  "        if not inc_full_path.startswith(\n"
  "                root_path.rstrip(os.path.sep) + os.path.sep):\n",
  "        if os.path.commonpath([root_path, inc_full_path]) != root_path:\n",
  kind='neutral')
M('C12-n-isabs', 'C12', F_BUILD,
  "        if (b'./' in require_path or require_path.startswith(b'/') or\n",
  "        if (b'./' in require_path or os.path.isabs(require_path_str) or\n",
  kind='neutral')
M('C12-n-components', 'C12', F_BUILD,
  "                require_path == b'..' or require_path.endswith(b'/..')):\n",
  "                require_path in (b'.', b'..') or\n"
  "                require_path.endswith((b'/..', b'/.'))):\n",
  kind='neutral', note='single-dot last component rejected as well')

# ---------------------------------------------------------------- C13 ----
M('C13-always-gfx', 'C13', F_BUILD,
  "                setattr(result, section, getattr(source, section))\n",
  "                setattr(result, section, getattr(source, 'gfx'))\n",
  expect='R-C13-select')
M('C13-empty-from-result', 'C13', F_BUILD,
  "            setattr(result, section, getattr(empty_source, section))\n",
  "            setattr(result, section, getattr(result, section))\n",
  expect='R-C13-select')
M('C13-swap-branches', 'C13', F_BUILD,
  "        elif getattr(args, 'empty_' + section, False):\n"
  "            setattr(result, section, getattr(empty_source, section))\n",
  "        else:\n"
  "            setattr(result, section, getattr(empty_source, section))\n",
  expect='R-C13-select')
M('C13-drop-conflict-test', 'C13', F_BUILD,
  "            if getattr(args, 'empty_' + section, False):\n"
  "                util.error('Cannot specify --%s and --empty-%s args '\n"
  "                           'together.' % (section, section))\n"
  "                return 1\n",
  "", expect='R-C13-fail')
M('C13-write-in-loop', 'C13', F_BUILD,
  "                source = file.from_file(fn)\n"
  "                setattr(result, section, getattr(source, section))\n",
  "                source = file.from_file(fn)\n"
  "                setattr(result, section, getattr(source, section))\n"
  "                file.to_file(result, filename=args.filename)\n",
  expect='R-C13-fail')
M('C13-missing-empty-sfx', 'C13', F_TOOL,
  "    sp_build.add_argument(\n"
  "        '--empty-sfx', action='store_true',\n"
  "        help='use an empty sfx region (overrides default)')\n",
  "", expect='R-C13-sections')
M('C13-loop-misses-music', 'C13', F_BUILD,
  "    for section in ('lua', 'gfx', 'gff', 'map', 'sfx', 'music'):\n",
  "    for section in ('lua', 'gfx', 'gff', 'map', 'sfx'):\n",
  expect='R-C13-sections')
M('C13-result-always-empty', 'C13', F_BUILD,
  "    if os.path.exists(args.filename):\n"
  "        result = file.from_file(args.filename)\n"
  "    else:\n"
  "        result = game.Game.make_empty_game(filename=args.filename)\n",
  "    result = game.Game.make_empty_game(filename=args.filename)\n",
  expect='R-C13-select')
M('C13-source-loaded-from-out', 'C13', F_BUILD,
  "                source = file.from_file(fn)\n",
  "                source = file.from_file(args.filename)\n",
  expect='R-C13-select')
M('C13-error-after-write', 'C13', F_BUILD,
  "        lua_writer_args=lua_writer_args)\n\n    return 0\n",
  "        lua_writer_args=lua_writer_args)\n"
  "    if getattr(args, 'optimize_tokens', False):\n"
  "        return 1\n\n    return 0\n",
  expect='R-C13-fail')
M('C13-missing-is-warning', 'C13', F_BUILD,
  "                util.error('File \"%s\" given for --%s arg does not exist.' %\n"
  "                           (fn, section))\n"
  "                return 1\n",
  "                util.error('File \"%s\" given for --%s arg does not exist.' %\n"
  "                           (fn, section))\n"
  "                continue\n",
  expect='R-C13-fail')
M('C13-n-hoist-getattr', 'C13', F_BUILD,
  "        elif getattr(args, 'empty_' + section, False):\n"
  "            setattr(result, section, getattr(empty_source, section))\n",
  "        elif getattr(args, 'empty_' + section, False):\n"
  "            empty_val = getattr(empty_source, section)\n"
  "            setattr(result, section, empty_val)\n",
  kind='neutral')
M('C13-n-list-sections', 'C13', F_BUILD,
  "    for section in ('lua', 'gfx', 'gff', 'map', 'sfx', 'music'):\n",
  "    for section in ['music', 'lua', 'gfx', 'gff', 'map', 'sfx']:\n",
  kind='neutral')

# ---------------------------------------------------------------- C15 ----
M('C15-dup-glyph', 'C15', F_LUA,
  "    P8Char(135, '♥', 'Heart'),",
  "    P8Char(135, '●', 'Heart'),", expect='R-C15-table')
M('C15-prefix-glyph', 'C15', F_LUA,
  "    P8Char(16, '▮', 'Vertical rectangle'),",
  "    P8Char(16, '⬇', 'Vertical rectangle'),", expect='R-C15-table')
M('C15-range-off-by-one', 'C15', F_LUA,
  "P8Char(x, chr(x), chr(x)) for x in range(33, 127)",
  "P8Char(x, chr(x), chr(x)) for x in range(33, 126)", expect='R-C15-table')
M('C15-advance-one', 'C15', F_LUA,
  "        idx += char_width\n", "        idx += 1\n",
  expect='R-C15-converters')
M('C15-decoder-filters', 'C15', F_LUA,
  "    return ''.join(P8SCII_CHARSET[b].p8string for b in bs)\n",
  "    return ''.join(P8SCII_CHARSET[b].p8string for b in bs if b != 0)\n",
  expect='R-C15-converters')
M('C15-writer-latin1', 'C15', F_P8,
  "            outstr.write(bytes(lua.p8scii_to_unicode(line), 'utf-8'))\n",
  "            outstr.write(bytes(lua.p8scii_to_unicode(line), 'latin-1'))\n",
  expect='R-C15-use')
M('C15-n-rename', 'C15', F_LUA,
  "        char_width = UNICODE_CHAR_WIDTHS[s[idx]]\n"
  "        result.append(UNICODE_TO_P8SCII[s[idx:idx+char_width]])\n"
  "        idx += char_width\n",
  "        w = UNICODE_CHAR_WIDTHS[s[idx]]\n"
  "        result.append(UNICODE_TO_P8SCII[s[idx:idx + w]])\n"
  "        idx += w\n", kind='neutral')

# ---------------------------------------------------------------- C07 ----
M('C07-shr-before-lshr', 'C07', F_LEXER,
  "b'~', b'<<>', b'>>>', b'>><', b'<<', b'>>',",
  "b'~', b'<<>', b'>>', b'>>>', b'>><', b'<<',", expect='R-C07-table')
M('C07-dot-before-dotdot', 'C07', F_LEXER,
  "        br'\\.\\.\\.', br'\\.\\.', br'\\.']])",
  "        br'\\.\\.\\.', br'\\.', br'\\.\\.']])", expect='R-C07-table')
M('C07-names-before-keywords', 'C07', F_LEXER,
  "_TOKEN_MATCHERS.extend([\n    (re.compile(keyword+",
  "_TOKEN_MATCHERS.extend([\n"
  "    (re.compile(br'[a-zA-Z_\\x80-\\xff][a-zA-Z0-9_\\x80-\\xff]*'), TokName)])\n"
  "_TOKEN_MATCHERS.extend([\n    (re.compile(keyword+", expect='R-C07-table')
M('C07-revert-fix07-exponent', 'C07', F_LEXER,
  "(re.compile(br'[0-9]+(\\.(?!\\.)[0-9]*)?([eE][+-]?[0-9]+)?'), TokNumber),",
  "(re.compile(br'[0-9]+(\\.(?!\\.)[0-9]*)?([eE]-?[0-9]+)?'), TokNumber),",
  expect='R-C07-table')
M('C07-revert-fix08-keyword-boundary', 'C07', F_LEXER,
  "    (re.compile(keyword+br'(?![a-zA-Z0-9_\\x80-\\xff])'), TokKeyword)",
  "    (re.compile(br'\\b'+keyword+br'\\b'), TokKeyword)", expect='R-C07-table')
M('C07-revert-fix09-lower', 'C07', F_LEXER,
  "        data = self._data.lower()\n", "        data = self._data\n",
  expect='R-C07-value')
M('C07-revert-fix24-empty-int', 'C07', F_LEXER,
  "                integer, frac = data[2:].split(b'.')\n"
  "                return (\n"
  "                    float(int(integer or b'0', 16)) +",
  "                integer, frac = data.split(b'.')\n"
  "                return (\n"
  "                    float(int(integer, 16)) +", expect='R-C07-value')
M('C07-drop-keyword', 'C07', F_LEXER,
  "b'repeat', b'return', b'then',", "b'repeat', b'then',",
  expect='R-C07-table')
M('C07-name-class-narrow', 'C07', F_LEXER,
  "    (re.compile(br'[a-zA-Z_\\x80-\\xff][a-zA-Z0-9_\\x80-\\xff]*'), TokName),",
  "    (re.compile(br'[a-zA-Z_\\x80-\\xff][a-zA-Z0-9_\\x80-\\xfe]*'), TokName),",
  expect='R-C07-table')
M('C07-missing-symbol', 'C07', F_LEXER,
  "        b'@', br'\\$',", "        b'@',", expect='R-C07-table')
M('C07-no-break-first-match', 'C07', F_LEXER,
  "                    i = len(m.group(0))\n                    break\n",
  "                    i = len(m.group(0))\n", expect='R-C07-table')
M('C07-block-comment-skip', 'C07', F_LEXER,
  "                i = s.index(b']]') + 2\n", "                i = s.index(b']]') + 1\n",
  expect='R-C07-multiline')
M('C07-string-state-not-reset', 'C07', F_LEXER,
  "                    self._in_string_charno = None\n"
  "                    self._in_string = None\n                    i += 1\n",
  "                    self._in_string_charno = None\n                    i += 1\n",
  expect='R-C07-multiline')
M('C07-unterminated-comment-ok', 'C07', F_LEXER,
  "        if self._in_multiline_comment is not None:\n"
  "            # TODO: Allow unterminated multiline comments to just be comments.\n"
  "            raise LexerError('Unterminated multiline comment',\n"
  "                             self._in_multiline_comment_lineno,\n"
  "                             self._in_multiline_comment_charno)\n",
  "", expect='R-C07-multiline')
M('C07-comment-spans-newline', 'C07', F_LEXER,
  "    (re.compile(br'//.*'), TokComment),",
  "    (re.compile(br'//(.|\\n)*'), TokComment),", expect='R-C07-')
M('C07-charno-double', 'C07', F_LEXER,
  "            else:\n                self._cur_charno += 1\n        return i\n",
  "            else:\n                self._cur_charno += 2\n        return i\n",
  expect='R-C07-pos')
M('C07-none-class-row', 'C07', F_LEXER,
  "    (re.compile(br'\\r'), TokNewline),",
  "    (re.compile(br'\\r'), TokNewline),\n    (re.compile(br'\\x0c'), None),",
  expect='R-C07-rows')
M('C07-n-swap-independent-symbols', 'C07', F_LEXER,
  "        b'&', br'\\|', br'\\^\\^',", "        br'\\|', b'&', br'\\^\\^',",
  kind='neutral')
M('C07-n-split-decimal-row', 'C07', F_LEXER,
  "(re.compile(br'[0-9]+(\\.(?!\\.)[0-9]*)?([eE][+-]?[0-9]+)?'), TokNumber),",
  "(re.compile(br'[0-9]+\\.(?!\\.)[0-9]*([eE][+-]?[0-9]+)?'), TokNumber),\n"
  "    (re.compile(br'[0-9]+([eE][+-]?[0-9]+)?'), TokNumber),",
  kind='neutral')

# ---------------------------------------------------------------- C02 ----
M('C02-revert-fix02-fresh', 'C02', F_LUA,
  "                if (new_name not in MinifyNameFactory.PRESERVED_NAMES and\n"
  "                        (self._names_to_keep is None or\n"
  "                         new_name not in self._names_to_keep)):\n",
  "                if new_name not in MinifyNameFactory.PRESERVED_NAMES:\n",
  expect='R-C02-fresh')
M('C02-drop-preserved-filter', 'C02', F_LUA,
  "                if (new_name not in MinifyNameFactory.PRESERVED_NAMES and\n"
  "                        (self._names_to_keep is None or\n"
  "                         new_name not in self._names_to_keep)):\n",
  "                if (self._names_to_keep is None or\n"
  "                         new_name not in self._names_to_keep):\n",
  expect='R-C02-fresh')
M('C02-counter-after-break', 'C02', F_LUA,
  "                new_name = self._name_for_id(self._next_name_id)\n"
  "                self._next_name_id += 1\n"
  "                if (new_name not in MinifyNameFactory.PRESERVED_NAMES and\n"
  "                        (self._names_to_keep is None or\n"
  "                         new_name not in self._names_to_keep)):\n"
  "                    break\n",
  "                new_name = self._name_for_id(self._next_name_id)\n"
  "                if (new_name not in MinifyNameFactory.PRESERVED_NAMES and\n"
  "                        (self._names_to_keep is None or\n"
  "                         new_name not in self._names_to_keep)):\n"
  "                    break\n"
  "                self._next_name_id += 1\n",
  expect='R-C02-counter')
M('C02-radix-mismatch', 'C02', F_LUA,
  "                    id % len(MinifyNameFactory.NAME_CHARS)]",
  "                    id % 25]", expect='R-C02-enum')
M('C02-names-file-text-mode', 'C02', F_LUA,
  "        with open(fname, 'rb') as fh:\n            for line in fh:\n                line = line.strip()",
  "        with open(fname, 'r') as fh:\n            for line in fh:\n                line = line.strip()",
  expect='R-C02-reserved')
M('C02-drop-builtin', 'C02', F_LUA,
  "    b'btn', b'btnp',\n", "    b'btn',\n", expect='R-C02-reserved')
M('C02-overwrite-mapping', 'C02', F_LUA,
  "        if name not in self._name_map:\n            new_name = None\n",
  "        if name not in self._name_map or len(self._name_map) > 500:\n            new_name = None\n",
  expect='R-C02-writeonce')
M('C02-label-own-factory', 'C02', F_LUA,
  "                    self._name_factory.get_short_name(token.code[2:-2]) +",
  "                    MinifyNameFactory().get_short_name(token.code[2:-2]) +",
  expect='R-C02-factory')
M('C02-uppercase-alphabet', 'C02', F_LUA,
  "    NAME_CHARS = b'abcdefghijklmnopqrstuvwxyz'",
  "    NAME_CHARS = b'abcdefghijklmnopqrstuvwxyz0'", expect='R-C02-enum')
M('C02-keep-arg-typo', 'C02', F_TOOL,
  "            'keep_names_from_file': args.keep_names_from_file})\n\n\ndef luafmt",
  "            'keep_names_file': args.keep_names_from_file})\n\n\ndef luafmt",
  expect='R-C01-wiring')
M('C02-clear-map', 'C02', F_LUA,
  "        if self._keep_all_names:\n            return name\n",
  "        if self._keep_all_names:\n            return name\n"
  "        if len(self._name_map) > 4096:\n            self._name_map.clear()\n",
  expect='R-C02-writeonce')
M('C02-n-keep-test-as-continue', 'C02', F_LUA,
  "                if (new_name not in MinifyNameFactory.PRESERVED_NAMES and\n"
  "                        (self._names_to_keep is None or\n"
  "                         new_name not in self._names_to_keep)):\n"
  "                    break\n",
  "                if (new_name != b'' and\n"
  "                        (self._names_to_keep is None or\n"
  "                         new_name not in self._names_to_keep) and\n"
  "                        new_name not in MinifyNameFactory.PRESERVED_NAMES):\n"
  "                    break\n", kind='neutral', note='extra conjunct')

# ---------------------------------------------------------------- C14 ----
M('C14-store-after-recursion', 'C14', F_BUILD,
  "            package_lua[require_path] = reqd_lua\n"
  "            _evaluate_require(reqd_lua, reqd_filepath,\n"
  "                              package_lua, lua_path=lua_path)\n",
  "            _evaluate_require(reqd_lua, reqd_filepath,\n"
  "                              package_lua, lua_path=lua_path)\n"
  "            package_lua[require_path] = reqd_lua\n", expect='R-C14-once')
M('C14-no-membership-guard', 'C14', F_BUILD,
  "        if require_path not in package_lua:\n            reqd_filepath",
  "        if True:\n            reqd_filepath", expect='R-C14-once')
M('C14-revert-fix19-visitor', 'C14', F_BUILD,
  "        else:\n"
  "            # Not a require() call itself, but it may contain some.\n"
  "            for t in lua._default_node_handler(self, node):\n"
  "                yield t\n", "", expect='R-C14-visitor')
M('C14-revert-fix18-splice', 'C14', F_BUILD,
  "        if not package_header[-1].endswith(b'\\n'):\n"
  "            package_header.append(b'\\n')\n", "", expect='R-C14-splice')
M('C14-sync-reparse-after-edit', 'C14', F_BUILD,
  "            package_lua[require_path] = reqd_lua\n",
  "            reqd_lua.root.stats[:] = [s for s in reqd_lua.root.stats\n"
  "                                      if not isinstance(s, parser.StatReturn)]\n"
  "            reqd_lua.reparse(writer_cls=lua.LuaASTEchoWriter)\n"
  "            package_lua[require_path] = reqd_lua\n", expect='R-C14-sync')
M('C14-strip-draw-only', 'C14', F_BUILD,
  "GAME_LOOP_FUNCTION_NAMES = (b'_init', b'_update', b'_update60', b'_draw')",
  "GAME_LOOP_FUNCTION_NAMES = (b'_init', b'_update', b'_draw')",
  expect='R-C14-strip')
M('C14-strip-range-off-by-one', 'C14', F_BUILD,
  "                        if not any(s.start_pos <= i < s.end_pos\n",
  "                        if not any(s.start_pos <= i <= s.end_pos\n",
  expect='R-C14-strip')
M('C14-strip-ignores-option', 'C14', F_BUILD,
  "            if not use_game_loop:\n", "            if True:\n",
  expect='R-C14-strip')
M('C14-not-found-is-silent', 'C14', F_BUILD,
  "            if reqd_filepath is None:\n"
  "                raise LuaBuildError(\n"
  "                    'require() file {} not found; used load path {}'.format(require_path_str, lua_path),  # noqa: E501\n"
  "                    require_token)\n",
  "            if reqd_filepath is None:\n                continue\n",
  expect='R-C14-')
M('C14-error-helper-returns', 'C14', F_BUILD,
  "        raise LuaBuildError(msg, self._tokens[node.start_pos])\n",
  "        util.error(msg)\n", expect='R-C14-errors')
M('C14-n-yield-from', 'C14', F_BUILD,
  "            for t in lua._default_node_handler(self, node):\n"
  "                yield t\n",
  "            yield from lua._default_node_handler(self, node)\n",
  kind='neutral')

# ---------------------------------------------------------------- C20 ----
M('C20-tab-off-by-one', 'C20', F_P8,
  "        elif inc_tab is None or inc_tab == cur_tab:\n",
  "        elif inc_tab is None or inc_tab == cur_tab + 1:\n", expect='R-C20-tabs')
M('C20-nested-includes', 'C20', F_P8,
  "                    fh, filename=inc_full_path, do_includes=False)\n",
  "                    fh, filename=inc_full_path, do_includes=True)\n",
  expect='R-C20-kinds')
M('C20-yield-include-line', 'C20', F_P8,
  "        # (Only assert filename if there's an #include.)\n",
  "        yield b'-- ' + line\n", expect='R-C20-identity')
M('C20-swap-formatters', 'C20', F_P8,
  "                P8Formatter if inc_extension == '.p8'\n                else P8PNGFormatter)",
  "                P8PNGFormatter if inc_extension == '.p8'\n                else P8Formatter)",
  expect='R-C20-kinds')
M('C20-revert-fix17-lua', 'C20', F_P8,
  "                for line in fh:\n"
  "                    if not line.endswith(b'\\n'):\n"
  "                        line += b'\\n'\n"
  "                    yield line\n",
  "                for line in fh:\n                    yield line\n",
  expect='R-C14-splice')
M('C20-missing-target-skipped', 'C20', F_P8,
  "        if not os.path.isfile(inc_full_path):\n            raise P8IncludeNotFound()\n",
  "        if not os.path.isfile(inc_full_path):\n            continue\n",
  expect='R-C20-missing')
M('C20-separator-always', 'C20', F_P8,
  "            if inc_tab is None:\n"
  "                # Preserve tab cut lines if we're not actually selecting a tab.\n"
  "                yield line\n",
  "            yield line\n", expect='R-C20-tabs')
M('C20-counter-starts-1', 'C20', F_P8,
  "    cur_tab = 0\n", "    cur_tab = 1\n", expect='R-C20-tabs')
M('C20-tab-ignored-for-png', 'C20', F_P8,
  "                for line in lines_for_tab(inc_game.lua.to_lines(), inc_tab):\n",
  "                for line in lines_for_tab(inc_game.lua.to_lines(), None):\n",
  expect='R-C20-kinds')
M('C20-lua-skips-comments', 'C20', F_P8,
  "                for line in fh:\n"
  "                    if not line.endswith(b'\\n'):\n",
  "                for line in fh:\n"
  "                    if line.startswith(b'--'):\n"
  "                        continue\n"
  "                    if not line.endswith(b'\\n'):\n",
  expect='R-C20-kinds')

# ---------------------------------------------------------------- C08 ----
M('C08-revert-fix12-fence', 'C08', F_PARSER,
  "                finally:\n                    self._max_pos = outer_max_pos\n",
  "                finally:\n                    self._max_pos = None\n",
  expect='R-C08-fence')
M('C08-end-is-start', 'C08', F_PARSER,
  "        return FunctionBody(namelist, dots, block, start=pos, end=self._pos)\n",
  "        return FunctionBody(namelist, dots, block, start=pos, end=pos)\n",
  expect='R-C08-nodes')
M('C08-drop-concat-assign', 'C08', F_PARSER,
  "                         self._accept(lexer.TokSymbol(b'%=')) or\n"
  "                         self._accept(lexer.TokSymbol(b'..=')))\n",
  "                         self._accept(lexer.TokSymbol(b'%=')))\n",
  expect='R-C08-inventory')
M('C08-no-reset-before-call', 'C08', F_PARSER,
  "                return StatAssignment(varlist, assign_op, explist,\n"
  "                                      start=pos, end=self._pos)\n"
  "        self._pos = pos\n",
  "                return StatAssignment(varlist, assign_op, explist,\n"
  "                                      start=pos, end=self._pos)\n",
  expect='R-C08-alternatives')
M('C08-accept-ignores-fence', 'C08', F_PARSER,
  "            cur_tok.matches(tok_pattern) and\n"
  "                (self._max_pos is None or self._pos < self._max_pos)):\n",
  "                cur_tok.matches(tok_pattern)):\n", expect='R-C08-fence')
M('C08-drop-binop', 'C08', F_PARSER,
  "    b'&', b'|', b'^^', b'<<', b'>>', b'>>>', b'<<>', b'>><', b'\\\\',",
  "    b'&', b'|', b'^^', b'<<', b'>>', b'>>>', b'<<>', b'\\\\',",
  expect='R-C08-inventory')
M('C08-field-no-reset', 'C08', F_PARSER,
  "            return FieldNamedKey(key_name, exp, start=pos, end=self._pos)\n"
  "        self._pos = pos\n",
  "            return FieldNamedKey(key_name, exp, start=pos, end=self._pos)\n",
  expect='R-C08-alternatives')
M('C08-n-fence-store-before-try', 'C08', F_PARSER,
  "                outer_max_pos = self._max_pos\n"
  "                try:\n"
  "                    self._max_pos = then_end_pos\n",
  "                outer_max_pos = self._max_pos\n"
  "                self._max_pos = then_end_pos\n"
  "                try:\n", kind='neutral')
M('C08-fence-no-finally', 'C08', F_PARSER,
  "                try:\n"
  "                    self._max_pos = then_end_pos\n"
  "                    block = self._assert(self._chunk(),\n"
  "                                         'valid chunk in short-if')\n"
  "                    else_block = None\n"
  "                    if self._accept(lexer.TokKeyword(b'else')) is not None:\n"
  "                        # PICO-8 accepts an else with nothing after it.\n"
  "                        else_block = self._chunk()\n"
  "                finally:\n"
  "                    self._max_pos = outer_max_pos\n",
  "                if True:\n"
  "                    self._max_pos = then_end_pos\n"
  "                    block = self._assert(self._chunk(),\n"
  "                                         'valid chunk in short-if')\n"
  "                    else_block = None\n"
  "                    if self._accept(lexer.TokKeyword(b'else')) is not None:\n"
  "                        # PICO-8 accepts an else with nothing after it.\n"
  "                        else_block = self._chunk()\n"
  "                    self._max_pos = outer_max_pos\n", expect='R-C08-fence')
M('C08-n-rename-pos', 'C08', F_PARSER,
  "        pos = self._pos\n        if self._accept(lexer.TokKeyword(b'break')) is not None:\n"
  "            return StatBreak(start=pos, end=self._pos)\n",
  "        pos = self._pos\n        if self._accept(lexer.TokKeyword(b'break')) is not None:\n"
  "            endp = self._pos\n"
  "            return StatBreak(start=pos, end=self._pos)\n", kind='neutral')

# ---------------------------------------------------------------- C09 ----
M('C09-revert-fix28-empty-else', 'C09', F_LUA,
  "        else:\n"
  "            # The parser consumes the \"else\" of a short-if whose else block\n"
  "            # is empty without storing a pair for it.\n"
  "            yield self._get_code_for_spaces(node)\n"
  "            if (self._pos < node.end_pos and\n"
  "                    self._tokens[self._pos].matches(lexer.TokKeyword(b'else'))):\n"
  "                yield self._get_text(node, b'else')\n",
  "",
  expect='R-C09-agree', note='if (x) a=1 else<newline>: the else keyword '
  'the parser consumed without storing a pair')
M('C09-empty-else-dropped', 'C09', F_LUA,
  "                    self._tokens[self._pos].matches(lexer.TokKeyword(b'else'))):\n"
  "                yield self._get_text(node, b'else')\n",
  "                    self._tokens[self._pos].matches(lexer.TokKeyword(b'else'))):\n"
  "                self._pos += 1\n",
  expect='R-C09-agree', note='the keyword is skipped but not written')
M('C09-revert-fix13-eow', 'C09', F_LUA,
  "        if (not self._args.get('ignore_tokens') and\n"
  "                self._pos != len(self._tokens)):\n"
  "            # The parser stopped before the end of the code. Writing only the\n"
  "            # parsed part would silently drop the rest.\n"
  "            raise parser.ParserError(\n"
  "                'Unexpected token', token=self._tokens[self._pos])\n",
  "", expect='R-C09-eow')
M('C09-eow-only-debug', 'C09', F_LUA,
  "        if (not self._args.get('ignore_tokens') and\n"
  "                self._pos != len(self._tokens)):\n",
  "        if (not self._args.get('ignore_tokens') and\n"
  "                self._args.get('strict') and\n"
  "                self._pos != len(self._tokens)):\n", expect='R-C09-eow')
M('C09-formatter-overrides-name', 'C09', F_LUA,
  "class LuaFormatterWriter(LuaASTEchoWriter):\n"
  "    \"\"\"Writes the Lua code to use good spacing style.\n    \"\"\"\n"
  "    DEFAULT_INDENT_WIDTH = 2\n",
  "class LuaFormatterWriter(LuaASTEchoWriter):\n"
  "    \"\"\"Writes the Lua code to use good spacing style.\n    \"\"\"\n"
  "    DEFAULT_INDENT_WIDTH = 2\n\n"
  "    def _get_name(self, node, tok):\n"
  "        return super()._get_name(node, tok).lower()\n", expect='R-C09-hooks')
M('C09-regex-eats-nonspace', 'C09', F_LUA,
  "        spaces = re.sub(br' +\\n', b'\\n', spaces)\n\n        # If a comment is on the same line",
  "        spaces = re.sub(br'.\\n', b'\\n', spaces)\n\n        # If a comment is on the same line",
  expect='R-C09-wsregex')
M('C09-regex-drops-newline', 'C09', F_LUA,
  "        spaces = re.sub(br'\\n\\n+', b'\\n\\n', spaces)\n\n        # Remove excess",
  "        spaces = re.sub(br'\\n\\n+', b' ', spaces)\n\n        # Remove excess",
  expect='R-C09-wsregex')
M('C09-comment-intro-rewritten', 'C09', F_LUA,
  "            spaces = re.sub(br'^ *(--|//)', br'  \\1', spaces)\n",
  "            spaces = re.sub(br'^ *(--|//)', b'  --', spaces)\n",
  expect='R-C09-wsregex')
M('C09-delete-handler', 'C09', F_LUA,
  "    def _walk_StatRepeat(self, node):\n"
  "        yield self._get_text(node, b'repeat')\n"
  "        self._indent += 1\n"
  "        for t in self._walk(node.block):\n"
  "            yield t\n"
  "        self._indent -= 1\n"
  "        yield self._get_text(node, b'until')\n"
  "        for t in self._walk(node.exp):\n"
  "            yield t\n\n", "", expect='R-C09-schema')
M('C09-handler-forgets-field', 'C09', F_LUA,
  "        if node.exp_step is not None:\n"
  "            yield self._get_text(node, b',')\n"
  "            for t in self._walk(node.exp_step):\n"
  "                yield t\n", "", expect='R-C09-schema')
M('C09-revert-fix14-do', 'C09', F_LUA,
  "                    spaces = self._get_code_for_spaces(node)\n"
  "                    if self._tokens[self._pos].matches(\n"
  "                            lexer.TokKeyword(b'do')):\n"
  "                        # The parser accepts \"if (cond) do ... end\".\n"
  "                        yield spaces + self._get_text(node, b'do')\n"
  "                    else:\n"
  "                        yield spaces + self._get_text(node, b'then')\n",
  "                    yield self._get_text(node, b'then')\n",
  expect='R-C09-agree')
M('C09-writer-wrong-keyword', 'C09', F_LUA,
  "        yield self._get_text(node, b'until')\n",
  "        yield self._get_text(node, b'end')\n", expect='R-C09-agree')
M('C09-luafmt-drops-indentwidth', 'C09', F_TOOL,
  "        lua_writer_args={'indentwidth': args.indentwidth})\n",
  "        lua_writer_args={'indent_width': args.indentwidth})\n",
  expect='R-C01-wiring')

# ---------------------------------------------------------------- C10 ----
M('C10-missing-dedent', 'C10', F_LUA,
  "        yield self._get_text(node, b'do')\n"
  "        self._indent += 1\n"
  "        for t in self._walk(node.block):\n"
  "            yield t\n"
  "        self._indent -= 1\n"
  "        yield self._get_text(node, b'end')\n\n"
  "    def _walk_StatRepeat(self, node):",
  "        yield self._get_text(node, b'do')\n"
  "        self._indent += 1\n"
  "        for t in self._walk(node.block):\n"
  "            yield t\n"
  "        yield self._get_text(node, b'end')\n\n"
  "    def _walk_StatRepeat(self, node):", expect='R-C10-balance')
M('C10-dedent-after-closer', 'C10', F_LUA,
  "    def _walk_StatDo(self, node):\n"
  "        yield self._get_text(node, b'do')\n"
  "        self._indent += 1\n"
  "        for t in self._walk(node.block):\n"
  "            yield t\n"
  "        self._indent -= 1\n"
  "        yield self._get_text(node, b'end')\n",
  "    def _walk_StatDo(self, node):\n"
  "        yield self._get_text(node, b'do')\n"
  "        self._indent += 1\n"
  "        for t in self._walk(node.block):\n"
  "            yield t\n"
  "        yield self._get_text(node, b'end')\n"
  "        self._indent -= 1\n", expect='R-C10-bracket')
M('C10-shortif-unbalanced', 'C10', F_LUA,
  "                if not short_if:\n                    self._indent -= 1\n",
  "                self._indent -= 1\n", expect='R-C10-balance')
M('C10-revert-fix15-introducers', 'C10', F_LUA,
  "            br'\\n *(--|//)',\n"
  "            b'\\n' + b' ' * self._indent_mult * self._indent + br'\\1',\n",
  "            br'\\n *--',\n"
  "            b'\\n' + b' ' * self._indent_mult * self._indent + b'--',\n",
  expect='R-C10-introducers')
M('C10-no-collapse', 'C10', F_LUA,
  "        spaces = re.sub(br'\\n\\n+', b'\\n\\n', spaces)\n", "",
  expect='R-C10-order')
M('C10-cr-after-trailing', 'C10', F_LUA,
  "        spaces = re.sub(br'\\r', b'\\n', spaces)\n\n"
  "        # Delete trailing whitespace.\n"
  "        spaces = re.sub(br' +\\n', b'\\n', spaces)\n",
  "        # Delete trailing whitespace.\n"
  "        spaces = re.sub(br' +\\n', b'\\n', spaces)\n"
  "        spaces = re.sub(br'\\r', b'\\n', spaces)\n", expect='R-C10-order')
M('C10-indent-in-wrong-place', 'C10', F_LUA,
  "        yield self._get_text(node, b'while')\n"
  "        for t in self._walk(node.exp):\n"
  "            yield t\n"
  "        yield self._get_text(node, b'do')\n"
  "        self._indent += 1\n",
  "        yield self._get_text(node, b'while')\n"
  "        self._indent += 1\n"
  "        for t in self._walk(node.exp):\n"
  "            yield t\n"
  "        yield self._get_text(node, b'do')\n", expect='R-C10-bracket')
M('C10-default-width-mismatch', 'C10', F_TOOL,
  "        '--indentwidth', type=int, action='store', default=2,",
  "        '--indentwidth', type=int, action='store', default=4,",
  expect='R-C10-indentwidth')
M('C10-n-yield-from-block', 'C10', F_LUA,
  "    def _walk_StatDo(self, node):\n"
  "        yield self._get_text(node, b'do')\n"
  "        self._indent += 1\n"
  "        for t in self._walk(node.block):\n"
  "            yield t\n",
  "    def _walk_StatDo(self, node):\n"
  "        yield self._get_text(node, b'do')\n"
  "        self._indent += 1\n"
  "        yield from self._walk(node.block)\n", kind='neutral')

# ---------------------------------------------------------------- C01 ----
M('C01-revert-fix01-hazards', 'C01', F_LUA,
  "            if last_chunk[-1:] + chunk[:1] in (b'--', b'..', b'[[', b'[='):\n"
  "                yield b' '\n", "", expect='R-C01-noglue')
M('C01-hazard-missing-dash', 'C01', F_LUA,
  "in (b'--', b'..', b'[[', b'[='):", "in (b'..', b'[[', b'[='):",
  expect='R-C01-noglue')
M('C01-keyword-no-space', 'C01', F_LUA,
  "            elif token.matches(lexer.TokKeyword):\n"
  "                if self._last_was_name_keyword_number:\n"
  "                    yield b' '\n",
  "            elif token.matches(lexer.TokKeyword):\n",
  expect='R-C01-noglue')
M('C01-number-dropped', 'C01', F_LUA,
  "            elif token.matches(lexer.TokNumber):\n"
  "                if self._last_was_name_keyword_number:\n"
  "                    yield b' '\n"
  "                self._last_was_name_keyword_number = True\n"
  "                self._last_was_newline = False\n"
  "                yield token.code\n",
  "            elif token.matches(lexer.TokNumber):\n"
  "                if self._last_was_name_keyword_number:\n"
  "                    yield b' '\n"
  "                self._last_was_name_keyword_number = True\n"
  "                self._last_was_newline = False\n"
  "                if token.code == b'0':\n"
  "                    continue\n"
  "                yield token.code\n", expect='R-C01-transducer',
  note='data-dependent drop is outside the class model: exit 2 accepted',
  accept_error=True)
M('C01-name-forgets-newline-flag', 'C01', F_LUA,
  "                self._last_was_name_keyword_number = True\n"
  "                self._last_was_newline = False\n"
  "                yield self._name_factory.get_short_name(token.code)\n",
  "                self._last_was_name_keyword_number = True\n"
  "                yield self._name_factory.get_short_name(token.code)\n",
  expect='R-C01-transducer')
M('C01-close-bracket-set', 'C01', F_LUA,
  "                self._last_was_name_keyword_number = token.code in b'])}'\n",
  "                self._last_was_name_keyword_number = token.code in b')}'\n",
  kind='neutral', note='`]x` never fuses: behaviour-preserving for glue')
M('C01-luamin-wrong-writer', 'C01', F_TOOL,
  "        lua_writer_cls=lua.LuaMinifyTokenWriter,\n        lua_writer_args={\n            # 'keep_property_names'",
  "        lua_writer_cls=lua.LuaMinifyWriter,\n        lua_writer_args={\n            # 'keep_property_names'",
  expect='R-C01-wiring')
M('C01-decimal-lookahead-removed', 'C01', F_LEXER,
  "(re.compile(br'[0-9]+(\\.(?!\\.)[0-9]*)?([eE][+-]?[0-9]+)?'), TokNumber),",
  "(re.compile(br'[0-9]+(\\.[0-9]*)?([eE][+-]?[0-9]+)?'), TokNumber),",
  expect='R-C01-noglue', note='1 ..x -> 1..x re-lexes as 1. .x')
M('C01-newline-always-dropped', 'C01', F_LUA,
  "                if not self._last_was_newline:\n                    yield b'\\n'\n",
  "                if not self._last_was_newline and False:\n                    yield b'\\n'\n",
  expect='R-C01-transducer', note='and False is outside model? constant ok')
M('C01-n-split-helper', 'C01', F_LUA,
  "            elif token.matches(lexer.TokKeyword):\n"
  "                if self._last_was_name_keyword_number:\n"
  "                    yield b' '\n"
  "                self._last_was_name_keyword_number = True\n"
  "                self._last_was_newline = False\n"
  "                yield token.code\n",
  "            elif token.matches(lexer.TokKeyword):\n"
  "                if self._last_was_name_keyword_number:\n"
  "                    yield b' '\n"
  "                self._last_was_newline = False\n"
  "                self._last_was_name_keyword_number = True\n"
  "                yield token.code\n", kind='neutral')

# ---------------------------------------------------------------- C19 ----
M('C19-keep-one-comment', 'C19', F_LUA,
  "                seen_header_comments < 2 and\n",
  "                seen_header_comments < 1 and\n", expect='R-C19-agree')
M('C19-header-no-newline', 'C19', F_LUA,
  "                seen_header_comments += 1\n"
  "                yield token.code\n"
  "                yield b'\\n'\n",
  "                seen_header_comments += 1\n"
  "                yield token.code\n", expect='R-C19-header')
M('C19-drop-before-header', 'C19', F_LUA,
  "            if (not seen_non_comment_token and\n"
  "                seen_header_comments < 2 and\n"
  "                    token.matches(lexer.TokComment)):\n"
  "                seen_header_comments += 1\n"
  "                yield token.code\n"
  "                yield b'\\n'\n"
  "                continue\n\n"
  "            if (token.matches(lexer.TokComment) or\n"
  "                    token.matches(lexer.TokSpace)):\n"
  "                continue\n",
  "            if (token.matches(lexer.TokComment) or\n"
  "                    token.matches(lexer.TokSpace)):\n"
  "                continue\n"
  "            if (not seen_non_comment_token and\n"
  "                seen_header_comments < 2 and\n"
  "                    token.matches(lexer.TokComment)):\n"
  "                seen_header_comments += 1\n"
  "                yield token.code\n"
  "                yield b'\\n'\n"
  "                continue\n\n", expect='R-C19-header')
M('C19-space-counts-as-code', 'C19', F_LUA,
  "                not token.matches(lexer.TokComment) and\n"
  "                not token.matches(lexer.TokSpace) and\n"
  "                    not token.matches(lexer.TokNewline)):\n",
  "                not token.matches(lexer.TokComment) and\n"
  "                    not token.matches(lexer.TokNewline)):\n",
  expect='R-C19-header')
M('C19-comment-stripped', 'C19', F_LUA,
  "                seen_header_comments += 1\n                yield token.code\n",
  "                seen_header_comments += 1\n                yield token.code.strip()\n",
  expect='R-C19-header', note='outside the chunk model -> analysis error')
M('C19-byline-index', 'C19', F_LUA,
  "        title_tok = self._lexer.tokens[2]\n",
  "        title_tok = self._lexer.tokens[1]\n", expect='R-C19-agree')
M('C19-glue-into-comment', 'C19', F_LUA,
  "in (b'--', b'..', b'[[', b'[='):", "in (b'..', b'[[', b'[='):",
  expect='R-C01-noglue')

# ---------------------------------------------------------------- C06 ----
M('C06-revert-fix10-padding', 'C06', F_LEXER,
  "                    if esc.isdigit() and self._data[i+1:i+2].isdigit():\n"
  "                        # \"\\0\" followed by \"1\" must not read as \"\\01\".\n"
  "                        esc = esc.rjust(3, b'0')\n", "",
  expect='R-C06-escapes')
M('C06-revert-fix11-hex', 'C06', F_LEXER,
  "                    elif hex_m:\n"
  "                        c = bytes([int(hex_m.group(1), 16)])\n"
  "                        i += len(hex_m.group(0))\n", "",
  expect='R-C06-escapes', accept_error=True)
M('C06-drop-escape-r', 'C06', F_LEXER,
  "    b'r': b'\\r', b't': b'\\t',", "    b't': b'\\t',", expect='R-C06-escapes')
M('C06-store-one-less', 'C06', F_LEXER,
  "                self._in_multiline_comment.append(s[:i])\n",
  "                self._in_multiline_comment.append(s[:i-1])\n",
  expect='R-C06-cover')
M('C06-echo-drops-tail', 'C06', F_LUA,
  "                yield b''.join(strs)\n                strs.clear()\n"
  "        if strs:\n            yield b''.join(strs)\n\n\nclass PureLuaWriter",
  "                yield b''.join(strs)\n                strs.clear()\n\n\nclass PureLuaWriter",
  expect='R-C06-echo')
M('C06-echo-skips-comments', 'C06', F_LUA,
  "        for token in self._tokens:\n            strs.append(token.code)\n",
  "        for token in self._tokens:\n"
  "            if token.matches(lexer.TokComment):\n"
  "                continue\n"
  "            strs.append(token.code)\n", expect='R-C06-echo')
M('C06-quote-not-escaped', 'C06', F_LEXER,
  "                elif c == self._quote:\n"
  "                    escaped_chrs.append(b'\\\\' + c)\n",
  "                elif c == self._quote and False:\n"
  "                    escaped_chrs.append(b'\\\\' + c)\n",
  expect='R-C06-escapes', accept_error=True)
M('C06-decimal-two-digits', 'C06', F_LEXER,
  "                    num_m = re.match(br'\\d{1,3}', s[i+1:])\n",
  "                    num_m = re.match(br'\\d{1,2}', s[i+1:])\n",
  expect='R-C06-escapes')
M('C06-default-writer-changed', 'C06', F_LUA,
  "        if writer_cls is None:\n            writer_cls = LuaEchoWriter\n",
  "        if writer_cls is None:\n            writer_cls = LuaMinifyTokenWriter\n",
  expect='R-C06-echo')
M('C06-long-string-loses-level', 'C06', F_LEXER,
  "            return (b'[' + self._multiline_quote + b'[' +\n",
  "            return (b'[' + b'[' +\n", expect='R-C06-cover')
M('C06-reverse-table-extra-del', 'C06', F_LEXER,
  "del _STRING_REVERSE_ESCAPES[b'\"']\n",
  "del _STRING_REVERSE_ESCAPES[b'\"']\ndel _STRING_REVERSE_ESCAPES[b'\\\\']\n",
  expect='R-C06-escapes')

# ---------------------------------------------------------------- C18 ----
M('C18-revert-like-off-by-one-hi', 'C18', F_GAME,
  "            section_data[lo - start_a:hi - start_a] = \\\n"
  "                data[lo - start_addr:hi - start_addr]\n",
  "            section_data[lo - start_a:hi - start_a + 1] = \\\n"
  "                data[lo - start_addr:hi - start_addr]\n", expect='R-C18-slices')
M('C18-source-offset-wrong', 'C18', F_GAME,
  "                data[lo - start_addr:hi - start_addr]\n",
  "                data[lo - start_a:hi - start_a]\n", expect='R-C18-slices')
M('C18-reject-too-late', 'C18', F_GAME,
  "        if start_addr + len(data) > 0x4300:\n",
  "        if start_addr + len(data) > 0x4400:\n", expect='R-C18-reject')
M('C18-reject-off-by-one', 'C18', F_GAME,
  "        if start_addr + len(data) > 0x4300:\n",
  "        if start_addr + len(data) >= 0x4300:\n", expect='R-C18-reject')
M('C18-region-missing', 'C18', F_GAME,
  "                  (0x3000, 0x3100, self.gff._data),\n", "",
  expect='R-C18-map')
M('C18-wrong-array', 'C18', F_GAME,
  "                  (0x3100, 0x3200, self.music._data),\n",
  "                  (0x3100, 0x3200, self.gff._data),\n", expect='R-C18-map')
M('C18-skip-test-inclusive', 'C18', F_GAME,
  "            if lo >= hi:\n                continue\n",
  "            if lo > hi:\n                continue\n", kind='neutral',
  note='empty slice store on an empty intersection changes nothing')
M('C18-skip-too-eager', 'C18', F_GAME,
  "            if lo >= hi:\n                continue\n",
  "            if lo + 1 >= hi:\n                continue\n",
  expect='R-C18-slices')
M('C18-n-clip-with-ifexp', 'C18', F_GAME,
  "            lo = max(start_addr, start_a)\n",
  "            lo = start_addr if start_addr > start_a else start_a\n",
  kind='neutral')

# ---------------------------------------------------------------- C17 ----
M('C17-revert-fix21-x', 'C17', F_GFX,
  "                        ((first_x_coord + x) >= 128)):\n",
  "                        ((first_x_coord + x) > 128)):\n", expect='R-C17-bounds')
M('C17-revert-fix21-y', 'C17', F_GFX,
  "                    ((first_y_coord + y) >= 128) or\n",
  "                    ((first_y_coord + y) > 128) or\n", expect='R-C17-bounds')
M('C17-revert-fix22', 'C17', F_MAP,
  "                if ((tile_y + y) > 63) or ((tile_x + x) > 127):\n",
  "                if ((tile_y + y) > 127) or ((tile_x + x) > 127):\n",
  expect='R-C17-bounds')
M('C17-get-cell-row-32', 'C17', F_MAP,
  "        if y <= 31:\n            return self._data[y * 128 + x]\n",
  "        if y <= 32:\n            return self._data[y * 128 + x]\n",
  expect='R-C17-')
M('C17-shared-offset', 'C17', F_MAP,
  "            self._gfx._data[4096 + (y - 32) * 128 + x] = val\n",
  "            self._gfx._data[4095 + (y - 32) * 128 + x] = val\n",
  expect='R-C17-inverse')
M('C17-volume-mask', 'C17', F_SFX,
  "            msb = (msb & 0xf1) | (volume << 1)\n",
  "            msb = (msb & 0xf0) | (volume << 1)\n", expect='R-C17-frame')
M('C17-channel-mask', 'C17', F_MUSIC,
  "        pattern = self._data[id * 4 + channel] & 0x7f\n",
  "        pattern = self._data[id * 4 + channel] & 0xff\n",
  expect='R-C17-inverse')
M('C17-sprite-parity', 'C17', F_GFX,
  "                            if x_offset % 2 == 0:\n"
  "                                row.append(b & 0x0f)\n",
  "                            if x_offset % 2 == 1:\n"
  "                                row.append(b & 0x0f)\n", expect='R-C17-inverse')
M('C17-setter-touches-neighbour', 'C17', F_SFX,
  "        self._data[id * 68 + note * 2] = lsb\n",
  "        self._data[id * 68 + note * 2] = lsb\n"
  "        self._data[id * 68 + note * 2 + 2] = 0\n", expect='R-C17-frame')
M('C17-clear-flags-wrong', 'C17', F_GFF,
  "        self._data[id] &= (~flags & ALL)\n",
  "        self._data[id] &= (flags & ALL)\n", expect='R-C17-frame')
M('C17-effect-shift', 'C17', F_SFX,
  "        effect = (msb & 0x70) >> 4\n", "        effect = (msb & 0x70) >> 3\n",
  expect='R-C17-inverse')
M('C17-music-flag-byte', 'C17', F_MUSIC,
  "        end = (self._data[id * 4 + 1] & 0x80) > 0\n",
  "        end = (self._data[id * 4 + 2] & 0x80) > 0\n", expect='R-C17-inverse')
M('C17-loop-end-offset', 'C17', F_SFX,
  "            self._data[id * 68 + 67] = loop_end\n",
  "            self._data[id * 68 + 66] = loop_end\n", expect='R-C17-inverse')
M('C17-n-clip-equivalent', 'C17', F_GFX,
  "                        ((first_x_coord + x) >= 128)):\n",
  "                        ((first_x_coord + x) > 127)):\n", kind='neutral')
M('C17-n-hoist-index', 'C17', F_SFX,
  "        lsb = self._data[id * 68 + note * 2]\n"
  "        msb = self._data[id * 68 + note * 2 + 1]\n"
  "        pitch = lsb & 0x3f\n",
  "        base = id * 68 + note * 2\n"
  "        lsb = self._data[base]\n"
  "        msb = self._data[base + 1]\n"
  "        pitch = lsb & 0x3f\n", kind='neutral')

# ---------------------------------------------------------------- C03 ----
M('C03-gfx-no-nibble-swap', 'C03', F_GFX,
  "                newdata.append((b & 0x0f) << 4 | (b & 0xf0) >> 4)\n",
  "                newdata.append(b)\n", expect='R-C03-layout')
M('C03-sfx-reader-swapped-slices', 'C03', F_SFX,
  "                waveform = int(line[i+2:i+3], 16)\n"
  "                volume = int(line[i+3:i+4], 16)\n",
  "                waveform = int(line[i+3:i+4], 16)\n"
  "                volume = int(line[i+2:i+3], 16)\n", expect='R-C03-layout',
  accept_error=True)
M('C03-sfx-filter-168', 'C03', F_SFX,
  "            if len(line) != 169:\n", "            if len(line) != 168:\n",
  expect='R-C03-layout')
M('C03-music-flag-shift', 'C03', F_MUSIC,
  "            p8flags = (fstop << 2) | (frepeat << 1) | fnext\n",
  "            p8flags = (fstop << 1) | (frepeat << 2) | fnext\n",
  expect='R-C03-layout')
M('C03-gff-written-with-map', 'C03', F_P8,
  "        for line in game.gff.to_lines():\n",
  "        for line in game.map.to_lines():\n", expect='R-C03-sections')
M('C03-label-unconditional', 'C03', F_P8,
  "        if game.label:\n            outstr.write(b'__label__\\n')\n"
  "            for line in game.label.to_lines():\n                outstr.write(line)\n",
  "        outstr.write(b'__label__\\n')\n"
  "        for line in (game.label or game.gfx).to_lines():\n            outstr.write(line)\n",
  expect='R-C03-text')
M('C03-version-dropped', 'C03', F_P8,
  "        new_game.version = data.version\n", "", expect='R-C03-sections')
M('C03-newline-always', 'C03', F_P8,
  "        if not ended_in_newline:\n            outstr.write(b'\\n')\n\n        outstr.write(b'__gfx__\\n')",
  "        outstr.write(b'\\n')\n\n        outstr.write(b'__gfx__\\n')",
  expect='R-C03-text')
M('C03-music-channel-mask', 'C03', F_MUSIC,
  "            chan2 = self._data[start_i+1] & 127\n",
  "            chan2 = self._data[start_i+1] & 63\n", expect='R-C03-layout')

# ---------------------------------------------------------------- C04 ----
M('C04-swap-planes', 'C04', F_PNG,
  "                new_row[col_i * planes + 2] = (\n"
  "                    (row[col_i * planes + 2] & ~3) |\n"
  "                    (picobyte & 3))\n",
  "                new_row[col_i * planes + 2] = (\n"
  "                    (row[col_i * planes + 2] & ~3) |\n"
  "                    ((picobyte >> 4) & 3))\n", expect='R-C04-stego')
M('C04-mask-three-bits', 'C04', F_PNG,
  "                    (row[col_i * planes + 1] & ~3) |\n",
  "                    (row[col_i * planes + 1] & ~7) |\n", expect='R-C04-stego')
M('C04-slice-bound', 'C04', F_PNG,
  "    data.song = picodata[0x3100:0x3200]\n",
  "    data.song = picodata[0x3100:0x3300]\n", expect='R-C04-memmap')
M('C04-join-order', 'C04', F_PNG,
  "                             game.map.to_bytes(),\n"
  "                             game.gff.to_bytes(),\n",
  "                             game.gff.to_bytes(),\n"
  "                             game.map.to_bytes(),\n", expect='R-C04-memmap')
M('C04-revert-fix05-guard', 'C04', F_PNG,
  "    if len(code_bytes) > len(byte_array):\n"
  "        raise CodeTooLargeError(len(code_bytes), len(byte_array))\n", "",
  expect='R-C04-refuse')
M('C04-revert-fix04-kinds', 'C04', F_PNG,
  "        code_bytes = bytes(code)\n", "        code_bytes = bytes(code, 'ascii')\n",
  expect='R-C04-header')
M('C04-header-zeros-dropped', 'C04', F_PNG,
  "            [b':c:\\0', code_length_bytes, b'\\0\\0',\n",
  "            [b':c:\\0', code_length_bytes, b'',\n", expect='R-C04-header')
M('C04-label-open-write', 'C04', F_PNG,
  "            with open(label_fname, 'rb') as label_fh:\n",
  "            with open(label_fname, 'wb+') as label_fh:\n", expect='R-C04-label')
M('C04-reader-plane-order', 'C04', F_PNG,
  "                (row[col_i * attrs['planes'] + 0] & 3) << (2 * 2))\n",
  "                (row[col_i * attrs['planes'] + 0] & 3) << (3 * 2))\n",
  expect='R-C04-stego', accept_error=True)

# ---------------------------------------------------------------- C05 ----
M('C05-min-len-2', 'C05', F_COMPRESS,
  "        if block_len >= 3:\n", "        if block_len >= 2:\n",
  expect='R-C05-wellformed')
M('C05-max-len-18', 'C05', F_COMPRESS,
  "    max_block_len = 17\n", "    max_block_len = 18\n", expect='R-C05-wellformed')
M('C05-decoder-bias', 'C05', F_COMPRESS,
  "                (codedata[in_i - 1] - 0x3c) * 16 +\n",
  "                (codedata[in_i - 1] - 0x3d) * 16 +\n", expect='R-C05-format')
M('C05-encoder-radix', 'C05', F_COMPRESS,
  "            out.append((block_offset % 16) + (block_len - 2) * 16)\n",
  "            out.append((block_offset % 16) + (block_len - 2) * 32)\n",
  expect='R-C05-format')
M('C05-revert-fix06-copy', 'C05', F_COMPRESS,
  "            for _ in range(length):\n"
  "                if out_i >= code_length:\n"
  "                    break\n"
  "                out[out_i] = out[out_i - offset]\n"
  "                out_i += 1\n",
  "            out[out_i:out_i + length] = \\\n"
  "                out[out_i - offset:out_i - offset + length]\n"
  "            out_i += length\n", expect='R-C05-copy')
M('C05-table-char', 'C05', F_COMPRESS,
  "    b'#\\n 0123456789abcdefghijklmnopqrstuvwxyz!#%(){}[]<>+=/*:;.,~_')",
  "    b'#\\n 0123456789abcdefghijklmnopqrstuvwxyz!#%(){}[]<>+=/*:;.,~-')",
  expect='R-C05-format')
M('C05-literal-index-from-0', 'C05', F_COMPRESS,
  "    for i in range(1, len(COMPRESSED_LUA_CHAR_TABLE)):\n",
  "    for i in range(0, len(COMPRESSED_LUA_CHAR_TABLE)):\n", expect='R-C05-format')
M('C05-overlap-allowed', 'C05', F_COMPRESS,
  "        while (j - i) < max_len and j < pos and dat[j] == dat[pos + j - i]:\n",
  "        while (j - i) < max_len and dat[j] == dat[pos + j - i]:\n",
  kind='neutral', note='offset < length is allowed by the format; the '
  'decoder copies byte by byte')
M('C05-window-too-wide', 'C05', F_COMPRESS,
  "    max_hist_len = (255 - len(COMPRESSED_LUA_CHAR_TABLE)) * 16\n",
  "    max_hist_len = (256 - len(COMPRESSED_LUA_CHAR_TABLE)) * 16\n",
  expect='R-C05-wellformed')
M('C05-n-hex-vs-len', 'C05', F_COMPRESS,
  "                (block_offset // 16) + len(COMPRESSED_LUA_CHAR_TABLE))\n",
  "                (block_offset // 16) + 0x3c)\n", kind='neutral')

# ---------------------------------------------------------------- C16 ----
MM('C16-custom-bit-both-sides', 'C16', [
   (F_SFX, "        waveform = ((msb & 0x80) >> 4) | (\n",
    "        waveform = ((msb & 0x40) >> 3) | (\n"),
   (F_SFX, "            msb = (msb & 0x7e) | ((waveform & 4) >> 2) | ((waveform & 8) << 4)\n",
    "            msb = (msb & 0xbe) | ((waveform & 4) >> 2) | ((waveform & 8) << 3)\n")],
   expect='R-C16-sfx', note='getter and setter agree with each other, not with the format')
MM('C16-music-flags-both-sides', 'C16', [
   (F_MUSIC, "            p8flags = (fstop << 2) | (frepeat << 1) | fnext\n",
    "            p8flags = (fnext << 2) | (frepeat << 1) | fstop\n"),
   (F_MUSIC, "            fstop = (flags & 4) >> 2\n            frepeat = (flags & 2) >> 1\n            fnext = flags & 1\n",
    "            fnext = (flags & 4) >> 2\n            frepeat = (flags & 2) >> 1\n            fstop = flags & 1\n")],
   expect='R-C16-music')
MM('C16-png-planes-both-sides', 'C16', [
   (F_PNG, "                (row[col_i * attrs['planes'] + 2] & 3) << (0 * 2))\n",
    "                (row[col_i * attrs['planes'] + 1] & 3) << (0 * 2))\n"),
   (F_PNG, "                (row[col_i * attrs['planes'] + 1] & 3) << (1 * 2))\n",
    "                (row[col_i * attrs['planes'] + 2] & 3) << (1 * 2))\n"),
   (F_PNG, "                new_row[col_i * planes + 2] = (\n                    (row[col_i * planes + 2] & ~3) |\n                    (picobyte & 3))\n",
    "                new_row[col_i * planes + 2] = (\n                    (row[col_i * planes + 2] & ~3) |\n                    ((picobyte >> 2) & 3))\n"),
   (F_PNG, "                new_row[col_i * planes + 1] = (\n                    (row[col_i * planes + 1] & ~3) |\n                    ((picobyte >> 2) & 3))\n",
    "                new_row[col_i * planes + 1] = (\n                    (row[col_i * planes + 1] & ~3) |\n                    (picobyte & 3))\n")],
   expect='R-C16-png')
M('C16-map-row-64', 'C16', F_MAP,
  "class Map(util.BaseSection):\n    \"\"\"The map region of a PICO-8 cart.\"\"\"\n    HEX_LINE_LENGTH_BYTES = 128\n",
  "class Map(util.BaseSection):\n    \"\"\"The map region of a PICO-8 cart.\"\"\"\n    HEX_LINE_LENGTH_BYTES = 64\n",
  expect='R-C16-hexrows')
M('C16-hex-uppercase', 'C16', F_UTIL,
  "    return ''.join(format(b, '02x') for b in bstr)\n",
  "    return ''.join(format(b, '2x') for b in bstr)\n", expect='R-C16-hexrows')
MM('C16-gfx-both-plain', 'C16', [
   (F_GFX, "                newdata.append((b & 0x0f) << 4 | (b & 0xf0) >> 4)\n",
    "                newdata.append(b)\n"),
   (F_GFX, "            for i in range(0, 128, 2):\n                (larray[i], larray[i+1]) = (larray[i+1], larray[i])\n", "")],
   expect='R-C16-gfx', note='round trip still fine; pixels not in screen order')
M('C16-stream-bias-both', 'C16', F_COMPRESS,
  "COMPRESSED_LUA_CHAR_TABLE = list(\n    b'#\\n 0123",
  "COMPRESSED_LUA_CHAR_TABLE = list(\n    b'##\\n 0123", expect='R-C16-stream',
  note='shifts table and bias consistently in encoder and decoder')


# ------------------------------------------- mutants on refactored code ----
# (the base is a behaviour-preserving refactoring written by a sub-agent; the
# edit on top breaks the property; the rule has to follow the refactored code)
M('C17-on-neutral-get-sprite-nibbles', 'C17', F_GFX,
  "                        row.append(b & 0x0f)\n"
  "                        row.append((b & 0xf0) >> 4)\n",
  "                        row.append((b & 0xf0) >> 4)\n"
  "                        row.append(b & 0x0f)\n",
  expect='R-C17-inverse', on='neutral-C17')
M('C17-on-neutral-get-sprite-clip', 'C17', F_GFX,
  "                    if tx > 15 or below_sheet:\n",
  "                    if tx > 16 or below_sheet:\n",
  expect='R-C17-', on='neutral-C17')
M('C16-on-neutral-gfx-table', 'C16', F_GFX,
  "pixels = bytes(row).translate(_NIBBLE_SWAP_TABLE)",
  "pixels = bytes(row)", expect='R-C16-gfx', on='neutral-C16')
M('C03-on-neutral-music-flags', 'C03', 'pico8/music/music.py',
  "chan_flags = (flags & 1, (flags & 2) >> 1, (flags & 4) >> 2, 0)",
  "chan_flags = (flags & 1, (flags & 4) >> 2, (flags & 2) >> 1, 0)",
  expect='R-C03-layout', on='neutral-C03')
M('C04-on-neutral-png-shift', 'C04', F_PNG,
  "                picobyte |= (row[pixel_start + plane] & 3) << shift\n",
  "                picobyte |= (row[pixel_start + plane] & 1) << shift\n",
  expect='R-C04-stego', on='neutral-C04')
M('C04-on-neutral-refuse-off', 'C04', F_PNG,
  "    if used_size > CODE_AREA_SIZE:\n",
  "    if used_size > CODE_AREA_SIZE + 256:\n",
  expect='R-C04-refuse', on='neutral-C04', accept_error=True)
M('C18-on-neutral-clip-off-by-one', 'C18', F_GAME,
  "    clipped = slice(max(first, 0), min(last, size))\n",
  "    clipped = slice(max(first, 0), min(last, size - 1))\n",
  expect='R-C18-slices', on='neutral2-C18')
M('C18-on-neutral-reject-late', 'C18', F_GAME,
  "        if start_addr + len(data) > CART_DATA_SIZE:\n",
  "        if start_addr + len(data) > CART_DATA_SIZE + 1:\n",
  expect='R-C18-reject', on='neutral2-C18')
M('C17-on-neutral2-sfx-volume-mask', 'C17', 'pico8/sfx/sfx.py',
  "    (7, _KEEP_ALL, 0xf1, lambda v: (0, v << 1)),\n",
  "    (7, _KEEP_ALL, 0xf0, lambda v: (0, v << 1)),\n",
  expect='R-C17-frame', on='neutral2-C17')
M('C17-on-neutral2-map-rows', 'C17', 'pico8/map/map.py',
  "        if y < MAP_OWN_ROWS:\n", "        if y <= MAP_OWN_ROWS:\n",
  expect='R-C17-', on='neutral2-C17')

# ---- breaks written on top of the small round-5 edits (operand swaps, De
# Morgan, extracted helpers): the normaliser has to bring the changed condition
# into the spelling the rules read, not only the unchanged ones
M('C05-on-neutral4-yoda-threshold', 'C05', 'pico8/game/compress.py',
  "        if 3 <= block_len:\n", "        if 2 <= block_len:\n",
  expect='R-C05-', on='neutral4-C05')
M('C05-on-neutral4-best-len-nonstrict', 'C05', 'pico8/game/compress.py',
  "        if best_len < (j - i):\n", "        if best_len <= (j - i):\n",
  expect=None, kind='neutral', on='neutral4-C05',
  note='ties resolved towards the later candidate: still a valid stream')
M('C17-on-neutral4-clip-strict', 'C17', 'pico8/gfx/gfx.py',
  "                    (128 <= (first_y_coord + y)) or\n",
  "                    (128 < (first_y_coord + y)) or\n",
  expect='R-C17-', on='neutral4-C17')
M('C17-on-neutral4-set-pixel-nibble', 'C17', 'pico8/gfx/gfx.py',
  "            b = (b & 0xf0) + val\n        else:\n            b = (b & 0x0f) + (val << 4)\n        self._data[data_loc] = b\n",
  "            b = (b & 0x0f) + val\n        else:\n            b = (b & 0x0f) + (val << 4)\n        self._data[data_loc] = b\n",
  expect='R-C17-', on='neutral4-C17', accept_error=True,
  note='addition of overlapping bit fields: outside the bit-provenance domain')
M('C17-on-neutral4-map-rect-bound', 'C17', 'pico8/map/map.py',
  "                if (63 < (tile_y + y)) or (127 < (tile_x + x)):\n",
  "                if (64 < (tile_y + y)) or (127 < (tile_x + x)):\n",
  expect='R-C17-', on='neutral4-C17')
M('C08-on-neutral4-fence-nonstrict', 'C08', 'pico8/lua/parser.py',
  "                (self._max_pos is None or self._max_pos > self._pos)):\n",
  "                (self._max_pos is None or self._max_pos >= self._pos)):\n",
  expect='R-C08-', on='neutral4-C08')
M('C08-on-neutral4-line-end-skips-newline', 'C08', 'pico8/lua/parser.py',
  "        while (len(self._tokens) > pos and\n               not self._tokens[pos].matches(lexer.TokNewline)):\n            pos += 1\n        return pos\n",
  "        while (len(self._tokens) > pos and\n               not self._tokens[pos].matches(lexer.TokNewline)):\n            pos += 1\n        return pos + 1\n",
  expect='R-C08-', on='neutral4-C08', accept_error=True)
M('C07-on-neutral4-helper-charno', 'C07', 'pico8/lua/lexer.py',
  "            lineno += 1\n            charno = 0\n",
  "            lineno += 1\n            charno = 1\n",
  expect='R-C07-pos', on='neutral4-C07')
M('C07-on-neutral4-helper-consumed', 'C07', 'pico8/lua/lexer.py',
  "            self._cur_lineno, self._cur_charno, s[:i])\n",
  "            self._cur_lineno, self._cur_charno, s[:i+1])\n",
  expect='R-C07-pos', on='neutral4-C07')
M('C14-on-neutral4-strip-range', 'C14', 'pico8/build/build.py',
  "        if all(i < s.start_pos or i >= s.end_pos for s in stripped))\n",
  "        if all(i < s.start_pos or i > s.end_pos for s in stripped))\n",
  expect='R-C14-', on='neutral4-C14', accept_error=True)
M('C14-on-neutral4-strip-nothing', 'C14', 'pico8/build/build.py',
  "    if not stripped:\n        return reqd_lua\n",
  "    if stripped:\n        return reqd_lua\n",
  expect='R-C14-', on='neutral4-C14', accept_error=True)
M('C06-on-neutral4-helper-no-pad', 'C06', 'pico8/lua/lexer.py',
  "            esc = esc.rjust(3, b'0')\n        return b'\\\\' + esc\n",
  "            esc = esc.rjust(2, b'0')\n        return b'\\\\' + esc\n",
  expect='R-C06-', on='neutral4-C06')
M('C20-on-neutral4-helper-inverted', 'C20', 'pico8/game/formatter/p8.py',
  "    if not line.endswith(b'\\n'):\n        line += b'\\n'\n    return line\n",
  "    if line.endswith(b'\\n'):\n        line += b'\\n'\n    return line\n",
  expect='R-C', on='neutral4-C20', accept_error=True)
M('C09-on-neutral4-semis-dropped', 'C09', 'pico8/lua/lua.py',
  "            spaces_and_semis.append(spaces + b';')\n            spaces = self._get_code_for_spaces(node)\n        spaces_and_semis.append(spaces)\n",
  "            spaces_and_semis.append(spaces)\n            spaces = self._get_code_for_spaces(node)\n        spaces_and_semis.append(spaces)\n",
  expect='R-C09-', on='neutral4-C09', accept_error=True)
M('C10-revert-fix-blank-line-indent', 'C10', F_LUA,
  "            br'\\n *\\Z', b'\\n' + b' ' * self._indent_mult * self._indent,\n",
  "            br'\\n *$', b'\\n' + b' ' * self._indent_mult * self._indent,\n",
  expect='R-C10-order', note='reverts fix 30ac571')

M('C09-semis-dropped', 'C09', F_LUA,
  "                spaces_and_semis.append(spaces + b';')\n",
  "                spaces_and_semis.append(spaces)\n",
  expect='R-C09-semis')
M('C09-semis-not-consumed-twice', 'C09', F_LUA,
  "                self._pos += 1\n                spaces_and_semis.append(spaces + b';')\n",
  "                self._pos += 2\n                spaces_and_semis.append(spaces + b';')\n",
  expect='R-C09-semis')
M('C05-revert-fix-nul-strip', 'C05', F_COMPRESS,
  "    code = bytes(out[:out_i])\n",
  "    code = bytes(out).strip(b'\\x00')\n",
  expect='R-C05-post', note='reverts fix 910fadd')
M('C05-post-strip-one-more', 'C05', F_COMPRESS,
  "    code = bytes(out[:out_i])\n",
  "    code = bytes(out[:out_i - 1])\n",
  expect='R-C05-post')
