"""Self-test of the checker: apply each corpus edit to a scratch copy of
/repo/pico8 (outside /repo and /verif, deleted right after) and run the
property's rules on it with PV_REPO pointing at the copy.

  sensitivity mutant: the named rule must report a VIOLATION (exit 1)
  neutral twin:       the check must stay at exit 0

Results never change the verdict on /repo; a miss prints SELFTEST-MISS.
usage: python -m pv.selftest.run [Cxx ...] [--jobs N] [--id ID]
"""
import argparse
import ast
import json
import os
import shutil
import subprocess
import sys
import tempfile
from concurrent.futures import ThreadPoolExecutor

from ..core import VERIF
from ..srcmodel import repo_root


def load_corpus():
    from . import mutants
    out = list(mutants.CORPUS) + seeded_corpus()
    for m in out:
        # stacked mutant: an edit on top of a stored refactoring
        if m.get('on') and not m.get('patch'):
            m['patch'] = os.path.join(VERIF, 'seeded', m['on'], 'patch.diff')
    return out


def seeded_corpus():
    """changes written by independent sub-agents, kept under /verif/seeded:
    breaking changes (must be detected by the property's own check) and
    behaviour-preserving refactorings (must stay silent)"""
    out = []
    base = os.path.join(VERIF, 'seeded')
    if not os.path.isdir(base):
        return out
    for d in sorted(os.listdir(base)):
        mp = os.path.join(base, d, 'meta.json')
        pp = os.path.join(base, d, 'patch.diff')
        if not (os.path.exists(mp) and os.path.exists(pp)):
            continue
        with open(mp) as fh:
            meta = json.load(fh)
        if meta.get('kind') == 'neutral':
            for prop in meta.get('run_against', [meta['property']]):
                out.append({'id': '{}@{}'.format(d, prop), 'prop': prop,
                            'patch': pp, 'kind': 'neutral'})
        else:
            out.append({'id': d, 'prop': meta['breaks_property'],
                        'patch': pp, 'kind': 'mutant', 'expect': None})
    return out


def _apply(root, m):
    if m.get('patch'):
        p = subprocess.run(['patch', '-p1', '-s', '-f', '-d', root, '-i',
                            m['patch']], capture_output=True, text=True)
        if p.returncode != 0:
            return 'stale: patch does not apply: ' + (p.stdout +
                                                      p.stderr)[:200]
        if not (m.get('edits') or m.get('file')):
            return None
    edits = m.get('edits') or [(m['file'], m['old'], m['new'])]
    for (rel, old, new) in edits:
        path = os.path.join(root, rel)
        with open(path, encoding='utf-8') as fh:
            src = fh.read()
        if src.count(old) != 1:
            return 'stale: {} occurrences of anchor text in {}'.format(
                src.count(old), rel)
        src = src.replace(old, new)
        try:
            ast.parse(src)
        except SyntaxError as e:
            return 'mutant does not compile: {}'.format(e)
        with open(path, 'w', encoding='utf-8') as fh:
            fh.write(src)
    return None


def run_one(m):
    tmp = tempfile.mkdtemp(prefix='pv-selftest-')
    try:
        shutil.copytree(os.path.join(repo_root(), 'pico8'),
                        os.path.join(tmp, 'pico8'),
                        ignore=shutil.ignore_patterns('__pycache__'))
        err = _apply(tmp, m)
        if err:
            return dict(m, outcome='STALE', detail=err)
        env = dict(os.environ, PV_REPO=tmp, PYTHONDONTWRITEBYTECODE='1',
                   PYTHONHASHSEED='0')
        p = subprocess.run(
            [sys.executable, '-m', 'pv.check', m['prop'], '--no-evidence',
             '--tier', 'quick'],
            cwd=VERIF, env=env, capture_output=True, text=True, timeout=900)
        out = p.stdout
        viol = [ln for ln in out.splitlines()
                if ln.startswith('  violation:')]
        errs = [ln for ln in out.splitlines()
                if ln.startswith('ANALYSIS-ERROR')]
        if m.get('kind', 'mutant') == 'neutral':
            ok = p.returncode == 0
            outcome = 'SILENT' if ok else (
                'FALSE-ALARM' if p.returncode == 1 else 'NOT-FOLLOWED')
        else:
            exp = m.get('expect')
            hit = [v for v in viol if (exp is None or exp in v)]
            if p.returncode == 1 and hit:
                outcome = 'DETECTED'
            elif p.returncode == 1:
                outcome = 'DETECTED-OTHER-RULE'
            elif p.returncode == 2 and m.get('accept_error'):
                outcome = 'DETECTED'     # exit 2: refused to pass silently
            elif p.returncode == 2:
                outcome = 'ANALYSIS-ERROR'
            else:
                outcome = 'MISSED'
        return dict(m, outcome=outcome, rc=p.returncode,
                    detail='; '.join((viol + errs)[:3])[:400])
    finally:
        shutil.rmtree(tmp, ignore_errors=True)


def run(props=None, jobs=16, only=None, quiet=False):
    corpus = [m for m in load_corpus()
              if (not props or m['prop'] in props)
              and (only is None or m['id'] == only)]
    with ThreadPoolExecutor(max_workers=jobs) as ex:
        results = list(ex.map(run_one, corpus))
    summary = {'mutants': 0, 'detected': 0, 'neutral': 0, 'silent': 0,
               'not_followed': 0, 'stale': 0, 'misses': []}
    for r in results:
        kind = r.get('kind', 'mutant')
        if r['outcome'] == 'STALE':
            summary['stale'] += 1
        elif kind == 'neutral':
            summary['neutral'] += 1
            summary['silent'] += int(r['outcome'] == 'SILENT')
            summary['not_followed'] += int(r['outcome'] == 'NOT-FOLLOWED')
        else:
            summary['mutants'] += 1
            summary['detected'] += int(r['outcome'] == 'DETECTED')
        good = r['outcome'] in ('DETECTED', 'SILENT')
        if not good:
            summary['misses'].append(r['id'])
            print('SELFTEST-MISS {} {} {} -- {}'.format(
                r['id'], r['prop'], r['outcome'], r.get('detail', '')))
        elif not quiet:
            print('selftest {} {} {} {}'.format(
                r['id'], r['prop'], r['outcome'], r.get('detail', '')[:160]))
    print('SELFTEST-SUMMARY ' + json.dumps(
        {k: v for k, v in summary.items()}))
    return summary


def run_for_property(prop):
    s = run([prop], quiet=True)
    path = os.path.join(VERIF, 'evidence', prop + '.json')
    if os.path.exists(path):
        with open(path) as fh:
            ev = json.load(fh)
        ev['coverage']['rule_sensitivity'] = s
        with open(path, 'w') as fh:
            json.dump(ev, fh, indent=1, sort_keys=True)
            fh.write('\n')


def main():
    ap = argparse.ArgumentParser()
    ap.add_argument('props', nargs='*')
    ap.add_argument('--jobs', type=int, default=16)
    ap.add_argument('--id')
    a = ap.parse_args()
    s = run([p.upper() for p in a.props] or None, a.jobs, a.id)
    return 0 if not s['misses'] else 3


if __name__ == '__main__':
    sys.exit(main())
