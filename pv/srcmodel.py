"""E1 -- source model of /repo/pico8: modules, imports, classes, MRO,
functions, resolved call graph.  Pure `ast`; nothing from pico8 is imported.
"""
import ast
import os

from .core import AnalysisError, Vanished

PKG = 'pico8'


def repo_root():
    return os.environ.get('PV_REPO', '/repo')


class Module:
    def __init__(self, name, path, src):
        self.name = name
        self.path = path
        self.src = src
        self.tree = ast.parse(src, filename=path)
        self.is_pkg = os.path.basename(path) == '__init__.py'
        self.imports = {}      # alias -> ('module', modname) | ('object', modname, attr)
        self.classes = {}
        self.functions = {}
        for n in ast.walk(self.tree):
            for c in ast.iter_child_nodes(n):
                c._parent = n
        self.tree._parent = None

    @property
    def relpath(self):
        return os.path.relpath(self.path, repo_root())

    def loc(self, node):
        return '{}:{}'.format(self.relpath, getattr(node, 'lineno', 0))

    def segment(self, node):
        return ast.get_source_segment(self.src, node) or ''


class ClassInfo:
    def __init__(self, module, node):
        self.module = module
        self.name = node.name
        self.node = node
        self.bases = []        # ClassInfo or str (external)
        self.methods = {}
        self.assigns = {}      # class-level simple assignments name -> value node

    @property
    def qual(self):
        return '{}:{}'.format(self.module.name, self.name)

    def __repr__(self):
        return '<class {}>'.format(self.qual)


class FuncInfo:
    def __init__(self, module, node, cls=None, outer=None):
        self.module = module
        self.node = node
        self.cls = cls
        self.outer = outer
        self.name = node.name
        if cls is not None:
            self.qualname = cls.name + '.' + node.name
        elif outer is not None:
            self.qualname = outer.qualname + '.<locals>.' + node.name
        else:
            self.qualname = node.name
        self.decorators = [d.id if isinstance(d, ast.Name) else
                           (d.attr if isinstance(d, ast.Attribute) else '?')
                           for d in node.decorator_list]
        if 'setter' in self.decorators:
            self.qualname += '.setter'

    @property
    def qual(self):
        return '{}:{}'.format(self.module.name, self.qualname)

    @property
    def loc(self):
        return self.module.loc(self.node)

    @property
    def is_classmethod(self):
        return 'classmethod' in self.decorators

    @property
    def is_property(self):
        return 'property' in self.decorators or any(
            d == 'setter' for d in self.decorators)

    def params(self):
        a = self.node.args
        return [x.arg for x in a.posonlyargs + a.args]

    def __repr__(self):
        return '<func {}>'.format(self.qual)


class Model:
    def __init__(self, root=None):
        self.root = root or repo_root()
        self.modules = {}
        self.classes = {}      # qual -> ClassInfo
        self.functions = {}    # qual -> FuncInfo
        self._load()
        self._resolve_imports()
        self._index()
        self._callgraph = None
        self.normalise_stats = {}
        self.accessed_modules = set()   # relative paths consulted by rules
        if not os.environ.get('PV_NO_NORMALISE'):
            from . import normalise
            normalise.normalise(self, self.normalise_stats)
            # re-index: statement lists changed
            self.classes = {}
            self.functions = {}
            for m in self.modules.values():
                m.classes = {}
                m.functions = {}
            self._index()
            self._callgraph = None

    # ---- loading -------------------------------------------------------
    def _load(self):
        pkgdir = os.path.join(self.root, PKG)
        if not os.path.isdir(pkgdir):
            raise Vanished('package directory {} not found'.format(pkgdir))
        for dirpath, dirnames, filenames in os.walk(pkgdir):
            dirnames.sort()
            dirnames[:] = [d for d in dirnames if d != '__pycache__']
            for fn in sorted(filenames):
                if not fn.endswith('.py'):
                    continue
                path = os.path.join(dirpath, fn)
                rel = os.path.relpath(path, self.root)[:-3]
                parts = rel.split(os.sep)
                if parts[-1] == '__init__':
                    parts = parts[:-1]
                name = '.'.join(parts)
                with open(path, encoding='utf-8') as fh:
                    src = fh.read()
                try:
                    self.modules[name] = Module(name, path, src)
                except SyntaxError as e:
                    raise AnalysisError('cannot parse {}: {}'.format(path, e))

    def _resolve_imports(self):
        for m in self.modules.values():
            pkg = m.name if m.is_pkg else m.name.rsplit('.', 1)[0]
            for node in ast.walk(m.tree):
                if isinstance(node, ast.Import):
                    for a in node.names:
                        alias = a.asname or a.name.split('.')[0]
                        target = a.name if a.asname else a.name.split('.')[0]
                        m.imports[alias] = ('module', target)
                elif isinstance(node, ast.ImportFrom):
                    base = node.module or ''
                    if node.level:
                        parts = pkg.split('.')
                        if node.level > 1:
                            parts = parts[:-(node.level - 1)]
                        base = '.'.join(parts + ([node.module] if node.module
                                                 else []))
                    for a in node.names:
                        alias = a.asname or a.name
                        full = base + '.' + a.name
                        if full in self.modules:
                            m.imports[alias] = ('module', full)
                        else:
                            m.imports[alias] = ('object', base, a.name)

    def _index(self):
        for m in self.modules.values():
            self._index_body(m, m.tree.body, None, None)
        for c in self.classes.values():
            for b in c.node.bases:
                r = self.resolve_expr(c.module, b)
                if r and r[0] == 'class':
                    c.bases.append(r[1])
                else:
                    c.bases.append(ast.unparse(b))

    def _index_body(self, m, body, cls, outer):
        for node in body:
            if isinstance(node, (ast.FunctionDef, ast.AsyncFunctionDef)):
                f = FuncInfo(m, node, cls, outer)
                self.functions[f.qual] = f
                if cls is not None and outer is None:
                    cls.methods.setdefault(node.name, f)
                    if 'setter' in f.decorators:
                        cls.methods[node.name + '.setter'] = f
                        # keep the getter under the plain name
                elif outer is None:
                    m.functions[node.name] = f
                self._index_nested(m, node.body, f)
            elif isinstance(node, ast.ClassDef):
                c = ClassInfo(m, node)
                if cls is None and outer is None:
                    m.classes[node.name] = c
                self.classes[c.qual if outer is None else
                             '{}:{}.<locals>.{}'.format(
                                 m.name, outer.qualname, node.name)] = c
                self._index_body(m, node.body, c, outer)
            elif isinstance(node, ast.Assign) and cls is not None:
                for t in node.targets:
                    if isinstance(t, ast.Name):
                        cls.assigns[t.id] = node.value
            elif isinstance(node, (ast.If, ast.Try, ast.For, ast.While,
                                   ast.With)):
                for sub in ('body', 'orelse', 'finalbody'):
                    self._index_body(m, getattr(node, sub, []) or [], cls,
                                     outer)
                for h in getattr(node, 'handlers', []) or []:
                    self._index_body(m, h.body, cls, outer)

    def _index_nested(self, m, body, outer):
        for node in body:
            if isinstance(node, (ast.FunctionDef, ast.AsyncFunctionDef)):
                f = FuncInfo(m, node, None, outer)
                self.functions[f.qual] = f
                self._index_nested(m, node.body, f)
            elif isinstance(node, ast.ClassDef):
                c = ClassInfo(m, node)
                self.classes['{}:{}.<locals>.{}'.format(
                    m.name, outer.qualname, node.name)] = c
            else:
                for fld in ('body', 'orelse', 'finalbody'):
                    sub = getattr(node, fld, None)
                    if isinstance(sub, list):
                        self._index_nested(m, sub, outer)
                for h in getattr(node, 'handlers', []) or []:
                    self._index_nested(m, h.body, outer)

    # ---- lookup --------------------------------------------------------
    def module(self, name):
        if name not in self.modules:
            raise Vanished('module {} not found'.format(name))
        self.accessed_modules.add(self.modules[name].relpath)
        return self.modules[name]

    def func(self, qual):
        if qual not in self.functions:
            raise Vanished('function {} not found'.format(qual))
        self.accessed_modules.add(self.functions[qual].module.relpath)
        return self.functions[qual]

    def cls(self, qual):
        if qual not in self.classes:
            raise Vanished('class {} not found'.format(qual))
        self.accessed_modules.add(self.classes[qual].module.relpath)
        return self.classes[qual]

    def has_func(self, qual):
        return qual in self.functions

    def mro(self, cls):
        """C3 is not needed: the package uses single inheritance only."""
        out = []
        seen = set()
        stack = [cls]
        while stack:
            c = stack.pop(0)
            if isinstance(c, str) or c.qual in seen:
                continue
            seen.add(c.qual)
            out.append(c)
            stack = [b for b in c.bases] + stack
        return out

    def subclasses(self, cls):
        return [c for c in self.classes.values()
                if c is not cls and cls in self.mro(c)]

    def lookup_method(self, cls, name, after=None):
        mro = self.mro(cls)
        if after is not None:
            mro = mro[mro.index(after) + 1:]
        for c in mro:
            if name in c.methods:
                self.accessed_modules.add(c.module.relpath)
                return c.methods[name]
        return None

    def resolve_name(self, module, name):
        if name in module.classes:
            return ('class', module.classes[name])
        if name in module.functions:
            return ('func', module.functions[name])
        if name in module.imports:
            imp = module.imports[name]
            if imp[0] == 'module':
                if imp[1] in self.modules:
                    return ('module', self.modules[imp[1]])
                return ('extmodule', imp[1])
            modname, attr = imp[1], imp[2]
            if modname in self.modules:
                return self.resolve_name(self.modules[modname], attr) or \
                    ('const', self.modules[modname], attr)
            return ('extobject', modname, attr)
        for node in module.tree.body:
            if isinstance(node, ast.Assign):
                for t in node.targets:
                    if isinstance(t, ast.Name) and t.id == name:
                        return ('const', module, name)
        return None

    def resolve_expr(self, module, expr):
        """Resolve Name / dotted Attribute to a package entity."""
        if isinstance(expr, ast.Name):
            return self.resolve_name(module, expr.id)
        if isinstance(expr, ast.Attribute):
            base = self.resolve_expr(module, expr.value)
            if base is None:
                return None
            if base[0] == 'module':
                return self.resolve_name(base[1], expr.attr) or \
                    ('const', base[1], expr.attr)
            if base[0] == 'extmodule':
                return ('extobject', base[1], expr.attr)
            if base[0] == 'extobject':
                return ('extobject', base[1] + '.' + base[2], expr.attr)
            if base[0] == 'class':
                f = self.lookup_method(base[1], expr.attr)
                if f is not None:
                    return ('func', f)
                for c in self.mro(base[1]):
                    if expr.attr in c.assigns:
                        return ('classconst', c, expr.attr)
                return None
        return None

    def ext_name(self, module, expr):
        """Dotted name of an external (stdlib) callee, e.g. 'os.path.isfile',
        or a builtin name; None if it is a package entity / unknown."""
        r = self.resolve_expr(module, expr)
        if r is None:
            if isinstance(expr, ast.Name):
                return expr.id       # builtin or local
            return None
        if r[0] == 'extobject':
            return r[1] + '.' + r[2]
        if r[0] == 'extmodule':
            return r[1]
        return None

    # ---- call graph ----------------------------------------------------
    def enclosing_function(self, module, node):
        n = node
        while n is not None:
            n = getattr(n, '_parent', None)
            if isinstance(n, (ast.FunctionDef, ast.AsyncFunctionDef)):
                for f in self.functions.values():
                    if f.node is n:
                        return f
        return None

    def own_nodes(self, fnode):
        """Nodes of a function body excluding nested function/class bodies."""
        out = []
        stack = list(fnode.body)
        while stack:
            n = stack.pop()
            out.append(n)
            if isinstance(n, (ast.FunctionDef, ast.AsyncFunctionDef,
                              ast.ClassDef, ast.Lambda)):
                if n is not fnode:
                    continue
            stack.extend(ast.iter_child_nodes(n))
        return out

    def resolve_call(self, f, call):
        """-> (kind, targets) where targets is a list of FuncInfo / str.
        kinds: 'exact', 'method', 'byname', 'ext', 'class', 'unknown'."""
        m = f.module
        fn = call.func
        if isinstance(fn, ast.Name):
            r = self.resolve_name(m, fn.id)
            if r:
                if r[0] == 'func':
                    return ('exact', [r[1]])
                if r[0] == 'class':
                    init = self.lookup_method(r[1], '__init__')
                    return ('class', [init] if init else [r[1].qual])
                if r[0] == 'extobject':
                    return ('ext', [r[1] + '.' + r[2]])
            # nested function defined in f?
            q = '{}:{}.<locals>.{}'.format(m.name, f.qualname, fn.id)
            if q in self.functions:
                return ('exact', [self.functions[q]])
            return ('ext', [fn.id])
        if isinstance(fn, ast.Attribute):
            r = self.resolve_expr(m, fn)
            if r:
                if r[0] == 'func':
                    return ('exact', [r[1]])
                if r[0] == 'class':
                    init = self.lookup_method(r[1], '__init__')
                    return ('class', [init] if init else [r[1].qual])
                if r[0] == 'extobject':
                    return ('ext', [r[1] + '.' + r[2]])
            v = fn.value
            if isinstance(v, ast.Name) and v.id in ('self', 'cls') and f.cls:
                targets = []
                t = self.lookup_method(f.cls, fn.attr)
                if t:
                    targets.append(t)
                for sc in self.subclasses(f.cls):
                    if fn.attr in sc.methods:
                        targets.append(sc.methods[fn.attr])
                if targets:
                    return ('method', targets)
            if (isinstance(v, ast.Call) and isinstance(v.func, ast.Name)
                    and v.func.id == 'super' and f.cls):
                t = self.lookup_method(f.cls, fn.attr, after=f.cls)
                if t:
                    return ('method', [t])
                return ('ext', ['super().' + fn.attr])
            # class-hierarchy analysis by method name
            cands = [g for g in self.functions.values()
                     if g.cls is not None and g.name == fn.attr]
            if cands:
                return ('byname', cands)
            return ('ext', ['.' + fn.attr])
        return ('unknown', [])

    def callgraph(self):
        if self._callgraph is not None:
            return self._callgraph
        g = {}
        stats = {'calls_total': 0, 'calls_resolved': 0, 'byname': 0,
                 'ext': 0, 'unknown': 0}
        for f in self.functions.values():
            edges = []
            for n in self.own_nodes(f.node):
                if isinstance(n, ast.Call):
                    kind, targets = self.resolve_call(f, n)
                    stats['calls_total'] += 1
                    if kind in ('exact', 'method', 'class'):
                        stats['calls_resolved'] += 1
                    elif kind == 'byname':
                        stats['byname'] += 1
                    elif kind == 'ext':
                        stats['ext'] += 1
                    else:
                        stats['unknown'] += 1
                    edges.append((n, kind, targets))
            g[f.qual] = edges
        self._callgraph = (g, stats)
        return self._callgraph

    def reachable_functions(self, start_quals, follow_byname=True):
        g, _ = self.callgraph()
        seen = set()
        stack = list(start_quals)
        while stack:
            q = stack.pop()
            if q in seen or q not in g:
                continue
            seen.add(q)
            for (_n, kind, targets) in g[q]:
                if kind == 'byname' and not follow_byname:
                    continue
                for t in targets:
                    if isinstance(t, FuncInfo):
                        stack.append(t.qual)
        return seen

    def summary(self):
        _, stats = self.callgraph()
        return {'modules': len(self.modules), 'classes': len(self.classes),
                'functions': len(self.functions), **stats}


# ---- small AST helpers ---------------------------------------------------

def const_str(node):
    if isinstance(node, ast.Constant) and isinstance(node.value, (str, bytes)):
        return node.value
    return None


def dotted(node):
    """'a.b.c' for Name/Attribute chains, else None."""
    parts = []
    while isinstance(node, ast.Attribute):
        parts.append(node.attr)
        node = node.value
    if isinstance(node, ast.Name):
        parts.append(node.id)
        return '.'.join(reversed(parts))
    return None


def walk_own(node):
    """ast.walk that does not descend into nested defs/lambdas/classes."""
    stack = [node]
    first = True
    while stack:
        n = stack.pop()
        if not first and isinstance(n, (ast.FunctionDef, ast.AsyncFunctionDef,
                                        ast.ClassDef, ast.Lambda)):
            continue
        first = False
        yield n
        stack.extend(ast.iter_child_nodes(n))


def calls_in(node):
    return [n for n in walk_own(node) if isinstance(n, ast.Call)]


def names_in(node):
    return {n.id for n in walk_own(node) if isinstance(n, ast.Name)}


def kwarg(call, name, pos=None):
    for k in call.keywords:
        if k.arg == name:
            return k.value
    if pos is not None and len(call.args) > pos:
        a = call.args[pos]
        if not isinstance(a, ast.Starred):
            return a
    return None
