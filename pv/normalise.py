"""Source normalisation (applied to the parsed package before any rule runs).

The rules recognise constructs of /repo by their structure.  Refactorings that
do not change behaviour must not change what the rules see, so every module is
first brought into one normal form by a small set of semantics-preserving
rewrites -- the inverse of the usual clean-up refactorings:

  N1  uses of named constants (module / class level names bound once to a
      literal, a tuple of literals or re.compile(<literal>)) are replaced by
      the defining expression
  N2  alias locals (v = self.attr / v = <global> / v = len(param), bound once
      at the top level of the function, the aliased storage never re-bound in
      the function) are replaced by what they alias
  N3  calls of small package helpers are inlined: a straight-line pure helper
      (assignments + `return <expr>`, or if/return chains) becomes an
      expression; a helper called as a statement, as `x = helper(..)`, or via
      `yield from helper(..)` whose body has its only `return` at the end is
      spliced into the caller with its locals renamed
  N5  a `for` over a NEW literal table (tuple of rows) is unrolled
  N6  a NEW single-use temporary is replaced by its defining expression
  N4  `yield from E`                -> `for _y in E: yield _y`
      `isinstance(x, (A, B))`       -> `isinstance(x, A) or isinstance(x, B)`
      `x.matches(Cls)`              -> `isinstance(x, Cls)`   (Cls a class)
      `s.startswith((a, b))`        -> `s.startswith(a) or s.startswith(b)`

Definitions stay where they are (consteval still finds every constant by
name); only uses inside function bodies are rewritten.  Line numbers of the
original call / use sites are kept on the rewritten nodes.
"""
import ast

from .astutil import clone
import copy

import json
import os

MAX_HELPER_STMTS = 30
ROUNDS = 3


def load_baseline():
    """names of the pinned tree (tools/gen_baseline_names.py): the rewrites
    N1-N3 only undo what is new relative to it"""
    path = os.path.join(os.path.dirname(os.path.abspath(__file__)), 'refs',
                        'baseline_names.json')
    try:
        with open(path) as fh:
            d = json.load(fh)
    except OSError:
        return {'functions': set(), 'module_constants': set(),
                'class_constants': set(), 'locals': {}}
    return {'functions': set(d['functions']),
            'module_constants': {tuple(x) for x in d['module_constants']},
            'class_constants': {tuple(x) for x in d['class_constants']},
            'locals': {k: set(v) for k, v in d['locals'].items()}}


def _is_simple_literal(e, budget=24):
    if isinstance(e, ast.Constant):
        return isinstance(e.value, (bytes, str, int, float, bool)) or \
            e.value is None
    if isinstance(e, ast.Tuple):
        return len(e.elts) <= budget and all(
            _is_simple_literal(x, budget) or _is_dotted(x) for x in e.elts)
    if isinstance(e, ast.UnaryOp) and isinstance(e.op, ast.USub):
        return _is_simple_literal(e.operand)
    if isinstance(e, ast.BinOp) and isinstance(
            e.op, (ast.Add, ast.Sub, ast.Mult, ast.LShift, ast.BitOr)):
        return _is_num(e.left) and _is_num(e.right)
    return False


def _is_dotted(e):
    """module.Class / Class: a reference to a module-level object"""
    while isinstance(e, ast.Attribute):
        e = e.value
    return isinstance(e, ast.Name)


def _is_num(e):
    if isinstance(e, ast.Constant):
        return isinstance(e.value, int) and not isinstance(e.value, bool)
    if isinstance(e, ast.BinOp):
        return _is_num(e.left) and _is_num(e.right)
    return False


def _compiled_regex(e):
    """re.compile(<literal>[, flags]) -> (pattern node, flags node|None)"""
    if isinstance(e, ast.Call) and isinstance(e.func, ast.Attribute) and \
            e.func.attr == 'compile' and isinstance(e.func.value, ast.Name) \
            and e.func.value.id == 're' and e.args and \
            isinstance(e.args[0], ast.Constant) and \
            isinstance(e.args[0].value, (bytes, str)):
        flags = e.args[1] if len(e.args) > 1 else next(
            (k.value for k in e.keywords if k.arg == 'flags'), None)
        return e.args[0], flags
    return None


def _looks_constant_name(name):
    n = name.lstrip('_')
    return bool(n) and n.upper() == n and any(c.isalpha() for c in n)


class ConstTable:
    """named constants of the package: (module, name) and (class qual, name)"""

    def __init__(self, model, baseline=None):
        self.model = model
        self.mod = {}          # (modname, name) -> value node
        self.cls = {}          # (class qual, name) -> value node
        baseline = baseline or {'module_constants': set(),
                                'class_constants': set()}
        for m in model.modules.values():
            counts = {}
            for st in m.tree.body:
                for t in self._targets(st):
                    counts[t] = counts.get(t, 0) + 1
            for st in m.tree.body:
                if isinstance(st, ast.Assign) and len(st.targets) == 1 and \
                        isinstance(st.targets[0], ast.Name):
                    nm = st.targets[0].id
                    if counts.get(nm) == 1 and _looks_constant_name(nm) and (
                            _is_simple_literal(st.value) or
                            _compiled_regex(st.value)) and \
                            (m.name, nm) not in baseline['module_constants']:
                        self.mod[(m.name, nm)] = st.value
        for c in model.classes.values():
            counts = {}
            for st in c.node.body:
                for t in self._targets(st):
                    counts[t] = counts.get(t, 0) + 1
            for st in c.node.body:
                if isinstance(st, ast.Assign) and len(st.targets) == 1 and \
                        isinstance(st.targets[0], ast.Name):
                    nm = st.targets[0].id
                    if counts.get(nm) == 1 and _looks_constant_name(nm) and (
                            _is_simple_literal(st.value) or
                            _compiled_regex(st.value)) and \
                            (c.qual, nm) not in baseline['class_constants']:
                        self.cls[(c.qual, nm)] = st.value

    @staticmethod
    def _targets(st):
        out = []
        if isinstance(st, (ast.Assign, ast.AugAssign, ast.AnnAssign)):
            tg = st.targets if isinstance(st, ast.Assign) else [st.target]
            for t in tg:
                for x in ast.walk(t):
                    if isinstance(x, ast.Name):
                        out.append(x.id)
        return out

    def lookup(self, f, e, local_names):
        """value node of the constant the expression names, or None"""
        model = self.model
        if isinstance(e, ast.Name):
            if e.id in local_names:
                return None
            r = model.resolve_name(f.module, e.id)
            if r and r[0] == 'const':
                return self.mod.get((r[1].name, r[2]))
            return None
        if isinstance(e, ast.Attribute) and isinstance(e.value, ast.Name):
            base = e.value.id
            if base in ('self', 'cls') and f.cls is not None and \
                    base not in local_names - {'self', 'cls'}:
                for c in model.mro(f.cls):
                    if (c.qual, e.attr) in self.cls:
                        return self.cls[(c.qual, e.attr)]
                    if e.attr in c.assigns or e.attr in c.methods:
                        return None
                return None
            if base in local_names:
                return None
            r = model.resolve_name(f.module, base)
            if r and r[0] == 'module':
                mname = r[1] if isinstance(r[1], str) else getattr(
                    r[1], 'name', None)
                if mname in model.modules:
                    return self.mod.get((mname, e.attr))
            if r and r[0] == 'class':
                for c in model.mro(r[1]):
                    if (c.qual, e.attr) in self.cls:
                        return self.cls[(c.qual, e.attr)]
                    if e.attr in c.assigns or e.attr in c.methods:
                        return None
        return None


def _local_names(fnode):
    out = set()
    a = fnode.args
    for x in a.args + a.kwonlyargs + a.posonlyargs:
        out.add(x.arg)
    if a.vararg:
        out.add(a.vararg.arg)
    if a.kwarg:
        out.add(a.kwarg.arg)
    for n in ast.walk(fnode):
        if isinstance(n, ast.Name) and isinstance(n.ctx, (ast.Store,
                                                          ast.Del)):
            out.add(n.id)
        elif isinstance(n, (ast.Import, ast.ImportFrom)):
            for al in n.names:
                out.add((al.asname or al.name).split('.')[0])
        elif isinstance(n, ast.ExceptHandler) and n.name:
            out.add(n.name)
    return out


def _own_walk(node):
    """walk without descending into nested function / class definitions"""
    stack = [node]
    while stack:
        n = stack.pop()
        yield n
        for c in ast.iter_child_nodes(n):
            if isinstance(c, (ast.FunctionDef, ast.AsyncFunctionDef,
                              ast.ClassDef, ast.Lambda)) and c is not node:
                continue
            stack.append(c)


_RE_FUNCS = ('match', 'search', 'fullmatch', 'sub', 'subn', 'split',
             'findall', 'finditer')


class _N1(ast.NodeTransformer):
    """constant inlining inside one function"""

    def __init__(self, consts, f, local_names):
        self.consts = consts
        self.f = f
        self.local = local_names
        self.changed = False

    def visit_FunctionDef(self, n):
        if n is self.f.node:
            return self.generic_visit(n)
        return n

    visit_AsyncFunctionDef = visit_FunctionDef

    def visit_ClassDef(self, n):
        return n

    def visit_Lambda(self, n):
        return n

    def _const(self, n):
        if not isinstance(getattr(n, 'ctx', None), ast.Load):
            return None
        v = self.consts.lookup(self.f, n, self.local)
        if v is None:
            return None
        self.changed = True
        r = clone(v)
        for x in ast.walk(r):
            ast.copy_location(x, n)
        r._pv_new = True
        return r

    def visit_Name(self, n):
        r = self._const(n)
        return r if r is not None else n

    def visit_Attribute(self, n):
        r = self._const(n)
        if r is not None:
            return r
        return self.generic_visit(n)


def _alias_like(e, params, depth=0):
    if depth == 0 and _is_simple_literal(e):
        return True                    # a hoisted literal
    if isinstance(e, ast.Name):
        return True
    if isinstance(e, ast.Attribute):
        return _alias_like(e.value, params, depth + 1)
    if depth == 0 and isinstance(e, ast.Call) and \
            isinstance(e.func, ast.Name) and e.func.id == 'len' and \
            len(e.args) == 1 and not e.keywords and \
            isinstance(e.args[0], ast.Name):
        return True
    return False


def _root_path(e):
    """('self', '_data') for self._data.x ...; ('name',) for a bare name"""
    parts = []
    while isinstance(e, ast.Attribute):
        parts.append(e.attr)
        e = e.value
    if isinstance(e, ast.Name):
        parts.append(e.id)
        return tuple(reversed(parts))
    return None


_REBOUND_ATTRS = [None]


def rebound_attrs(model):
    """attribute names that some function other than an __init__ assigns
    (self.x = ..., obj.x += ...): an alias of such an attribute may go stale"""
    if _REBOUND_ATTRS[0] is None or _REBOUND_ATTRS[0][0] is not model:
        out = set()
        for f in model.functions.values():
            if f.name == '__init__':
                continue
            for n in ast.walk(f.node):
                if isinstance(n, ast.Attribute) and isinstance(
                        n.ctx, (ast.Store, ast.Del)):
                    out.add(n.attr)
        _REBOUND_ATTRS[0] = (model, out)
    return _REBOUND_ATTRS[0][1]


def n2_alias_locals(fnode, keep=(), rebound=()):
    """-> True when something was rewritten; names in `keep` (the locals the
    function has in the pinned tree) are left alone"""
    params = {a.arg for a in fnode.args.args + fnode.args.kwonlyargs +
              fnode.args.posonlyargs}
    stores = {}
    attr_stores = set()
    for n in _own_walk(fnode):
        if isinstance(n, ast.Name) and isinstance(n.ctx, (ast.Store,
                                                          ast.Del)):
            stores[n.id] = stores.get(n.id, 0) + 1
        elif isinstance(n, ast.Attribute) and isinstance(
                n.ctx, (ast.Store, ast.Del)):
            p = _root_path(n)
            if p:
                attr_stores.add(p)
        elif isinstance(n, (ast.Global, ast.Nonlocal)):
            for nm in n.names:
                stores[nm] = stores.get(nm, 0) + 5
    # candidates: top-level statements `v = <alias-like>`
    cands = {}
    for i, st in enumerate(fnode.body):
        if isinstance(st, ast.Assign) and len(st.targets) == 1 and \
                isinstance(st.targets[0], ast.Name):
            v = st.targets[0].id
            if stores.get(v) != 1 or v in params or v in keep:
                continue
            e = st.value
            if not _alias_like(e, params):
                continue
            if _is_simple_literal(e):
                cands[v] = (st, e)
                continue
            src = e.args[0] if isinstance(e, ast.Call) else e
            p = _root_path(src)
            if p is None:
                continue
            # the aliased storage must not be re-bound in this function
            if len(p) == 1:
                if stores.get(p[0], 0) > (1 if p[0] in () else 0) and \
                        p[0] not in params:
                    continue
                if p[0] in params and stores.get(p[0], 0) > 0:
                    continue
                if isinstance(e, ast.Name) and p[0] not in params:
                    # global / module object alias: fine when never stored
                    if stores.get(p[0], 0) > 0:
                        continue
            else:
                if any(q[:len(p)] == p or p[:len(q)] == q
                       for q in attr_stores):
                    continue
                if any(a in rebound for a in p[1:]):
                    continue              # e.g. a cursor other methods move
                if stores.get(p[0], 0) > 0 and p[0] not in params:
                    continue
                if p[0] in params and stores.get(p[0], 0) > 0:
                    continue
            # every use comes after the binding statement
            uses_before = False
            for j, st2 in enumerate(fnode.body[:i]):
                for x in ast.walk(st2):
                    if isinstance(x, ast.Name) and x.id == v:
                        uses_before = True
            if uses_before:
                continue
            cands[v] = (st, e)
    if not cands:
        return False

    class T(ast.NodeTransformer):
        def visit_Name(self, n):
            if isinstance(n.ctx, ast.Load) and n.id in cands:
                r = clone(cands[n.id][1])
                for x in ast.walk(r):
                    ast.copy_location(x, n)
                return r
            return n

        def visit_FunctionDef(self, n):
            if n is fnode:
                return self.generic_visit(n)
            # nested functions may read the local: rewrite there too
            return self.generic_visit(n)
    drop = {id(st) for (st, _e) in cands.values()}
    fnode.body = [st for st in fnode.body if id(st) not in drop] or \
        [ast.Pass()]
    # aliases may refer to each other: substitute repeatedly
    for _ in range(3):
        T().visit(fnode)
        for v, (st, e) in list(cands.items()):
            cands[v] = (st, T().visit(clone(e)))
    return True



_MULTI = ast.Constant(value='<several returns in tail position>')


def _always_returns(stmts):
    if not stmts:
        return False
    last = stmts[-1]
    if isinstance(last, ast.Return):
        return True
    if isinstance(last, ast.If):
        return _always_returns(last.body) and _always_returns(last.orelse)
    return False


def _has_return(stmts):
    return any(isinstance(x, ast.Return) for st in stmts
               for x in _own_walk(st))


def _tail_returns(stmts):
    """`S; if c: return A` / `T; return B`  ->  `S; if c: return A` /
    `else: T; return B`: an equivalent body in which every `return` is the
    last statement executed (only `if` nests them); None when a return sits
    in a loop, a `try` or a `with`, or the body can fall off its end"""
    out = []
    for k, st in enumerate(stmts):
        if isinstance(st, ast.Return):
            if st.value is None:
                return None
            out.append(st)
            return out
        if not _has_return([st]):
            out.append(st)
            continue
        if not isinstance(st, ast.If):
            return None
        rest = list(stmts[k + 1:])
        b_ret, o_ret = _always_returns(st.body), _always_returns(st.orelse)
        if b_ret and o_ret:
            body, orelse = _tail_returns(st.body), _tail_returns(st.orelse)
        elif b_ret and not _has_return(st.orelse):
            body = _tail_returns(st.body)
            orelse = _tail_returns(list(st.orelse) + rest)
        elif o_ret and not _has_return(st.body):
            body = _tail_returns(list(st.body) + rest)
            orelse = _tail_returns(st.orelse)
        else:
            return None
        if body is None or orelse is None:
            return None
        out.append(ast.copy_location(
            ast.If(test=st.test, body=body, orelse=orelse), st))
        return out
    return None


# ------------------------------------------------------------------ N2b -------

_PURE_BUILTINS = {'len', 'range', 'enumerate', 'isinstance', 'bytes', 'int',
                  'min', 'max', 'ord', 'chr', 'bool', 'abs'}


def _name_occ(node, name):
    return [x for x in ast.walk(node)
            if isinstance(x, ast.Name) and x.id == name]


def _outer_refs(node, name):
    """Name nodes of `node` that refer to the enclosing function's variable
    `name` (a comprehension that binds the name itself hides it)"""
    out = []

    def rec(n):
        if isinstance(n, (ast.ListComp, ast.SetComp, ast.GeneratorExp,
                          ast.DictComp)):
            binds = any(isinstance(x, ast.Name) and x.id == name
                        for g in n.generators for x in ast.walk(g.target))
            if binds:
                rec(n.generators[0].iter)
                return
        if isinstance(n, ast.Name) and n.id == name:
            out.append(n)
        for c in ast.iter_child_nodes(n):
            rec(c)
    rec(node)
    return out


def _node_parts(n):
    """the expressions a CFG node evaluates"""
    if n.ast is None:
        return []
    if n.kind == 'iter':
        return [n.ast.iter, n.ast.target]
    if n.kind == 'with':
        return list(n.ast.items)
    if n.kind == 'handler':
        return [n.ast.type] if n.ast.type is not None else []
    if n.kind == 'except':
        return []
    return [n.ast]


def _dead_after(graph, st, var):
    """True when, on every CFG path leaving statement `st`, `var` is re-bound
    before it is read (or the function ends)"""
    starts = [n for n in graph.nodes if n.stmt is st and n.ast is st]
    if not starts:
        return False
    seen = set()
    stack = [m for n in starts for (m, _l) in n.succ]
    while stack:
        n = stack.pop()
        if n.id in seen:
            continue
        seen.add(n.id)
        loads = stores = False
        for part in _node_parts(n):
            if isinstance(n.ast, ast.AugAssign) and isinstance(
                    n.ast.target, ast.Name) and n.ast.target.id == var:
                loads = True
            for x in _outer_refs(part, var):
                if isinstance(x.ctx, ast.Load):
                    loads = True
                else:
                    stores = True
        if n.kind == 'handler' and n.ast is not None and \
                getattr(n.ast, 'name', None) == var:
            stores = True
        if loads:
            return False
        if stores:
            continue
        stack.extend(m for (m, _l) in n.succ)
    return True


def n2b_rename_copies(fnode, keep=()):
    """a NEW local that only carries a value into or out of a run of
    statements (what splicing a helper with an assigned parameter or a
    result variable leaves):

      T = V; ..T..            (V dead afterwards, not mentioned in the run)
                                                   -> ..V..
      T = E; ..T..; V = T     (V not mentioned in the run)
                                                   -> V = E; ..V..
      T = o.a; ..T..; o.a = T (no call and no .a in the run)
                                                   -> ..o.a..
    """
    params = {a.arg for a in fnode.args.args + fnode.args.kwonlyargs +
              fnode.args.posonlyargs}
    if fnode.args.vararg:
        params.add(fnode.args.vararg.arg)
    if fnode.args.kwarg:
        params.add(fnode.args.kwarg.arg)
    # names mentioned by nested scopes are left alone
    nested = set()
    for x in ast.walk(fnode):
        if x is not fnode and isinstance(
                x, (ast.FunctionDef, ast.AsyncFunctionDef, ast.Lambda,
                    ast.ClassDef)):
            for y in ast.walk(x):
                if isinstance(y, ast.Name):
                    nested.add(y.id)
        elif isinstance(x, (ast.Global, ast.Nonlocal)):
            nested.update(x.names)
    graph = [None]
    locals_f = _local_names(fnode) | params

    def cfg():
        if graph[0] is None:
            from . import cfg as _cfg
            try:
                graph[0] = _cfg.CFG(fnode)
            except Exception:
                graph[0] = False
        return graph[0]

    def is_new(nm):
        return nm not in keep and nm not in params and nm not in nested

    def total(nm):
        return len(_name_occ(fnode, nm))

    def rename(stmts, old, new_expr):
        class R(ast.NodeTransformer):
            def visit_Name(self, n):
                if n.id != old:
                    return n
                r = clone(new_expr)
                for x in ast.walk(r):
                    ast.copy_location(x, n)
                r.ctx = type(n.ctx)()
                return r
        return [R().visit(st) for st in stmts]

    def split_tuples(stmts):
        out, ch = [], False
        for st in stmts:
            if isinstance(st, ast.Assign) and len(st.targets) == 1 and \
                    isinstance(st.targets[0], ast.Tuple) and \
                    isinstance(st.value, ast.Tuple) and \
                    len(st.targets[0].elts) == len(st.value.elts) and \
                    all(isinstance(v, ast.Name) and is_new(v.id)
                        for v in st.value.elts) and \
                    len({v.id for v in st.value.elts}) == len(
                        st.value.elts) and \
                    all(isinstance(t, (ast.Name, ast.Attribute)) and not any(
                        isinstance(x, ast.Name) and
                        x.id in {v.id for v in st.value.elts}
                        for x in ast.walk(t)) for t in st.targets[0].elts):
                for t, v in zip(st.targets[0].elts, st.value.elts):
                    out.append(ast.copy_location(
                        ast.Assign(targets=[t], value=v), st))
                ch = True
            else:
                out.append(st)
        return out, ch

    def try_list(stmts):
        stmts, ch = split_tuples(stmts)
        if ch:
            return stmts, True
        for i, st in enumerate(stmts):
            if not (isinstance(st, ast.Assign) and len(st.targets) == 1
                    and isinstance(st.targets[0], ast.Name)):
                continue
            t = st.targets[0].id
            if not is_new(t):
                continue
            occ_after = sum(len(_name_occ(s2, t)) for s2 in stmts[i + 1:])
            if occ_after + 1 != total(t) or occ_after == 0:
                continue
            last = max(k for k in range(i + 1, len(stmts))
                       if _name_occ(stmts[k], t))
            # ---- result copy  V = T  /  o.a = T
            fin = stmts[last]
            if isinstance(fin, ast.Assign) and len(fin.targets) == 1 and \
                    isinstance(fin.value, ast.Name) and fin.value.id == t \
                    and len(_name_occ(fin, t)) == 1:
                tgt = fin.targets[0]
                run = stmts[i + 1:last]
                if isinstance(tgt, ast.Name) and tgt.id != t and \
                        tgt.id not in nested and \
                        not any(_name_occ(s2, tgt.id) for s2 in run) and \
                        not _handler_reads(fnode, tgt.id):
                    new = rename(stmts[i:last], t, ast.Name(id=tgt.id,
                                                          ctx=ast.Load()))
                    return stmts[:i] + new + stmts[last + 1:], True
                if isinstance(tgt, ast.Attribute) and _pure_path(tgt) and \
                        isinstance(st.value, ast.Attribute) and \
                        ast.dump(_as_load(st.value)) == ast.dump(
                            _as_load(tgt)) and \
                        _quiet(run, tgt.attr):
                    new = rename(run, t, _as_load(tgt))
                    return stmts[:i] + new + stmts[last + 1:], True
            # ---- T = E; ..T..; V = g(..T..)   (V not mentioned before)
            fin = stmts[last]
            if isinstance(fin, ast.Assign) and len(fin.targets) == 1 and \
                    isinstance(fin.targets[0], ast.Name) and \
                    fin.targets[0].id != t and \
                    _name_occ(fin.value, t) and \
                    not _name_occ(fin.value, fin.targets[0].id) and \
                    sum(1 for x in _name_occ(fnode, t)
                        if isinstance(x.ctx, ast.Store)) >= 2:
                # (a temporary bound once is the single-use inliner's job)
                v = fin.targets[0].id
                if v not in nested and \
                        not any(_name_occ(s2, v) for s2 in stmts[i:last]) \
                        and not _handler_reads(fnode, v) and \
                        occ_after == sum(len(_name_occ(s2, t))
                                         for s2 in stmts[i + 1:last + 1]):
                    new = rename(stmts[i:last + 1], t,
                                 ast.Name(id=v, ctx=ast.Load()))
                    return stmts[:i] + new + stmts[last + 1:], True
            # ---- entry copy  T = V
            if isinstance(st.value, ast.Name) and st.value.id != t:
                v = st.value.id
                run = stmts[i + 1:last + 1]
                g = cfg()
                fin = stmts[last]
                # the run's last statement may re-bind V from a value that
                # reads T:  V = f(T)
                fin_ok = not _name_occ(fin, v) or (
                    isinstance(fin, ast.Assign) and len(fin.targets) == 1
                    and isinstance(fin.targets[0], ast.Name) and
                    fin.targets[0].id == v and
                    not _name_occ(fin.value, v))
                if v not in nested and v in locals_f and g and fin_ok and \
                        not any(_name_occ(s2, v) for s2 in run[:-1]) and \
                        _dead_after(g, st, v):
                    new = rename(run, t, ast.Name(id=v, ctx=ast.Load()))
                    return stmts[:i] + new + stmts[last + 1:], True
        return stmts, False

    changed = [False]

    def do_list(stmts):
        for st in stmts:
            if isinstance(st, (ast.FunctionDef, ast.AsyncFunctionDef,
                               ast.ClassDef)):
                continue
            for fld in ('body', 'orelse', 'finalbody'):
                sub = getattr(st, fld, None)
                if isinstance(sub, list):
                    setattr(st, fld, do_list(sub))
            for hd in getattr(st, 'handlers', []) or []:
                hd.body = do_list(hd.body)
        guard = 0
        while guard < 10:
            guard += 1
            stmts, ch = try_list(stmts)
            if not ch:
                break
            changed[0] = True
            graph[0] = None
        return stmts
    fnode.body = do_list(fnode.body)
    return changed[0]


def _as_load(e):
    r = clone(e)
    r.ctx = ast.Load()
    return r


def _pure_path(e):
    while isinstance(e, ast.Attribute):
        e = e.value
    return isinstance(e, ast.Name)


def _quiet(run, attr):
    """no call (other than pure builtins) and no `.attr` in the statements"""
    for st in run:
        for x in ast.walk(st):
            if isinstance(x, ast.Attribute) and x.attr == attr:
                return False
            if isinstance(x, ast.Call) and not (
                    isinstance(x.func, ast.Name) and
                    x.func.id in _PURE_BUILTINS):
                return False
            if isinstance(x, (ast.Yield, ast.YieldFrom, ast.Await,
                              ast.Return, ast.Raise)):
                return False
    return True


def _handler_reads(fnode, name):
    for x in ast.walk(fnode):
        if isinstance(x, ast.Try):
            for part in list(x.handlers) + list(x.finalbody):
                for y in ast.walk(part):
                    if isinstance(y, ast.Name) and y.id == name and \
                            isinstance(y.ctx, ast.Load):
                        return True
    return False

# ------------------------------------------------------------------ N3 --------

def _is_generator(fnode):
    return any(isinstance(x, (ast.Yield, ast.YieldFrom))
               for x in _own_walk(fnode))


def _doc_stripped(body):
    if body and isinstance(body[0], ast.Expr) and \
            isinstance(body[0].value, ast.Constant) and \
            isinstance(body[0].value.value, str):
        return body[1:]
    return body


def _simple_params(t, call, model):
    """param name -> argument expr, or None when the call cannot be bound
    positionally/keyword-wise without *args/**kwargs"""
    a = t.node.args
    if a.vararg or a.kwarg or a.kwonlyargs or a.posonlyargs:
        return None
    names = [x.arg for x in a.args]
    static = any(isinstance(d, ast.Name) and d.id == 'staticmethod'
                 for d in t.node.decorator_list)
    clsm = any(isinstance(d, ast.Name) and d.id == 'classmethod'
               for d in t.node.decorator_list)
    if any(isinstance(d, ast.Name) and d.id == 'property' or
           isinstance(d, ast.Attribute) for d in t.node.decorator_list):
        return None
    env = {}
    if t.cls is not None and not static:
        if not isinstance(call.func, ast.Attribute):
            return None
        recv = call.func.value
        if not isinstance(recv, ast.Name):
            return None
        if clsm:
            env[names[0]] = recv
        else:
            if recv.id not in ('self',):
                return None
            env[names[0]] = recv
        names = names[1:]
    defaults = dict(zip(names[len(names) - len(a.defaults):], a.defaults))
    if any(isinstance(x, ast.Starred) for x in call.args) or \
            len(call.args) > len(names):
        return None
    for i, arg in enumerate(call.args):
        env[names[i]] = arg
    for k in call.keywords:
        if k.arg is None or k.arg not in names or k.arg in env:
            return None
        env[k.arg] = k.value
    for n in names:
        if n not in env:
            if n not in defaults:
                return None
            env[n] = defaults[n]
    return env


def _pure_expr(e):
    for x in ast.walk(e):
        if isinstance(x, (ast.Yield, ast.YieldFrom, ast.Await,
                          ast.NamedExpr)):
            return False
        if isinstance(x, ast.Call):
            f = x.func
            if isinstance(f, ast.Attribute) and f.attr in (
                    'append', 'extend', 'pop', 'write', 'add', 'clear',
                    'update', 'remove', 'insert', 'seek', 'read',
                    'readline', 'close', 'setdefault'):
                return False
    return True


def _arg_is_trivial(e):
    return isinstance(e, (ast.Name, ast.Constant)) or (
        isinstance(e, ast.Attribute) and _arg_is_trivial(e.value))


def _expr_form(t):
    """straight-line pure helper -> (assignments [(name, expr)], return expr)
    supporting   [assign]* (if test: return a)* return b"""
    if _is_generator(t.node):
        return None
    body = _doc_stripped(t.node.body)
    if not body or len(body) > 12:
        return None
    assigns = []
    i = 0
    while i < len(body) and isinstance(body[i], ast.Assign) and \
            len(body[i].targets) == 1 and \
            isinstance(body[i].targets[0], ast.Name):
        if not _pure_expr(body[i].value):
            return None
        assigns.append((body[i].targets[0].id, body[i].value))
        i += 1
    names = [n for (n, _v) in assigns]
    if len(set(names)) != len(names):
        return None
    rest = body[i:]
    if not rest:
        return None
    chain = []
    for st in rest[:-1]:
        if isinstance(st, ast.If) and not st.orelse and len(st.body) == 1 \
                and isinstance(st.body[0], ast.Return) and \
                st.body[0].value is not None and _pure_expr(st.test) and \
                _pure_expr(st.body[0].value):
            chain.append((st.test, st.body[0].value))
        else:
            return None
    last = rest[-1]
    if isinstance(last, ast.Return) and last.value is not None and \
            _pure_expr(last.value):
        out = last.value
    elif isinstance(last, ast.If) and len(last.body) == 1 and \
            isinstance(last.body[0], ast.Return) and \
            len(last.orelse) == 1 and \
            isinstance(last.orelse[0], ast.Return) and \
            last.body[0].value is not None and \
            last.orelse[0].value is not None and _pure_expr(last.test):
        out = ast.IfExp(test=last.test, body=last.body[0].value,
                        orelse=last.orelse[0].value)
    else:
        return None
    for (test, val) in reversed(chain):
        out = ast.IfExp(test=test, body=val, orelse=out)
    return assigns, out


def _subst(e, env):
    class T(ast.NodeTransformer):
        def visit_Name(self, n):
            if isinstance(n.ctx, ast.Load) and n.id in env:
                return clone(env[n.id])
            return n

        def visit_Lambda(self, n):
            return n
    return T().visit(clone(e))


def _count_uses(e, name):
    return sum(1 for x in ast.walk(e)
               if isinstance(x, ast.Name) and x.id == name)


class Inliner:
    def __init__(self, model, baseline_functions=()):
        self.model = model
        self.counter = 0
        self.baseline_functions = baseline_functions

    def resolve(self, f, call):
        """the single package function a call resolves to, or None"""
        try:
            kind, targets = self.model.resolve_call(f, call)
        except Exception:
            return None
        if kind not in ('exact', 'method') or len(targets) != 1:
            return None
        t = targets[0]
        from .srcmodel import FuncInfo
        if not isinstance(t, FuncInfo) or t is f:
            return None
        if t.qual in self.baseline_functions:
            return None          # part of the pinned tree: analysed by name
        # methods: only when no subclass overrides it (virtual dispatch)
        if t.cls is not None and kind == 'method':
            for sub in self.model.subclasses(t.cls):
                if t.name in sub.methods and sub.methods[t.name] is not t:
                    return None
        if f.cls is not None and t.cls is not None and \
                isinstance(call.func, ast.Attribute) and \
                isinstance(call.func.value, ast.Name) and \
                call.func.value.id == 'self':
            # self.m() inside class C resolves through the MRO of the
            # RUNTIME class: inline only when no subclass of f's class
            # overrides m
            for sub in self.model.subclasses(f.cls):
                m = sub.methods.get(t.name)
                if m is not None and m is not t:
                    return None
        if len(t.node.body) > MAX_HELPER_STMTS:
            return None
        if any(isinstance(x, (ast.FunctionDef, ast.ClassDef, ast.Lambda,
                              ast.Global, ast.Nonlocal, ast.Try))
               for x in _own_walk(t.node) if x is not t.node):
            return None
        # recursion guard
        for x in _own_walk(t.node):
            if isinstance(x, ast.Call):
                nm = x.func.attr if isinstance(x.func, ast.Attribute) else (
                    x.func.id if isinstance(x.func, ast.Name) else None)
                if nm == t.name:
                    return None
        if t.decorators and any(d not in ('staticmethod', 'classmethod')
                                for d in t.decorators):
            return None
        return t

    # -- expression inlining --------------------------------------------------
    def inline_exprs(self, f):
        outer = self
        changed = [False]

        class T(ast.NodeTransformer):
            def visit_FunctionDef(self, n):
                if n is f.node:
                    return self.generic_visit(n)
                return n

            visit_AsyncFunctionDef = visit_FunctionDef

            def visit_ClassDef(self, n):
                return n

            def visit_Lambda(self, n):
                return n

            def visit_Call(self, n):
                n = self.generic_visit(n)
                t = outer.resolve(f, n)
                if t is None:
                    return n
                form = _expr_form(t)
                if form is None:
                    return n
                env = _simple_params(t, n, outer.model)
                if env is None:
                    return n
                assigns, out = form
                # an argument used several times must be trivial or pure
                body_exprs = [v for (_n, v) in assigns] + [out]
                for p, arg in env.items():
                    uses = sum(_count_uses(b, p) for b in body_exprs)
                    if uses > 1 and not (_arg_is_trivial(arg) or
                                         _pure_expr(arg)):
                        return n
                    if not _pure_expr(arg) and uses == 0:
                        return n
                # names of other modules used by the helper must mean the
                # same thing at the call site: require the same module or
                # names that resolve identically
                if t.module is not f.module:
                    for b in body_exprs:
                        for x in ast.walk(b):
                            if isinstance(x, ast.Name) and x.id not in env \
                                    and x.id not in dict(assigns):
                                r1 = outer.model.resolve_name(t.module, x.id)
                                r2 = outer.model.resolve_name(f.module, x.id)
                                if r1 != r2:
                                    return n
                full = dict(env)
                for (nm, v) in assigns:
                    full[nm] = _subst(v, full)
                r = _subst(out, full)
                for x in ast.walk(r):
                    ast.copy_location(x, n)
                changed[0] = True
                return r
        T().visit(f.node)
        return changed[0]

    # -- statement splicing ----------------------------------------------------
    def splice_form(self, t, as_generator):
        """body statements usable for splicing, and the final return value
        expression (or None)"""
        body = _doc_stripped(t.node.body)
        if not body:
            return None
        gen = _is_generator(t.node)
        if gen != as_generator:
            return None
        rets = [x for st in body for x in _own_walk(st)
                if isinstance(x, ast.Return)]
        ret_e = None
        if rets:
            if len(rets) != 1 or rets[0] is not body[-1]:
                if as_generator:
                    return None
                tail = _tail_returns(body)
                if tail is None:
                    return None
                return tail, _MULTI
            ret_e = rets[0].value
            body = body[:-1]
        return body, ret_e

    def splice(self, f):
        """splice helper bodies into the statement lists of f"""
        outer = self
        changed = [False]
        local_f = _local_names(f.node)
        f_params = {a.arg for a in f.node.args.args +
                    f.node.args.kwonlyargs + f.node.args.posonlyargs}
        names_f = [{x.id for x in ast.walk(f.node)
                    if isinstance(x, ast.Name)}]
        nested_f = set()
        for x in ast.walk(f.node):
            if x is not f.node and isinstance(
                    x, (ast.FunctionDef, ast.AsyncFunctionDef, ast.Lambda,
                        ast.ClassDef)):
                nested_f.update(y.id for y in ast.walk(x)
                                if isinstance(y, ast.Name))
        cfg_box = [None]

        def graph():
            if cfg_box[0] is None:
                from . import cfg as _cfg
                try:
                    cfg_box[0] = _cfg.CFG(f.node)
                except Exception:
                    cfg_box[0] = False
            return cfg_box[0]

        def hoist(st):
            """`use(.., helper(..), ..)` -> (`r = helper(..)`, `use(.., r,
            ..)`) when nothing with an effect is evaluated before the helper
            call; -> None otherwise"""
            if isinstance(st, ast.Expr):
                top = st.value
            elif isinstance(st, (ast.Assign, ast.Return)):
                top = st.value
            elif isinstance(st, ast.AugAssign) and isinstance(
                    st.target, ast.Name) and isinstance(st.value, ast.Call):
                # x += helper(..): the left operand is read after the call
                # returns only when the target is a plain local
                t = outer.resolve(f, st.value)
                if t is None or _expr_form(t) is not None or \
                        outer.splice_form(t, as_generator=False) is None:
                    return None
                outer.counter += 1
                nm = 'ret__h{}'.format(outer.counter)
                pre = ast.copy_location(ast.Assign(
                    targets=[ast.Name(id=nm, ctx=ast.Store())],
                    value=st.value), st)
                rest = ast.copy_location(ast.AugAssign(
                    target=st.target, op=st.op,
                    value=ast.Name(id=nm, ctx=ast.Load())), st)
                ast.fix_missing_locations(pre)
                ast.fix_missing_locations(rest)
                return pre, rest
            else:
                return None
            if isinstance(top, ast.Yield):
                top = top.value
            if top is None:
                return None
            # descend through calls: pure callee path, pure earlier arguments
            node = top
            target = None
            depth = 0
            while isinstance(node, ast.Call) and depth < 4:
                depth += 1
                t = outer.resolve(f, node)
                if t is not None and node is not getattr(st, 'value', None) \
                        and _expr_form(t) is None and \
                        outer.splice_form(t, as_generator=False) is not None:
                    target = node
                    break
                if not _pure_path(node.func) or node.keywords:
                    return None
                nxt = None
                for a in node.args:
                    if isinstance(a, ast.Call):
                        nxt = a
                        break
                    if not _arg_is_trivial(a):
                        return None
                if nxt is None:
                    return None
                node = nxt
            if target is None:
                return None
            outer.counter += 1
            nm = 'ret__h{}'.format(outer.counter)
            pre = ast.copy_location(ast.Assign(
                targets=[ast.Name(id=nm, ctx=ast.Store())], value=target),
                st)

            class H(ast.NodeTransformer):
                def visit_Call(self, n):
                    if n is target:
                        return ast.copy_location(
                            ast.Name(id=nm, ctx=ast.Load()), n)
                    return self.generic_visit(n)
            rest = H().visit(st)
            ast.fix_missing_locations(pre)
            return pre, rest

        def expand(st):
            """-> list of statements replacing st, or None"""
            call = None
            mode = None
            if isinstance(st, ast.Expr) and isinstance(st.value, ast.Call):
                call, mode = st.value, 'stmt'
            elif isinstance(st, ast.Expr) and \
                    isinstance(st.value, ast.YieldFrom) and \
                    isinstance(st.value.value, ast.Call):
                call, mode = st.value.value, 'gen'
            elif isinstance(st, ast.For) and isinstance(st.iter, ast.Call) \
                    and len(st.body) == 1 and \
                    isinstance(st.body[0], ast.Expr) and \
                    isinstance(st.body[0].value, ast.Yield) and \
                    isinstance(st.body[0].value.value, ast.Name) and \
                    isinstance(st.target, ast.Name) and \
                    st.body[0].value.value.id == st.target.id and \
                    not st.orelse:
                call, mode = st.iter, 'gen'
            elif isinstance(st, ast.For) and isinstance(st.iter, ast.Call) \
                    and isinstance(st.target, ast.Name) and not st.orelse \
                    and _consumable(st.body):
                # for v in gen(..): BODY  ->  gen's body with every
                # `yield X` replaced by `v = X; BODY`
                call, mode = st.iter, 'consume'
            elif isinstance(st, ast.Assign) and \
                    isinstance(st.value, ast.Call):
                call, mode = st.value, 'assign'
            elif isinstance(st, ast.Return) and \
                    isinstance(st.value, ast.Call):
                call, mode = st.value, 'return'
            if isinstance(st, ast.AugAssign) or call is None or (
                    mode in ('stmt', 'assign', 'return') and
                    outer.resolve(f, call) is None):
                hoisted = hoist(st)
                if hoisted is not None:
                    first = expand(hoisted[0])
                    if first is not None:
                        return first + [hoisted[1]]
                return None
            t = outer.resolve(f, call)
            if t is None:
                return None
            if mode not in ('gen', 'consume') and _expr_form(t) is not None:
                return None                 # the expression inliner's job
            form = outer.splice_form(t, as_generator=(mode in ('gen',
                                                               'consume')))
            if mode == 'consume' and form is not None and not all(
                    _yields_are_statements(b) for b in form[0]):
                return None
            if form is None:
                return None
            body, ret_e = form
            if mode in ('assign', 'return') and ret_e is None:
                return None
            multi = ret_e is _MULTI
            if multi:
                ret_e = None
            if t.module is not f.module:
                for b in body + ([ret_e] if ret_e is not None else []):
                    for x in ast.walk(b):
                        if isinstance(x, ast.Name):
                            r1 = outer.model.resolve_name(t.module, x.id)
                            r2 = outer.model.resolve_name(f.module, x.id)
                            if r1 != r2 and (r1 or r2):
                                return None
            env = _simple_params(t, call, outer.model)
            if env is None:
                return None
            outer.counter += 1
            tag = '__h{}'.format(outer.counter)
            t_locals = _local_names(t.node)
            params = set(env)
            # parameters re-bound in the helper, or bound to non-trivial
            # arguments, become fresh locals
            pre = []
            sub = {}
            stored = {x.id for b in body for x in ast.walk(b)
                      if isinstance(x, ast.Name) and
                      isinstance(x.ctx, (ast.Store, ast.Del))}
            for p, arg in env.items():
                if _arg_is_trivial(arg) and p not in stored and not (
                        isinstance(arg, ast.Name) and arg.id in stored):
                    sub[p] = arg
                else:
                    nm = p + tag
                    pre.append(ast.Assign(
                        targets=[ast.Name(id=nm, ctx=ast.Store())],
                        value=clone(arg)))
                    sub[p] = ast.Name(id=nm, ctx=ast.Load())
            rename = {}
            body_names = set()
            if mode == 'consume':
                # the loop body is interleaved with the helper's statements:
                # its names must not meet the helper's locals
                body_names = {x.id for b2 in st.body for x in ast.walk(b2)
                              if isinstance(x, ast.Name)} | {st.target.id}
            for v in t_locals - params:
                if v in nested_f or v in body_names:
                    rename[v] = v + tag
                elif v not in names_f[0]:
                    continue              # no such name here: keep it
                elif v in local_f and v not in f_params and graph() and \
                        _dead_after(graph(), st, v):
                    continue              # the caller's value is dead here
                else:
                    rename[v] = v + tag

            class R(ast.NodeTransformer):
                def visit_Name(self, n):
                    if n.id in sub and isinstance(n.ctx, ast.Load):
                        return clone(sub[n.id])
                    if n.id in sub and isinstance(sub[n.id], ast.Name):
                        return ast.Name(id=sub[n.id].id, ctx=n.ctx)
                    if n.id in rename:
                        return ast.Name(id=rename[n.id], ctx=n.ctx)
                    return n
            new = [R().visit(clone(b)) for b in body]
            if multi:
                def tail(v):
                    if mode == 'assign':
                        if isinstance(v, ast.Name) and \
                                len(st.targets) == 1 and isinstance(
                                    st.targets[0], ast.Name) and \
                                st.targets[0].id == v.id:
                            return []                   # x = x
                        return [ast.Assign(targets=clone(st.targets),
                                           value=v)]
                    if mode == 'return':
                        return [ast.Return(value=v)]
                    return [] if _pure_expr(v) else [ast.Expr(value=v)]

                def put(stmts):
                    res = []
                    for b in stmts:
                        if isinstance(b, ast.Return):
                            res.extend(tail(b.value))
                        elif isinstance(b, ast.If) and _has_return([b]):
                            b.body = put(b.body)
                            b.orelse = put(b.orelse)
                            if not b.body and not b.orelse:
                                if not _pure_expr(b.test):
                                    res.append(ast.Expr(value=b.test))
                                continue
                            if not b.body:
                                b.test = ast.UnaryOp(op=ast.Not(),
                                                     operand=b.test)
                                b.body, b.orelse = b.orelse, []
                            res.append(b)
                        else:
                            res.append(b)
                    return res
                new = put(new)
            if mode == 'consume':
                new = _replace_yields(new, st.target.id, st.body)
            if ret_e is not None:
                rv = R().visit(clone(ret_e))
                if mode == 'assign':
                    new.append(ast.Assign(targets=clone(st.targets),
                                          value=rv))
                elif mode == 'return':
                    new.append(ast.Return(value=rv))
                elif mode == 'stmt' and not _pure_expr(rv):
                    new.append(ast.Expr(value=rv))
            out = pre + new
            for s2 in out:
                for x in ast.walk(s2):
                    ast.copy_location(x, st)
                ast.fix_missing_locations(s2)
            changed[0] = True
            for s2 in out:
                names_f[0].update(x.id for x in ast.walk(s2)
                                  if isinstance(x, ast.Name))
            return out or [ast.copy_location(ast.Pass(), st)]

        def do_list(stmts):
            res = []
            for st in stmts:
                for fld in ('body', 'orelse', 'finalbody'):
                    sub = getattr(st, fld, None)
                    if isinstance(sub, list) and not isinstance(
                            st, (ast.FunctionDef, ast.AsyncFunctionDef,
                                 ast.ClassDef)):
                        setattr(st, fld, do_list(sub))
                for h in getattr(st, 'handlers', []) or []:
                    h.body = do_list(h.body)
                e = expand(st)
                if e is None:
                    res.append(st)
                else:
                    res.extend(e)
            return res
        f.node.body = do_list(f.node.body)
        return changed[0]


def _consumable(body):
    for b in body:
        for x in ast.walk(b):
            if isinstance(x, (ast.Break, ast.Continue, ast.Return, ast.Yield,
                              ast.YieldFrom, ast.FunctionDef, ast.Lambda)):
                return False
    return True


def _yields_are_statements(st):
    """every yield of the helper is a plain `yield X` statement"""
    for x in ast.walk(st):
        if isinstance(x, ast.YieldFrom):
            return False
        if isinstance(x, ast.Yield):
            par = getattr(x, '_parent', None)
            if not (isinstance(par, ast.Expr) and par.value is x):
                # clone()d trees have no _parent: accept when some Expr
                # statement wraps exactly this yield
                if not any(isinstance(e, ast.Expr) and e.value is x
                           for e in ast.walk(st)):
                    return False
    return True


def _replace_yields(stmts, var, body):
    out = []
    for st in stmts:
        if isinstance(st, ast.Expr) and isinstance(st.value, ast.Yield):
            val = st.value.value if st.value.value is not None \
                else ast.Constant(value=None)
            out.append(ast.Assign(targets=[ast.Name(id=var, ctx=ast.Store())],
                                  value=val))
            out.extend(clone(b) for b in body)
            continue
        for fld in ('body', 'orelse', 'finalbody'):
            sub = getattr(st, fld, None)
            if isinstance(sub, list) and not isinstance(
                    st, (ast.FunctionDef, ast.AsyncFunctionDef,
                         ast.ClassDef)):
                setattr(st, fld, _replace_yields(sub, var, body))
        for h in getattr(st, 'handlers', []) or []:
            h.body = _replace_yields(h.body, var, body)
        out.append(st)
    return out


# ------------------------------------------------------------------ N4 --------

class _N4(ast.NodeTransformer):
    def __init__(self, model, f):
        self.model = model
        self.f = f
        self.changed = False
        self.n = 0

    def visit_ClassDef(self, n):
        return n

    def visit_Expr(self, n):
        n = self.generic_visit(n)
        if isinstance(n.value, ast.YieldFrom):
            self.n += 1
            v = '_y{}'.format(self.n)
            loop = ast.For(
                target=ast.Name(id=v, ctx=ast.Store()), iter=n.value.value,
                body=[ast.Expr(value=ast.Yield(
                    value=ast.Name(id=v, ctx=ast.Load())))],
                orelse=[], type_comment=None)
            self.changed = True
            for x in ast.walk(loop):
                if not hasattr(x, 'lineno'):
                    ast.copy_location(x, n)
            return ast.fix_missing_locations(ast.copy_location(loop, n))
        return n

    def _is_class(self, e):
        if isinstance(e, (ast.Name, ast.Attribute)):
            try:
                r = self.model.resolve_expr(self.f.module, e)
            except Exception:
                r = None
            return bool(r and r[0] == 'class')
        return False

    def visit_Call(self, n):
        n = self.generic_visit(n)
        # isinstance(x, (A, B)) -> or-chain
        if isinstance(n.func, ast.Name) and n.func.id == 'isinstance' and \
                len(n.args) == 2 and isinstance(n.args[1], ast.Tuple) and \
                n.args[1].elts and not n.keywords:
            parts = [ast.Call(func=ast.Name(id='isinstance', ctx=ast.Load()),
                              args=[clone(n.args[0]), e],
                              keywords=[]) for e in n.args[1].elts]
            self.changed = True
            r = parts[0] if len(parts) == 1 else ast.BoolOp(
                op=ast.Or(), values=parts)
            for x in ast.walk(r):
                ast.copy_location(x, n)
            return r
        # dict(k=v, ...) -> {'k': v, ...}
        if isinstance(n.func, ast.Name) and n.func.id == 'dict' and \
                not n.args and n.keywords and \
                all(k.arg is not None for k in n.keywords):
            self.changed = True
            r = ast.Dict(keys=[ast.Constant(value=k.arg) for k in n.keywords],
                         values=[k.value for k in n.keywords])
            for x in ast.walk(r):
                if not hasattr(x, 'lineno'):
                    ast.copy_location(x, n)
            return ast.copy_location(r, n)
        # x.matches(Cls) -> isinstance(x, Cls)
        if isinstance(n.func, ast.Attribute) and n.func.attr == 'matches' \
                and len(n.args) == 1 and not n.keywords and \
                self._is_class(n.args[0]):
            self.changed = True
            r = ast.Call(func=ast.Name(id='isinstance', ctx=ast.Load()),
                         args=[n.func.value, n.args[0]], keywords=[])
            for x in ast.walk(r):
                ast.copy_location(x, n)
            return r
        # s.startswith((a, b)) / endswith -> or-chain
        if isinstance(n.func, ast.Attribute) and \
                n.func.attr in ('startswith', 'endswith') and \
                len(n.args) == 1 and isinstance(n.args[0], ast.Tuple) and \
                n.args[0].elts and not n.keywords and \
                isinstance(n.func.value, (ast.Name, ast.Attribute)):
            parts = [ast.Call(func=ast.Attribute(
                value=clone(n.func.value), attr=n.func.attr,
                ctx=ast.Load()), args=[e], keywords=[])
                for e in n.args[0].elts]
            self.changed = True
            r = parts[0] if len(parts) == 1 else ast.BoolOp(
                op=ast.Or(), values=parts)
            for x in ast.walk(r):
                ast.copy_location(x, n)
            return r
        return n


# ------------------------------------------------------------------ N6 --------

def n4b_ifexp_assign(fnode, base_hashes):
    """`x = A if c else B` that the pinned tree does not have ->
    `if c: x = A` / `else: x = B`  (the inverse of "use a conditional
    expression"); also `return A if c else B`"""
    import hashlib

    def h(st):
        return hashlib.sha1(ast.dump(st).encode('utf-8', 'replace')) \
            .hexdigest()[:12]
    changed = [False]

    def do_list(stmts):
        out = []
        for st in stmts:
            for fld in ('body', 'orelse', 'finalbody'):
                sub = getattr(st, fld, None)
                if isinstance(sub, list) and not isinstance(
                        st, (ast.FunctionDef, ast.AsyncFunctionDef,
                             ast.ClassDef)):
                    setattr(st, fld, do_list(sub))
            for hd in getattr(st, 'handlers', []) or []:
                hd.body = do_list(hd.body)
            if isinstance(st, (ast.Assign, ast.Return)) and \
                    isinstance(st.value, ast.IfExp) and \
                    h(st) not in base_hashes:
                def mk(v):
                    n = ast.Return(value=v) if isinstance(st, ast.Return) \
                        else ast.Assign(targets=[clone(t) for t in
                                                 st.targets], value=v)
                    return ast.copy_location(n, st)
                def selfassign(n):
                    return isinstance(n, ast.Assign) and \
                        len(n.targets) == 1 and \
                        isinstance(n.targets[0], ast.Name) and \
                        isinstance(n.value, ast.Name) and \
                        n.value.id == n.targets[0].id
                b1, b2 = mk(st.value.body), mk(st.value.orelse)
                test = st.value.test
                if selfassign(b1) and not selfassign(b2):
                    test = ast.UnaryOp(op=ast.Not(), operand=test)
                    b1, b2 = b2, b1
                iff = ast.If(test=test, body=[b1],
                             orelse=[] if selfassign(b2) else [b2])
                ast.copy_location(iff, st)
                ast.fix_missing_locations(iff)
                out.append(iff)
                changed[0] = True
            else:
                out.append(st)
        return out
    fnode.body = do_list(fnode.body)
    return changed[0]


def n6b_adjacent_temps(fnode, keep=()):
    """a NEW local that is bound several times, where EVERY read sits in the
    statement right after one of its bindings (same block) and reads it
    once: `t = E; use(t)` -> `use(E)` at each place.  This is what splicing a
    helper at several call sites, or turning `yield X` into `v = X; body`,
    leaves behind."""
    params = {a.arg for a in fnode.args.args + fnode.args.kwonlyargs +
              fnode.args.posonlyargs}
    cand = {}
    for n in _own_walk(fnode):
        if isinstance(n, ast.Name) and n.id not in keep and \
                n.id not in params:
            cand.setdefault(n.id, [0, 0])[
                0 if isinstance(n.ctx, (ast.Store, ast.Del)) else 1] += 1
    cand = {k for k, (st, ld) in cand.items() if st >= 1 and ld >= 1}
    if not cand:
        return False
    # verify every read, collect the rewrites
    plan = {}        # id(block list) -> [(index of assign, name)]
    reads_ok = {k: 0 for k in cand}
    bad = set()

    def scan(stmts):
        for i, st in enumerate(stmts):
            for fld in ('body', 'orelse', 'finalbody'):
                sub = getattr(st, fld, None)
                if isinstance(sub, list) and not isinstance(
                        st, (ast.FunctionDef, ast.AsyncFunctionDef,
                             ast.ClassDef)):
                    scan(sub)
            for h in getattr(st, 'handlers', []) or []:
                scan(h.body)
            if isinstance(st, ast.Assign) and len(st.targets) == 1 and \
                    isinstance(st.targets[0], ast.Name) and \
                    st.targets[0].id in cand and i + 1 < len(stmts):
                v = st.targets[0].id
                nxt = stmts[i + 1]
                # reads of v in the header / own expressions of nxt only
                if isinstance(nxt, (ast.For, ast.While, ast.If, ast.With,
                                    ast.Try, ast.FunctionDef)):
                    continue
                uses = [x for x in ast.walk(nxt) if isinstance(x, ast.Name)
                        and x.id == v and isinstance(x.ctx, ast.Load)]
                if len(uses) == 1 and not any(
                        isinstance(x, ast.Name) and x.id == v
                        for x in ast.walk(st.value)):
                    plan.setdefault(id(stmts), (stmts, []))[1].append((i, v))
                    reads_ok[v] += 1
    scan(fnode.body)
    total = {}
    for n in _own_walk(fnode):
        if isinstance(n, ast.Name) and n.id in cand and \
                isinstance(n.ctx, ast.Load):
            total[n.id] = total.get(n.id, 0) + 1
    good = {v for v in cand if total.get(v, 0) == reads_ok.get(v, 0) and
            reads_ok.get(v, 0) > 0}
    if not good:
        return False
    changed = False
    for (stmts, items) in plan.values():
        for (i, v) in sorted(items, reverse=True):
            if v not in good:
                continue
            val = stmts[i].value
            nxt = stmts[i + 1]

            class Sub(ast.NodeTransformer):
                def visit_Name(self, n):
                    if n.id == v and isinstance(n.ctx, ast.Load):
                        return clone(val)
                    return n
            stmts[i + 1] = ast.copy_location(Sub().visit(nxt), nxt)
            del stmts[i]
            changed = True
    return changed


_VALUE_PURE_CALLS = {'len', 'isinstance', 'str', 'bytes', 'int', 'bool',
                     'min', 'max', 'abs', 'tuple', 'divmod', 'ord', 'chr'}
_VALUE_PURE_METHODS = {'endswith', 'startswith', 'lower', 'upper', 'strip',
                       'rstrip', 'lstrip', 'get', 'group', 'groups', 'find',
                       'rfind', 'index', 'count', 'isdigit', 'matches',
                       'match', 'search', 'join', 'decode', 'encode',
                       'format', 'split', 'start', 'end', 'span'}


def _value_pure(e):
    """evaluating e twice gives the same value and has no effect: names,
    constants, operators, subscripts, attribute reads, and calls of a small
    set of pure builtins / string / match methods"""
    for x in ast.walk(e):
        if isinstance(x, (ast.Yield, ast.YieldFrom, ast.Await, ast.NamedExpr,
                          ast.Lambda, ast.ListComp, ast.SetComp, ast.DictComp,
                          ast.GeneratorExp, ast.List, ast.Dict, ast.Set,
                          ast.Starred)):
            return False
        if isinstance(x, ast.Call):
            f = x.func
            if isinstance(f, ast.Name) and f.id in _VALUE_PURE_CALLS:
                continue
            if isinstance(f, ast.Attribute) and f.attr in _VALUE_PURE_METHODS:
                continue
            return False
    return True


_BASE_STMTS = {}


def _differs(f, base_hashes):
    from . import churn
    return any(h not in base_hashes for h in churn.stmts_of(f.node))


def _stmt_hashes(f):
    """statement hashes the pinned tree has in this function (empty when
    the function is new or the fingerprint is unavailable)"""
    if 'fp' not in _BASE_STMTS:
        try:
            from . import churn
            _BASE_STMTS['fp'] = churn.load_baseline()
        except Exception:
            _BASE_STMTS['fp'] = {}
    fp = _BASE_STMTS['fp']
    try:
        rel = f.module.relpath
    except Exception:
        return ()
    return set(fp.get(rel, {}).get(f.qualname, {}))


class _SliceOfSlice(ast.NodeTransformer):
    """X[a:][b:c] -> X[a+b:a+c]  (a: a name plus/minus a constant, or a
    non-negative constant; b, c non-negative constants) -- what inlining
    `rest = X[a:]` into `rest[b:c]` leaves behind"""

    @staticmethod
    def _offset_ok(a):
        if isinstance(a, ast.Constant):
            return isinstance(a.value, int) and a.value >= 0
        if isinstance(a, ast.Name):
            return True
        return isinstance(a, ast.BinOp) and isinstance(
            a.op, (ast.Add, ast.Sub)) and isinstance(a.left, ast.Name) and \
            isinstance(a.right, ast.Constant) and \
            isinstance(a.right.value, int)

    @staticmethod
    def _plus(a, k):
        if k == 0:
            return clone(a)
        if isinstance(a, ast.Constant):
            return ast.Constant(value=a.value + k)
        if isinstance(a, ast.BinOp) and isinstance(a.right, ast.Constant):
            base = a.right.value if isinstance(a.op, ast.Add) \
                else -a.right.value
            tot = base + k
            if tot == 0:
                return clone(a.left)
            return ast.BinOp(left=clone(a.left),
                             op=ast.Add() if tot > 0 else ast.Sub(),
                             right=ast.Constant(value=abs(tot)))
        return ast.BinOp(left=clone(a), op=ast.Add(),
                         right=ast.Constant(value=k))

    def visit_Subscript(self, n):
        n = self.generic_visit(n)
        inner = n.value
        if isinstance(inner, ast.Subscript) and \
                isinstance(inner.slice, ast.Slice) and \
                inner.slice.upper is None and inner.slice.step is None and \
                inner.slice.lower is not None and \
                self._offset_ok(inner.slice.lower) and \
                isinstance(n.slice, ast.Slice) and n.slice.step is None:
            lo, hi = n.slice.lower, n.slice.upper
            b = 0 if lo is None else (lo.value if isinstance(
                lo, ast.Constant) and isinstance(lo.value, int) and
                lo.value >= 0 else None)
            c = hi.value if isinstance(hi, ast.Constant) and isinstance(
                hi.value, int) and hi.value >= 0 else None
            if b is not None and c is not None:
                a = inner.slice.lower
                return ast.copy_location(ast.Subscript(
                    value=inner.value,
                    slice=ast.Slice(lower=self._plus(a, b),
                                    upper=self._plus(a, c), step=None),
                    ctx=n.ctx), n)
        return n


def n6c_multi_use_temps(fnode, keep=()):
    """a NEW local bound exactly once (a plain statement `t = E`, E pure and
    repeatable) and read several times later in the same function, where
    nothing E reads is re-bound between the binding and the last read and
    binding and reads share the innermost enclosing loop: every read is
    replaced by E.  (The inverse of "name this sub-expression".)"""
    params = {a.arg for a in fnode.args.args + fnode.args.kwonlyargs +
              fnode.args.posonlyargs}
    if fnode.args.vararg:
        params.add(fnode.args.vararg.arg)
    if fnode.args.kwarg:
        params.add(fnode.args.kwarg.arg)
    stores, loads = {}, {}
    for n in _own_walk(fnode):
        if isinstance(n, ast.Name):
            d = stores if isinstance(n.ctx, (ast.Store, ast.Del)) else loads
            d.setdefault(n.id, []).append(n)
    # innermost loop of every statement
    loop_of = {}

    def mark(stmts, loop):
        for st in stmts:
            for x in ast.walk(st) if not isinstance(
                    st, (ast.For, ast.While, ast.If, ast.With, ast.Try)) \
                    else [st]:
                loop_of[id(x)] = loop
            if isinstance(st, (ast.For, ast.While)):
                for x in ast.walk(st.iter if isinstance(st, ast.For)
                                  else st.test):
                    loop_of[id(x)] = loop if isinstance(st, ast.For) else st
                if isinstance(st, ast.For):
                    for x in ast.walk(st.target):
                        loop_of[id(x)] = st
                mark(st.body, st)
                mark(st.orelse, loop)
            elif isinstance(st, ast.If):
                for x in ast.walk(st.test):
                    loop_of[id(x)] = loop
                mark(st.body, loop)
                mark(st.orelse, loop)
            elif isinstance(st, ast.With):
                for it in st.items:
                    for x in ast.walk(it):
                        loop_of[id(x)] = loop
                mark(st.body, loop)
            elif isinstance(st, ast.Try):
                mark(st.body, loop)
                for h in st.handlers:
                    mark(h.body, loop)
                mark(st.orelse, loop)
                mark(st.finalbody, loop)
    mark(fnode.body, None)
    changed = False
    # (If node id, branch) ancestors of every node: two nodes in different
    # branches of one `if` never lie on one path of a single iteration
    branch = {}

    def paths(stmts, anc):
        for st in stmts:
            if isinstance(st, ast.If):
                for x in ast.walk(st.test):
                    branch[id(x)] = anc
                branch[id(st)] = anc
                paths(st.body, anc + ((id(st), 0),))
                paths(st.orelse, anc + ((id(st), 1),))
                continue
            branch[id(st)] = anc
            subs = []
            for fld in ('body', 'orelse', 'finalbody'):
                sub = getattr(st, fld, None)
                if isinstance(sub, list) and not isinstance(
                        st, (ast.FunctionDef, ast.AsyncFunctionDef,
                             ast.ClassDef)):
                    subs.append(sub)
            for h in getattr(st, 'handlers', []) or []:
                subs.append(h.body)
            inner = {id(y) for sub in subs for s2 in sub
                     for y in ast.walk(s2)}
            for x in ast.walk(st):
                if id(x) not in inner:
                    branch[id(x)] = anc
            for sub in subs:
                paths(sub, anc)
    paths(fnode.body, ())

    def leaves(stmts):
        """the statement list never falls off its end"""
        if not stmts:
            return False
        last = stmts[-1]
        if isinstance(last, (ast.Return, ast.Raise, ast.Continue, ast.Break)):
            return True
        if isinstance(last, ast.If):
            return leaves(last.body) and leaves(last.orelse)
        return False
    closed = set()          # (If id, branch) whose statements always leave
    for x in ast.walk(fnode):
        if isinstance(x, ast.If):
            if leaves(x.body):
                closed.add((id(x), 0))
            if leaves(x.orelse):
                closed.add((id(x), 1))

    def exclusive(a, b):
        pa, pb = dict(branch.get(id(a), ())), dict(branch.get(id(b), ()))
        if any(k in pb and pb[k] != v for k, v in pa.items()):
            return True
        # a sits in a branch that always leaves (return / raise / continue /
        # break) and b lies outside that branch: control never gets from a
        # to b within one iteration
        return any((k, v) in closed and pb.get(k) != v
                   for k, v in pa.items())

    def assigns(stmts):
        for st in stmts:
            if isinstance(st, ast.Assign) and len(st.targets) == 1 and \
                    isinstance(st.targets[0], ast.Name):
                yield stmts, st
            for fld in ('body', 'orelse', 'finalbody'):
                sub = getattr(st, fld, None)
                if isinstance(sub, list) and not isinstance(
                        st, (ast.FunctionDef, ast.AsyncFunctionDef,
                             ast.ClassDef)):
                    for r in assigns(sub):
                        yield r
            for h in getattr(st, 'handlers', []) or []:
                for r in assigns(h.body):
                    yield r
    # document order of every node; every node also knows the order number
    # of the END of the statement it sits in (a use is reached by anything
    # evaluated up to the end of its statement)
    ordv, stmt_of = {}, {}
    counter = [0]

    def number(stmts):
        for st2 in stmts:
            counter[0] += 1
            ordv[id(st2)] = counter[0]
            inner_lists = []
            for fld in ('body', 'orelse', 'finalbody'):
                sub = getattr(st2, fld, None)
                if isinstance(sub, list) and not isinstance(
                        st2, (ast.FunctionDef, ast.AsyncFunctionDef,
                              ast.ClassDef)):
                    inner_lists.append(sub)
            for h in getattr(st2, 'handlers', []) or []:
                inner_lists.append(h.body)
            inner_ids = {id(y) for sub in inner_lists for s3 in sub
                         for y in ast.walk(s3)}
            own = [x for x in ast.walk(st2) if id(x) not in inner_ids and
                   x is not st2]
            for x in own:
                counter[0] += 1
                ordv[id(x)] = counter[0]
            end = counter[0]
            for x in own:
                stmt_of[id(x)] = end
            for sub in inner_lists:
                number(sub)
    number(fnode.body)
    for (block, st) in list(assigns(fnode.body)):
        v = st.targets[0].id
        if v in keep or v in params or len(stores.get(v, ())) != 1 or \
                len(loads.get(v, ())) < 2:
            continue
        if not _value_pure(st.value):
            continue
        # positions in evaluation order of the function text (spliced
        # statements share the line of the call they replaced, so line
        # numbers do not order them): statement index, then node index
        line0 = ordv[id(st)]
        uses = loads[v]
        if any(ordv.get(id(u), 0) < line0 for u in uses):
            continue
        last = max(ordv.get(id(u), 0) for u in uses)
        my_loop = loop_of.get(id(st.targets[0]))
        if any(loop_of.get(id(u)) is not my_loop for u in uses):
            continue
        free = {x.id for x in ast.walk(st.value) if isinstance(x, ast.Name)}
        if v in free:
            continue
        clash = False

        def reaches_a_use(node):
            ln = ordv.get(id(node), 0)
            return any(line0 < ln <= ordv.get(id(u), 0)
                       and not exclusive(node, u) for u in uses)
        for nm in free:
            for sx in stores.get(nm, ()):
                if reaches_a_use(sx):
                    clash = True
                # a loop variable / value re-bound by the enclosing loop of
                # the reads is fine only when the temp is re-bound with it
                # (same loop: checked above)
        # attributes / subscripts read by E must not be stored in between
        call_funcs = {id(x.func) for x in ast.walk(st.value)
                      if isinstance(x, ast.Call)}
        local_names = set(stores) | params
        heap = [ast.unparse(x) for x in ast.walk(st.value)
                if isinstance(x, (ast.Attribute, ast.Subscript)) and
                id(x) not in call_funcs and not (
                    # Class.CONSTANT / module.CONSTANT: never re-bound
                    isinstance(x, ast.Attribute) and
                    _looks_constant_name(x.attr) and
                    isinstance(x.value, ast.Name) and
                    x.value.id not in local_names)]
        if heap:
            for x in _own_walk(fnode):
                if isinstance(x, (ast.Attribute, ast.Subscript)) and \
                        isinstance(x.ctx, (ast.Store, ast.Del)) and \
                        reaches_a_use(x):
                    clash = True
                if isinstance(x, ast.Call) and not _value_pure(x) and \
                        reaches_a_use(x):
                    clash = True
        if clash:
            continue
        val = st.value

        class Sub(ast.NodeTransformer):
            def visit_Name(self, n):
                if n.id == v and isinstance(n.ctx, ast.Load):
                    return ast.copy_location(clone(val), n)
                return n
        for i, s2 in enumerate(fnode.body):
            fnode.body[i] = _SliceOfSlice().visit(Sub().visit(s2))
        # drop the binding
        def drop(stmts):
            for i, s2 in enumerate(list(stmts)):
                if s2 is st:
                    del stmts[i]
                    if not stmts:
                        stmts.append(ast.copy_location(ast.Pass(), st))
                    return True
                for fld in ('body', 'orelse', 'finalbody'):
                    sub = getattr(s2, fld, None)
                    if isinstance(sub, list) and drop(sub):
                        return True
                for h in getattr(s2, 'handlers', []) or []:
                    if drop(h.body):
                        return True
            return False
        drop(fnode.body)
        changed = True
        # positions changed: recompute on the next round
        return True
    return changed


def n6_single_use_temps(fnode, keep=()):
    """a NEW local assigned once from a pure expression and read exactly once,
    in a later statement of the same block, with nothing in between that
    could change what the expression reads, is replaced by the expression
    (the inverse of "split the expression with a temporary")."""
    changed = [False]
    stores, loads = {}, {}
    for n in _own_walk(fnode):
        if isinstance(n, ast.Name):
            d = stores if isinstance(n.ctx, (ast.Store, ast.Del)) else loads
            d[n.id] = d.get(n.id, 0) + 1
    params = {a.arg for a in fnode.args.args + fnode.args.kwonlyargs +
              fnode.args.posonlyargs}

    def free_names(e):
        return {x.id for x in ast.walk(e) if isinstance(x, ast.Name)}

    def stmt_stores(st):
        out = set()
        for x in ast.walk(st):
            if isinstance(x, ast.Name) and isinstance(x.ctx, (ast.Store,
                                                              ast.Del)):
                out.add(x.id)
        return out

    def has_effects(st):
        for x in ast.walk(st):
            if isinstance(x, (ast.Call, ast.Yield, ast.YieldFrom, ast.Await)):
                return True
            if isinstance(x, (ast.Attribute, ast.Subscript)) and \
                    isinstance(x.ctx, (ast.Store, ast.Del)):
                return True
        return False

    def reads_heap(e):
        return any(isinstance(x, (ast.Attribute, ast.Subscript, ast.Call))
                   for x in ast.walk(e))

    def do_list(stmts):
        i = 0
        while i < len(stmts):
            st = stmts[i]
            for fld in ('body', 'orelse', 'finalbody'):
                sub = getattr(st, fld, None)
                if isinstance(sub, list) and not isinstance(
                        st, (ast.FunctionDef, ast.AsyncFunctionDef,
                             ast.ClassDef)):
                    do_list(sub)
            for h in getattr(st, 'handlers', []) or []:
                do_list(h.body)
            if isinstance(st, ast.Assign) and len(st.targets) == 1 and \
                    isinstance(st.targets[0], ast.Name):
                v = st.targets[0].id
                if stores.get(v) == 1 and loads.get(v) == 1 and \
                        v not in keep and v not in params and \
                        _pure_expr(st.value) and not any(
                            isinstance(x, (ast.ListComp, ast.GeneratorExp,
                                           ast.SetComp, ast.DictComp))
                            for x in ast.walk(st.value)) and (
                            not any(isinstance(x, (ast.List, ast.Dict,
                                                   ast.Set))
                                    for x in ast.walk(st.value)) or
                            (i + 1 < len(stmts) and any(
                                isinstance(x, ast.Name) and x.id == v
                                for x in _own_walk(stmts[i + 1])))):
                    fn = free_names(st.value)
                    heap = reads_heap(st.value)
                    # find the single use in a later statement of this block
                    for j in range(i + 1, len(stmts)):
                        uses = [x for x in _own_walk(stmts[j])
                                if isinstance(x, ast.Name) and x.id == v and
                                isinstance(x.ctx, ast.Load)]
                        if uses:
                            tgt = stmts[j]
                            # inside a loop / comprehension the expression
                            # would be re-evaluated: only straight-line use
                            # a constant expression (no names, no calls)
                            # may be re-evaluated on every iteration
                            const_expr = not any(isinstance(x, (
                                ast.Name, ast.Call, ast.Attribute,
                                ast.Yield, ast.Await, ast.NamedExpr))
                                for x in ast.walk(st.value))
                            ok = len(uses) == 1 and (const_expr or not isinstance(
                                tgt, (ast.For, ast.While, ast.AsyncFor)) or (
                                isinstance(tgt, ast.For) and any(
                                    x is uses[0]
                                    for x in ast.walk(tgt.iter))))
                            if ok and const_expr and isinstance(
                                    tgt, (ast.For, ast.While, ast.If,
                                          ast.With, ast.Try)):
                                env = {v: st.value}
                                stmts[j] = _subst_stmt(tgt, env)
                                ast.copy_location(stmts[j], tgt)
                                del stmts[i]
                                changed[0] = True
                                i -= 1
                                break
                            if ok and isinstance(tgt, (ast.If, ast.With,
                                                       ast.Try)):
                                # allowed only in the header expression
                                hdr = tgt.test if isinstance(tgt, ast.If) \
                                    else None
                                ok = hdr is not None and any(
                                    x is uses[0] for x in ast.walk(hdr))
                            if ok and any(isinstance(x, (
                                    ast.Lambda, ast.ListComp,
                                    ast.GeneratorExp, ast.SetComp,
                                    ast.DictComp)) and any(
                                        y is uses[0] for y in ast.walk(x))
                                    for x in ast.walk(tgt)):
                                ok = False
                            if ok:
                                env = {v: st.value}
                                stmts[j] = _subst_stmt(tgt, env)
                                ast.copy_location(stmts[j], tgt)
                                del stmts[i]
                                changed[0] = True
                                i -= 1
                            break
                        # an intervening statement must not disturb the value
                        if stmt_stores(stmts[j]) & fn or (
                                heap and has_effects(stmts[j])):
                            break
            i += 1
    do_list(fnode.body)
    if not fnode.body:
        fnode.body = [ast.Pass()]
    return changed[0]


# ------------------------------------------------------------------ N9 --------

def _h12(st):
    import hashlib
    return hashlib.sha1(ast.dump(st).encode('utf-8', 'replace')) \
        .hexdigest()[:12]


def _walk_stmt_lists(fnode):
    """every statement list of the function's own body (not nested defs)"""
    out = []

    def rec(stmts):
        out.append(stmts)
        for st in stmts:
            if isinstance(st, (ast.FunctionDef, ast.AsyncFunctionDef,
                               ast.ClassDef)):
                continue
            for fld in ('body', 'orelse', 'finalbody'):
                sub = getattr(st, fld, None)
                if isinstance(sub, list):
                    rec(sub)
            for hd in getattr(st, 'handlers', []) or []:
                rec(hd.body)
    rec(fnode.body)
    return out


def n9_restore_statements(fnode, base_hashes):
    """statement spellings the pinned function has and the analysed one
    spells differently, restored when the two are the same statement:

      T = T op E          ->  T op= E     (T a name or a.b.c; numbers, bytes,
                                           str and tuples: no aliasing)
      a, b = x, y         ->  a = x; b = y   (a not read by y)
      a = x; b = y        ->  a, b = x, y    (adjacent, a not read by y)

    only when the restored statement is one the pinned function has and the
    present spelling is not (baseline statement hashes)."""
    if not base_hashes:
        return False
    changed = False
    for stmts in _walk_stmt_lists(fnode):
        i = 0
        while i < len(stmts):
            st = stmts[i]
            if isinstance(st, ast.Assign) and _h12(st) not in base_hashes:
                # T = T op E
                if len(st.targets) == 1 and isinstance(
                        st.value, ast.BinOp) and isinstance(
                        st.targets[0], (ast.Name, ast.Attribute)) and \
                        _pure_path(st.targets[0]) and ast.dump(
                            _as_load(st.targets[0])) == ast.dump(
                            st.value.left):
                    aug = ast.copy_location(ast.AugAssign(
                        target=st.targets[0], op=st.value.op,
                        value=st.value.right), st)
                    if _h12(aug) in base_hashes:
                        stmts[i] = aug
                        changed = True
                        i += 1
                        continue
                # a, b = x, y
                if len(st.targets) == 1 and isinstance(
                        st.targets[0], ast.Tuple) and isinstance(
                        st.value, ast.Tuple) and len(
                        st.targets[0].elts) == len(st.value.elts) and all(
                        isinstance(t, ast.Name) or (
                            isinstance(t, ast.Attribute) and _pure_path(t))
                        for t in st.targets[0].elts):
                    names = [t.id for t in st.targets[0].elts
                             if isinstance(t, ast.Name)]
                    ok = all(not _name_occ(v, n)
                             for k, v in enumerate(st.value.elts)
                             for n in names[:k])
                    if any(isinstance(t, ast.Attribute)
                           for t in st.targets[0].elts):
                        # attribute targets: only when no value reads an
                        # attribute or calls anything (literals / names)
                        ok = ok and all(not any(isinstance(
                            x, (ast.Attribute, ast.Call, ast.Subscript))
                            for x in ast.walk(v)) for v in st.value.elts)
                    parts = [ast.copy_location(ast.Assign(
                        targets=[t], value=v), st) for t, v in zip(
                            st.targets[0].elts, st.value.elts)]
                    if ok and all(_h12(q) in base_hashes for q in parts):
                        stmts[i:i + 1] = parts
                        changed = True
                        i += len(parts)
                        continue
                # a = x; b = y  ->  a, b = x, y
                if i + 1 < len(stmts) and len(st.targets) == 1 and \
                        isinstance(st.targets[0], ast.Name):
                    nx = stmts[i + 1]
                    if isinstance(nx, ast.Assign) and len(nx.targets) == 1 \
                            and isinstance(nx.targets[0], ast.Name) and \
                            _h12(nx) not in base_hashes and \
                            not _name_occ(nx.value, st.targets[0].id):
                        tup = ast.copy_location(ast.Assign(
                            targets=[ast.Tuple(elts=[st.targets[0],
                                                     nx.targets[0]],
                                               ctx=ast.Store())],
                            value=ast.Tuple(elts=[st.value, nx.value],
                                            ctx=ast.Load())), st)
                        if _h12(tup) in base_hashes:
                            stmts[i:i + 2] = [tup]
                            changed = True
                            i += 1
                            continue
            elif isinstance(st, ast.If) and len(st.body) == 1 and \
                    len(st.orelse) == 1 and all(
                        isinstance(b, ast.Assign) and len(b.targets) == 1
                        and isinstance(b.targets[0], ast.Name)
                        for b in (st.body[0], st.orelse[0])) and \
                    st.body[0].targets[0].id == st.orelse[0].targets[0].id \
                    and isinstance(st.orelse[0].value, ast.Constant) and \
                    not _name_occ(st.test, st.body[0].targets[0].id) and \
                    _h12(st.orelse[0]) in base_hashes and \
                    _h12(st.body[0]) in base_hashes:
                # if T: x = A / else: x = <literal>   ->   x = <literal>;
                # if T: x = A     (the pinned spelling; T does not read x)
                pre = st.orelse[0]
                st.orelse = []
                stmts.insert(i, pre)
                changed = True
                i += 2
                continue
            elif isinstance(st, ast.AugAssign) and \
                    _h12(st) not in base_hashes and isinstance(
                        st.target, (ast.Name, ast.Attribute)) and \
                    _pure_path(st.target):
                # T op= E  ->  T = T op E   (the pinned spelling)
                plain = ast.copy_location(ast.Assign(
                    targets=[st.target], value=ast.BinOp(
                        left=_as_load(st.target), op=st.op,
                        right=st.value)), st)
                ast.fix_missing_locations(plain)
                if _h12(plain) in base_hashes:
                    stmts[i] = plain
                    changed = True
            i += 1
    if changed:
        ast.fix_missing_locations(fnode)
    return changed


def n11_rename_locals(fnode, keep, base_hashes):
    """a NEW local name, where a local name of the pinned function no longer
    occurs at all: renaming new -> old is an alpha-renaming (no capture: the
    old name is unused), applied when it makes statements equal to pinned
    ones.  -> number of renamings"""
    if not base_hashes:
        return 0
    params = {a.arg for a in fnode.args.args + fnode.args.kwonlyargs +
              fnode.args.posonlyargs}
    if fnode.args.vararg:
        params.add(fnode.args.vararg.arg)
    if fnode.args.kwarg:
        params.add(fnode.args.kwarg.arg)
    present = {x.id for x in ast.walk(fnode) if isinstance(x, ast.Name)}
    present |= {a.arg for x in ast.walk(fnode)
                if isinstance(x, ast.arguments)
                for a in x.args + x.kwonlyargs + x.posonlyargs}
    for x in ast.walk(fnode):
        if isinstance(x, (ast.Global, ast.Nonlocal)):
            return 0
    stored = {x.id for x in ast.walk(fnode) if isinstance(x, ast.Name) and
              isinstance(x.ctx, (ast.Store, ast.Del))}
    new = sorted(n for n in stored if n not in keep and n not in params)
    missing = sorted(o for o in keep if o not in present and o not in params)
    if not new or not missing:
        return 0
    from . import churn

    def score():
        return sum(1 for h in churn.stmts_of(fnode) if h in base_hashes)

    def rename(a, b):
        for x in ast.walk(fnode):
            if isinstance(x, ast.Name) and x.id == a:
                x.id = b
    done = 0
    for n in new:
        base = score()
        best = None
        for o in missing:
            rename(n, o)
            sc = score()
            rename(o, n)
            if sc > base and (best is None or sc > best[0]):
                best = (sc, o)
        if best is not None:
            rename(n, best[1])
            missing.remove(best[1])
            done += 1
            if not missing:
                break
    return done


# ------------------------------------------------------------------ N12 -------

def n12_rotate_loops(fnode, base_hashes):
    """`B; while T: B`  (the loop body repeats, statement for statement, what
    stands directly in front of the loop; no break / continue in it, no else
    branch; the pinned function has no such loop)  ->
    `while True: B; if not T: break`  -- the same statements in the same
    order on every path (the "read ahead" form of a loop-and-a-half).
    Likewise the sentinel form `v = None; while v is None or T: v = E; ..`
    when E cannot be None by its form (an operator expression, a constructor
    call, a method of this class all of whose returns are such)."""
    import hashlib
    changed = False

    def h(st):
        return hashlib.sha1(ast.dump(st).encode('utf-8', 'replace')) \
            .hexdigest()[:12]

    def own_jumps(body):
        stack = list(body)
        while stack:
            n = stack.pop()
            if isinstance(n, (ast.Break, ast.Continue)):
                return True
            if isinstance(n, (ast.While, ast.For, ast.FunctionDef,
                              ast.Lambda, ast.ClassDef)):
                continue
            stack.extend(ast.iter_child_nodes(n))
        return False
    def root_of(n):
        while getattr(n, '_parent', None) is not None:
            n = n._parent
        return n

    def plain_value(e, depth=0):
        """an expression that cannot evaluate to None, read off its form"""
        if isinstance(e, ast.Constant):
            return e.value is not None
        if isinstance(e, (ast.BinOp, ast.JoinedStr, ast.Tuple, ast.List,
                          ast.Dict, ast.Set, ast.Compare, ast.ListComp)):
            return True
        if isinstance(e, ast.Call):
            if isinstance(e.func, ast.Name) and e.func.id in (
                    'bytes', 'str', 'int', 'len', 'bytearray', 'list',
                    'tuple', 'bool'):
                return True
            if isinstance(e.func, ast.Attribute) and isinstance(
                    e.func.value, ast.Name) and \
                    e.func.value.id in ('self', 'cls') and depth < 2:
                defs = [d for d in ast.walk(root_of(fnode))
                        if isinstance(d, ast.FunctionDef) and
                        d.name == e.func.attr]
                if len(defs) != 1:
                    return False
                d = defs[0]
                rets = [r for r in ast.walk(d) if isinstance(r, ast.Return)]
                return bool(rets) and isinstance(d.body[-1], ast.Return) \
                    and all(r.value is not None and
                            plain_value(r.value, depth + 1) for r in rets) \
                    and not any(isinstance(x, (ast.Yield, ast.YieldFrom))
                                for x in ast.walk(d))
        return False

    def sentinel(lst, i):
        """`v = None; while v is None or T: v = E; ..`  with E never None:
        the first pass is always made and afterwards the test is T"""
        w = lst[i]
        if i == 0 or not (isinstance(w, ast.While) and not w.orelse and
                          w.body and h(w) not in base_hashes and
                          not own_jumps(w.body)):
            return None
        init = lst[i - 1]
        if not (isinstance(init, ast.Assign) and len(init.targets) == 1 and
                isinstance(init.targets[0], ast.Name) and
                isinstance(init.value, ast.Constant) and
                init.value.value is None):
            return None
        v = init.targets[0].id
        t = w.test
        if not (isinstance(t, ast.BoolOp) and isinstance(t.op, ast.Or) and
                len(t.values) >= 2):
            return None
        g = t.values[0]
        if not (isinstance(g, ast.Compare) and len(g.ops) == 1 and
                isinstance(g.ops[0], ast.Is) and
                isinstance(g.left, ast.Name) and g.left.id == v and
                isinstance(g.comparators[0], ast.Constant) and
                g.comparators[0].value is None):
            return None
        first = w.body[0]
        if not (isinstance(first, ast.Assign) and len(first.targets) == 1 and
                isinstance(first.targets[0], ast.Name) and
                first.targets[0].id == v and plain_value(first.value) and
                not any(isinstance(x, ast.Name) and x.id == v
                        for x in ast.walk(first.value))):
            return None
        # no other store to v in the body
        for st in w.body[1:]:
            for x in ast.walk(st):
                if isinstance(x, ast.Name) and x.id == v and \
                        isinstance(x.ctx, ast.Store):
                    return None
        rest = t.values[1] if len(t.values) == 2 else ast.BoolOp(
            op=ast.Or(), values=list(t.values[1:]))
        return rest

    for owner in ast.walk(fnode):
        for fld in ('body', 'orelse', 'finalbody'):
            lst = getattr(owner, fld, None)
            if not isinstance(lst, list):
                continue
            i = 0
            while i < len(lst):
                w = lst[i]
                rest = sentinel(lst, i)
                if rest is not None:
                    brk = ast.If(test=ast.UnaryOp(op=ast.Not(), operand=rest),
                                 body=[ast.Break()], orelse=[])
                    new = ast.While(test=ast.Constant(value=True),
                                    body=list(w.body) + [brk], orelse=[])
                    ast.copy_location(new, w)
                    ast.copy_location(brk, w)
                    lst[i - 1:i + 1] = [new]
                    ast.fix_missing_locations(new)
                    changed = True
                    continue
                k = len(w.body) if isinstance(w, ast.While) else 0
                if not (isinstance(w, ast.While) and not w.orelse and
                        0 < k <= i and h(w) not in base_hashes and
                        not own_jumps(w.body) and
                        not (isinstance(w.test, ast.Constant))):
                    i += 1
                    continue
                pre = lst[i - k:i]
                if [ast.dump(x) for x in pre] != [ast.dump(x)
                                                  for x in w.body]:
                    i += 1
                    continue
                brk = ast.If(test=ast.UnaryOp(op=ast.Not(), operand=w.test),
                             body=[ast.Break()], orelse=[])
                new = ast.While(test=ast.Constant(value=True),
                                body=list(w.body) + [brk], orelse=[])
                ast.copy_location(new, w)
                ast.copy_location(brk, w)
                lst[i - k:i + 1] = [new]
                ast.fix_missing_locations(new)
                changed = True
                i = i - k + 1
    return changed


# ------------------------------------------------------------------ N8 --------

def n8_append_loops(fnode, base_hashes, keep=()):
    """`v = []` / `for t in IT: [if C:] v.append(E)` that the pinned function
    does not have  ->  `v = [E for t in IT if C]`  (the inverse of "unroll the
    comprehension"); t must be dead after the loop and v must not be read by
    the loop's own expressions"""
    import hashlib
    changed = [False]
    graph = [None]

    def cfg():
        if graph[0] is None:
            from . import cfg as _cfg
            try:
                graph[0] = _cfg.CFG(fnode)
            except Exception:
                graph[0] = False
        return graph[0]

    def h(st):
        return hashlib.sha1(ast.dump(st).encode('utf-8', 'replace')) \
            .hexdigest()[:12]

    def match(a, b):
        if not (isinstance(a, ast.Assign) and len(a.targets) == 1 and
                isinstance(a.targets[0], ast.Name) and
                isinstance(a.value, ast.List) and not a.value.elts):
            return None
        v = a.targets[0].id
        if h(a) in base_hashes:
            return None
        if not (isinstance(b, ast.For) and not b.orelse and
                len(b.body) == 1):
            return None
        inner = b.body[0]
        conds = []
        while isinstance(inner, ast.If) and not inner.orelse and \
                len(inner.body) == 1:
            conds.append(inner.test)
            inner = inner.body[0]
        if not (isinstance(inner, ast.Expr) and
                isinstance(inner.value, ast.Call) and
                isinstance(inner.value.func, ast.Attribute) and
                inner.value.func.attr == 'append' and
                isinstance(inner.value.func.value, ast.Name) and
                inner.value.func.value.id == v and
                len(inner.value.args) == 1 and not inner.value.keywords):
            return None
        elt = inner.value.args[0]
        for e in [b.iter, elt] + conds:
            if _name_occ(e, v):
                return None
            if any(isinstance(x, (ast.Yield, ast.YieldFrom, ast.Await,
                                  ast.NamedExpr)) for x in ast.walk(e)):
                return None
        tnames = {x.id for x in ast.walk(b.target)
                  if isinstance(x, ast.Name)}
        g = cfg()
        if not g:
            return None
        for t in tnames:
            if not _dead_after_loop(g, b, t):
                return None
        comp = ast.ListComp(elt=elt, generators=[ast.comprehension(
            target=b.target, iter=b.iter, ifs=conds, is_async=0)])
        new = ast.Assign(targets=[a.targets[0]], value=comp)
        ast.copy_location(new, a)
        ast.fix_missing_locations(new)
        return new

    def do_list(stmts):
        out = []
        i = 0
        while i < len(stmts):
            st = stmts[i]
            for fld in ('body', 'orelse', 'finalbody'):
                sub = getattr(st, fld, None)
                if isinstance(sub, list) and not isinstance(
                        st, (ast.FunctionDef, ast.AsyncFunctionDef,
                             ast.ClassDef)):
                    setattr(st, fld, do_list(sub))
            for hd in getattr(st, 'handlers', []) or []:
                hd.body = do_list(hd.body)
            new = match(st, stmts[i + 1]) if i + 1 < len(stmts) else None
            if new is not None:
                out.append(new)
                changed[0] = True
                graph[0] = None
                i += 2
                continue
            out.append(st)
            i += 1
        return out
    fnode.body = do_list(fnode.body)
    return changed[0]


def _dead_after_loop(graph, forstmt, var):
    """var is not read after the `for` statement is left (nor on entry of a
    later iteration: the loop re-binds it)"""
    its = [n for n in graph.nodes if n.kind == 'iter' and n.ast is forstmt]
    if not its:
        return False
    body_ids = {id(x) for st in forstmt.body for x in ast.walk(st)}
    seen = set()
    stack = []
    for it in its:
        stack.extend(m for (m, lab) in it.succ if lab != 'loop')
    # exits by break: successors of body nodes that lie outside the loop
    for n in graph.nodes:
        if n.stmt is not None and id(n.stmt) in body_ids:
            for (m, _l) in n.succ:
                if m.stmt is None or (id(m.stmt) not in body_ids and
                                      m not in its):
                    stack.append(m)
    while stack:
        n = stack.pop()
        if n.id in seen:
            continue
        seen.add(n.id)
        loads = stores = False
        for part in _node_parts(n):
            for x in _outer_refs(part, var):
                if isinstance(x.ctx, ast.Load):
                    loads = True
                else:
                    stores = True
        if loads:
            return False
        if stores:
            continue
        stack.extend(m for (m, _l) in n.succ)
    return True


# ------------------------------------------------------------------ N5 --------

def _row_ok(e):
    """row element usable for substitution: name / attribute / constant /
    tuple of those"""
    if isinstance(e, (ast.Name, ast.Constant)):
        return True
    if isinstance(e, ast.Attribute):
        return _row_ok(e.value)
    if isinstance(e, ast.Tuple):
        return all(_row_ok(x) for x in e.elts)
    return False


def n5_unroll_tables(fnode, keep=()):
    """`for a, b in <table>: body` with <table> a literal tuple / list of
    rows that a NEW constant or a NEW single-assignment local names (a
    table-driven loop introduced by a refactoring) is unrolled: one copy of
    the body per row, the loop targets replaced by the row's elements."""
    changed = [False]
    stores = {}
    for n in _own_walk(fnode):
        if isinstance(n, ast.Name) and isinstance(n.ctx, (ast.Store,
                                                          ast.Del)):
            stores[n.id] = stores.get(n.id, 0) + 1
    local_tables = {}
    for st in fnode.body:
        if isinstance(st, ast.Assign) and len(st.targets) == 1 and \
                isinstance(st.targets[0], ast.Name) and \
                isinstance(st.value, (ast.Tuple, ast.List)):
            v = st.targets[0].id
            if stores.get(v) == 1 and v not in keep:
                local_tables[v] = st

    def table_of(it, target=None):
        tnames = [x.id for x in ast.walk(target)
                  if isinstance(x, ast.Name)] if target is not None else []
        pinned_loop = bool(tnames) and all(n in keep for n in tnames)
        if isinstance(it, (ast.Tuple, ast.List)) and not pinned_loop and (
                getattr(it, '_pv_new', False) or (
                    target is not None and not any(
                        isinstance(x, ast.Name) and x.id in keep
                        for x in ast.walk(target)))):
            # a literal table that a new constant named, or a loop whose
            # variables the pinned tree does not have
            return it, None
        if isinstance(it, ast.Name) and it.id in local_tables and \
                not pinned_loop:
            uses = sum(1 for x in _own_walk(fnode)
                       if isinstance(x, ast.Name) and x.id == it.id and
                       isinstance(x.ctx, ast.Load))
            if uses == 1:
                return local_tables[it.id].value, local_tables[it.id]
        return None, None

    def unroll(st):
        if not isinstance(st, ast.For) or st.orelse:
            return None
        tab, defn = table_of(st.iter, st.target)
        if tab is None or not tab.elts or len(tab.elts) > 12 or \
                len(st.body) > 10:
            return None
        if any(isinstance(x, ast.Break)
               for b in st.body for x in _own_walk(b)):
            return None
        has_continue = any(isinstance(x, ast.Continue)
                           for b in st.body for x in _own_walk(b))
        tg = st.target
        names = None
        if isinstance(tg, ast.Name):
            names = [tg.id]
            rows = [[r] for r in tab.elts]
        elif isinstance(tg, ast.Tuple) and all(
                isinstance(x, ast.Name) for x in tg.elts):
            names = [x.id for x in tg.elts]
            rows = []
            for r in tab.elts:
                if not isinstance(r, ast.Tuple) or \
                        len(r.elts) != len(names):
                    return None
                rows.append(list(r.elts))
        else:
            return None
        if not all(_row_ok(x) for r in rows for x in r):
            return None
        # the targets must not be stored to inside the body
        for b in st.body:
            for x in _own_walk(b):
                if isinstance(x, ast.Name) and x.id in names and \
                        isinstance(x.ctx, ast.Store):
                    return None
        # and not read after the loop
        out = []
        for r in rows:
            env = dict(zip(names, r))
            copy_ = []
            for b in st.body:
                nb = _fold_consts(_subst_stmt(b, env))
                if nb is None:
                    continue
                nbs = nb if isinstance(nb, list) else [nb]
                for one in nbs:
                    for x in ast.walk(one):
                        if not hasattr(x, 'lineno'):
                            ast.copy_location(x, b)
                copy_.extend(nbs)
            # statements after an unconditional `continue` are dead
            live = []
            for c_ in copy_:
                if isinstance(c_, ast.Continue):
                    break
                live.append(c_)
            copy_ = live
            if has_continue and any(isinstance(x, ast.Continue)
                                    for c_ in copy_ for x in _own_walk(c_)):
                # a one-trip loop keeps `continue` meaning "next row"
                once = ast.For(
                    target=ast.Name(id='_once', ctx=ast.Store()),
                    iter=ast.Tuple(elts=[ast.Constant(value=None)],
                                   ctx=ast.Load()),
                    body=copy_ or [ast.Pass()], orelse=[], type_comment=None)
                ast.copy_location(once, st)
                ast.fix_missing_locations(once)
                out.append(once)
            else:
                out.extend(copy_)
        changed[0] = True
        return (out or [ast.copy_location(ast.Pass(), st)]), defn

    drop = set()

    def do_list(stmts):
        res = []
        for st in stmts:
            for fld in ('body', 'orelse', 'finalbody'):
                sub = getattr(st, fld, None)
                if isinstance(sub, list) and not isinstance(
                        st, (ast.FunctionDef, ast.AsyncFunctionDef,
                             ast.ClassDef)):
                    setattr(st, fld, do_list(sub))
            for h in getattr(st, 'handlers', []) or []:
                h.body = do_list(h.body)
            r = unroll(st)
            if r is None:
                res.append(st)
            else:
                res.extend(r[0])
                if r[1] is not None:
                    drop.add(id(r[1]))
        return res
    fnode.body = do_list(fnode.body)
    if drop:
        fnode.body = [st for st in fnode.body if id(st) not in drop] or \
            [ast.Pass()]
    return changed[0]


def _fold_consts(st):
    """fold what substituting a table row made constant: 'a' + 'b',
    'x' == 'y', `if <constant>:`;  -> statement, list of statements or None"""
    class F(ast.NodeTransformer):
        def visit_Call(self, n):
            n = self.generic_visit(n)
            # bytes('text', 'ascii') -> b'text'
            if isinstance(n.func, ast.Name) and n.func.id == 'bytes' and \
                    len(n.args) == 2 and not n.keywords and \
                    isinstance(n.args[0], ast.Constant) and \
                    isinstance(n.args[0].value, str) and \
                    isinstance(n.args[1], ast.Constant) and \
                    isinstance(n.args[1].value, str):
                try:
                    return ast.copy_location(ast.Constant(
                        value=n.args[0].value.encode(n.args[1].value)), n)
                except Exception:
                    return n
            # getattr(x, 'name') -> x.name
            if isinstance(n.func, ast.Name) and n.func.id == 'getattr' and \
                    len(n.args) == 2 and not n.keywords and \
                    isinstance(n.args[1], ast.Constant) and \
                    isinstance(n.args[1].value, str) and \
                    n.args[1].value.isidentifier():
                return ast.copy_location(ast.Attribute(
                    value=n.args[0], attr=n.args[1].value, ctx=ast.Load()), n)
            return n

        def visit_BinOp(self, n):
            n = self.generic_visit(n)
            if isinstance(n.op, ast.Add) and \
                    isinstance(n.left, ast.Constant) and \
                    isinstance(n.right, ast.Constant) and \
                    type(n.left.value) is type(n.right.value) and \
                    isinstance(n.left.value, (str, bytes)):
                return ast.copy_location(
                    ast.Constant(value=n.left.value + n.right.value), n)
            # 'text %s' % 'x'  /  % ('x', 'y')
            if isinstance(n.op, ast.Mod) and \
                    isinstance(n.left, ast.Constant) and \
                    isinstance(n.left.value, (str, bytes)):
                args = None
                if isinstance(n.right, ast.Constant) and \
                        isinstance(n.right.value, (str, bytes, int)):
                    args = n.right.value
                elif isinstance(n.right, ast.Tuple) and all(
                        isinstance(x, ast.Constant) and
                        isinstance(x.value, (str, bytes, int))
                        for x in n.right.elts):
                    args = tuple(x.value for x in n.right.elts)
                if args is not None:
                    try:
                        return ast.copy_location(
                            ast.Constant(value=n.left.value % args), n)
                    except Exception:
                        return n
            return n

        def visit_Compare(self, n):
            n = self.generic_visit(n)
            if len(n.ops) == 1 and isinstance(n.left, ast.Constant) and \
                    isinstance(n.comparators[0], ast.Constant) and \
                    isinstance(n.ops[0], (ast.Eq, ast.NotEq)) and \
                    isinstance(n.left.value, (str, bytes, int)) and \
                    isinstance(n.comparators[0].value, (str, bytes, int)):
                r = n.left.value == n.comparators[0].value
                if isinstance(n.ops[0], ast.NotEq):
                    r = not r
                return ast.copy_location(ast.Constant(value=r), n)
            return n

        def visit_BoolOp(self, n):
            n = self.generic_visit(n)
            vals = []
            for v in n.values:
                if isinstance(v, ast.Constant) and isinstance(v.value, bool):
                    if isinstance(n.op, ast.And):
                        if v.value:
                            continue
                        return ast.copy_location(ast.Constant(value=False), n)
                    if not v.value:
                        continue
                    return ast.copy_location(ast.Constant(value=True), n)
                vals.append(v)
            if not vals:
                return ast.copy_location(ast.Constant(
                    value=isinstance(n.op, ast.And)), n)
            if len(vals) == 1:
                return vals[0]
            n.values = vals
            return n

        def visit_UnaryOp(self, n):
            n = self.generic_visit(n)
            if isinstance(n.op, ast.Not) and \
                    isinstance(n.operand, ast.Constant) and \
                    isinstance(n.operand.value, bool):
                return ast.copy_location(
                    ast.Constant(value=not n.operand.value), n)
            return n
    st = F().visit(st)

    def prune(node):
        for fld in ('body', 'orelse', 'finalbody'):
            sub = getattr(node, fld, None)
            if isinstance(sub, list):
                new = []
                for x in sub:
                    r = prune(x)
                    if r is None:
                        continue
                    new.extend(r if isinstance(r, list) else [r])
                if fld == 'body' and not new:
                    new = [ast.copy_location(ast.Pass(), node)]
                setattr(node, fld, new)
        if isinstance(node, ast.If) and isinstance(node.test, ast.Constant) \
                and isinstance(node.test.value, bool):
            keep = node.body if node.test.value else node.orelse
            return list(keep) if keep else None
        if isinstance(node, ast.Expr) and isinstance(node.value, ast.Call) \
                and isinstance(node.value.func, ast.Name) and \
                node.value.func.id == 'setattr' and \
                len(node.value.args) == 3 and not node.value.keywords and \
                isinstance(node.value.args[1], ast.Constant) and \
                isinstance(node.value.args[1].value, str) and \
                node.value.args[1].value.isidentifier():
            # setattr(x, 'name', v) -> x.name = v
            a = ast.Assign(targets=[ast.Attribute(
                value=node.value.args[0], attr=node.value.args[1].value,
                ctx=ast.Store())], value=node.value.args[2])
            return ast.fix_missing_locations(ast.copy_location(a, node))
        return node
    return prune(st)


def _subst_stmt(st, env):
    class T(ast.NodeTransformer):
        def visit_Name(self, n):
            if isinstance(n.ctx, ast.Load) and n.id in env:
                r = clone(env[n.id])
                for x in ast.walk(r):
                    ast.copy_location(x, n)
                return r
            return n

        def visit_Lambda(self, n):
            return n
    return T().visit(clone(st))


def _reparent(tree):
    for n in ast.walk(tree):
        for c in ast.iter_child_nodes(n):
            c._parent = n
    tree._parent = None


def normalise(model, stats=None):
    """rewrite every function of the model in place; -> statistics"""
    stats = stats if stats is not None else {}
    base = load_baseline()
    consts = ConstTable(model, base)
    inl = Inliner(model, base['functions'])
    count = {'N1': 0, 'N2': 0, 'N3-expr': 0, 'N3-splice': 0, 'N4': 0}
    funcs = sorted((f for f in model.functions.values() if f.outer is None),
                   key=lambda f: f.qual)
    new_funcs = {f.name for f in model.functions.values()
                 if f.qual not in base['functions']}
    new_consts = {k[1] for k in consts.mod} | {k[1] for k in consts.cls}

    def facts(f):
        names, attrs = set(), set()
        n4 = False
        for x in ast.walk(f.node):
            if isinstance(x, ast.Name):
                names.add(x.id)
            elif isinstance(x, ast.Attribute):
                attrs.add(x.attr)
            elif isinstance(x, ast.YieldFrom):
                n4 = True
        if 'matches' in attrs or 'isinstance' in names or \
                'startswith' in attrs or 'endswith' in attrs or \
                'dict' in names:
            n4 = True
        return names, attrs, n4

    from . import canon
    cond_tab = canon.load()
    for _round in range(ROUNDS + 2):
        any_change = False
        todo = []
        n7_touched = set()
        for f in funcs:
            try:
                tab = cond_tab.get(f.module.relpath, {}).get(f.qualname)
            except AttributeError:
                tab = None
            if tab and canon.n7_restore(f.node, tab):
                count['N7'] = count.get('N7', 0) + 1
                any_change = True
                n7_touched.add(f.module.name)
                ast.fix_missing_locations(f.node)
            bh = _stmt_hashes(f)
            if bh and _differs(f, bh) and n9_restore_statements(f.node, bh):
                count['N9'] = count.get('N9', 0) + 1
                any_change = True
                n7_touched.add(f.module.name)
        for m in model.modules.values():
            if m.name in n7_touched:
                _reparent(m.tree)
        for f in funcs:
            names, attrs, n4 = facts(f)
            used = names | attrs
            dirty = f.qual not in base['functions'] or \
                bool(used & new_funcs) or bool(used & new_consts) or \
                bool(_local_names(f.node) -
                     base['locals'].get(f.qual, set()))
            if dirty or n4:
                todo.append((f, dirty, n4))
        for (f, dirty, n4) in todo:
            if dirty:
                local = _local_names(f.node)
                t1 = _N1(consts, f, local)
                t1.visit(f.node)
                if t1.changed:
                    count['N1'] += 1
                    any_change = True
            if n4:
                t4 = _N4(model, f)
                t4.visit(f.node)
                if t4.changed:
                    count['N4'] += 1
                    any_change = True
            ast.fix_missing_locations(f.node)
        touched = {f.module.name for (f, _d, _n) in todo}
        for m in model.modules.values():
            if m.name in touched:
                _reparent(m.tree)
        for (f, dirty, n4) in todo:
            if not dirty:
                continue
            keep = base['locals'].get(f.qual, ())
            if inl.inline_exprs(f):
                count['N3-expr'] += 1
                any_change = True
            if inl.splice(f):
                count['N3-splice'] += 1
                any_change = True
            if n2_alias_locals(f.node, keep, rebound_attrs(model)):
                count['N2'] += 1
                any_change = True
            if n2b_rename_copies(f.node, keep):
                count['N2b'] = count.get('N2b', 0) + 1
                any_change = True
            if n4b_ifexp_assign(f.node, _stmt_hashes(f)):
                count['N4b'] = count.get('N4b', 0) + 1
                any_change = True
            if n6_single_use_temps(f.node, keep):
                count['N6'] = count.get('N6', 0) + 1
                any_change = True
            if n8_append_loops(f.node, _stmt_hashes(f), keep):
                count['N8'] = count.get('N8', 0) + 1
                any_change = True
            if n12_rotate_loops(f.node, _stmt_hashes(f)):
                count['N12'] = count.get('N12', 0) + 1
                any_change = True
            if n4b_ifexp_assign(f.node, _stmt_hashes(f)):
                count['N4b'] = count.get('N4b', 0) + 1
                any_change = True
            while n6b_adjacent_temps(f.node, keep):
                count['N6b'] = count.get('N6b', 0) + 1
                any_change = True
            guard = 0
            while guard < 20 and n6c_multi_use_temps(f.node, keep):
                guard += 1
                count['N6c'] = count.get('N6c', 0) + 1
                any_change = True
            if n5_unroll_tables(f.node, keep):
                count['N5'] = count.get('N5', 0) + 1
                any_change = True
            ast.fix_missing_locations(f.node)
        for m in model.modules.values():
            if m.name in touched:
                _reparent(m.tree)
        model._callgraph = None
        if not any_change:
            # everything else is stable (no splice can bring in further
            # names): alpha-rename new locals to pinned names that have gone
            renamed = set()
            for (f, dirty, n4) in todo:
                if dirty and n11_rename_locals(
                        f.node, base['locals'].get(f.qual, ()),
                        _stmt_hashes(f)):
                    count['N11'] = count.get('N11', 0) + 1
                    renamed.add(f.module.name)
                    any_change = True
            for m in model.modules.values():
                if m.name in renamed:
                    _reparent(m.tree)
        if not any_change:
            break
    stats.update(count)
    return count
