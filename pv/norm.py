"""Normalisation helpers that make the structural rules independent of how a
piece of code is spelled.

The rules of this framework recognise constructs of /repo (a guard, a
lookup, a regex match ...).  Behaviour-preserving refactorings -- hoisting an
expression into a local, naming a literal, extracting a helper, compiling a
regex ahead of time -- must not change what is recognised.  These helpers
undo exactly those steps before a rule looks at an expression:

  subst_locals   replace single-assignment locals by their defining expression
  fold           replace names of module / class constants by their value
  callees / walk_deep   follow calls into package helpers
  regex_use      one view of re.match(P, s[i:]) / P.match(s, i) / re.search ...
  find_use       one view of s.index(x) / s.find(x)
  type_tests     token.matches(C) / isinstance(token, (C, D)) -> class names
  prefixes_of    s.startswith(a) or s.startswith(b) / s.startswith((a, b))
"""
import ast

from .astutil import clone
import copy

from .consteval import UNKNOWN, Regex
from .srcmodel import walk_own, FuncInfo


_BIND_CACHE = {}


def _bindings(fnode):
    """name -> list of binding kinds/values inside one function body"""
    key = id(fnode)
    if key in _BIND_CACHE and _BIND_CACHE[key][0] is fnode:
        return _BIND_CACHE[key][1]
    out = {}
    _BIND_CACHE[key] = (fnode, out)

    def add(name, kind, value, node):
        out.setdefault(name, []).append((kind, value, node))
    for n in walk_own(fnode):
        if isinstance(n, ast.Assign):
            for t in n.targets:
                if isinstance(t, ast.Name):
                    add(t.id, 'val', n.value, n)
                else:
                    for x in ast.walk(t):
                        if isinstance(x, ast.Name) and \
                                isinstance(x.ctx, ast.Store):
                            add(x.id, 'opaque', None, n)
        elif isinstance(n, ast.AnnAssign) and isinstance(n.target, ast.Name):
            add(n.target.id, 'val' if n.value is not None else 'opaque',
                n.value, n)
        elif isinstance(n, ast.AugAssign):
            for x in ast.walk(n.target):
                if isinstance(x, ast.Name):
                    add(x.id, 'opaque', None, n)
        elif isinstance(n, (ast.For, ast.AsyncFor, ast.comprehension)):
            for x in ast.walk(n.target):
                if isinstance(x, ast.Name):
                    add(x.id, 'opaque', None, n)
        elif isinstance(n, (ast.With, ast.AsyncWith)):
            for it in n.items:
                if it.optional_vars is not None:
                    for x in ast.walk(it.optional_vars):
                        if isinstance(x, ast.Name):
                            add(x.id, 'opaque', None, n)
        elif isinstance(n, ast.NamedExpr):
            add(n.target.id, 'opaque', None, n)
        elif isinstance(n, ast.ExceptHandler) and n.name:
            add(n.name, 'opaque', None, n)
        elif isinstance(n, (ast.Import, ast.ImportFrom)):
            for a in n.names:
                add((a.asname or a.name).split('.')[0], 'opaque', None, n)
    return out


def _is_pure(e):
    """expression without calls that could have effects; reads of attributes,
    subscripts, arithmetic and a few builtins are pure"""
    for x in ast.walk(e):
        if isinstance(x, ast.Call):
            f = x.func
            if isinstance(f, ast.Name) and f.id in (
                    'len', 'bytes', 'int', 'str', 'min', 'max', 'abs',
                    'tuple', 'frozenset', 'ord', 'chr', 'bool', 'divmod',
                    'getattr', 'isinstance', 'any', 'all', 'hasattr'):
                continue
            if isinstance(f, ast.Attribute) and f.attr in (
                    'decode', 'encode', 'lower', 'upper', 'strip', 'rstrip',
                    'lstrip', 'startswith', 'endswith', 'get', 'compile',
                    'dirname', 'join', 'abspath', 'normpath', 'expanduser',
                    'split', 'find', 'index', 'count', 'group', 'end',
                    'start', 'match', 'search', 'isdigit', 'replace'):
                continue
            return False
        if isinstance(x, (ast.Yield, ast.YieldFrom, ast.Await, ast.Lambda,
                          ast.NamedExpr)):
            return False
    return True


def subst_locals(fnode, e, depth=5, stop=()):
    """copy of e with every local that has exactly ONE binding in the
    function -- a plain assignment of a pure expression -- replaced by that
    expression (recursively).  Parameters, loop variables and re-assigned
    names are left alone."""
    binds = _bindings(fnode)
    params = set()
    if isinstance(fnode, (ast.FunctionDef, ast.AsyncFunctionDef)):
        a = fnode.args
        params = {x.arg for x in a.args + a.kwonlyargs + a.posonlyargs}
        if a.vararg:
            params.add(a.vararg.arg)
        if a.kwarg:
            params.add(a.kwarg.arg)

    def value_of(name):
        if name in params or name in stop:
            return None
        b = binds.get(name)
        if not b or len(b) != 1 or b[0][0] != 'val' or b[0][1] is None:
            return None
        v = b[0][1]
        if not _is_pure(v):
            return None
        return v

    class T(ast.NodeTransformer):
        def __init__(self, d):
            self.d = d

        def visit_Name(self, n):
            if isinstance(n.ctx, ast.Load) and self.d > 0:
                v = value_of(n.id)
                if v is not None and not any(
                        isinstance(x, ast.Name) and x.id == n.id
                        for x in ast.walk(v)):
                    r = T(self.d - 1).visit(clone(v))
                    return ast.copy_location(r, n)
            return n
    return T(depth).visit(clone(e))


def fold(ctx, f, e):
    """value of e as a constant (bytes / str / int / tuple / Regex ...) after
    local substitution, or UNKNOWN"""
    e2 = subst_locals(f.node, e) if f is not None else e
    try:
        v = ctx.consts.eval_expr(f.module if f is not None else None, e2,
                                 {'self': None, 'cls': None})
    except Exception:
        return UNKNOWN
    if v is UNKNOWN and isinstance(e2, ast.Attribute) and \
            isinstance(e2.value, ast.Name) and e2.value.id in ('self', 'cls') \
            and f is not None and f.cls is not None:
        try:
            v = ctx.consts.class_const(f.cls, e2.attr)
        except Exception:
            v = UNKNOWN
    return v


def fold_bytes(ctx, f, e):
    v = fold(ctx, f, e)
    return v if isinstance(v, bytes) else None


def fold_bytes_alts(ctx, f, e):
    """bytes alternatives: a bytes constant or a tuple of them -> list"""
    v = fold(ctx, f, e)
    if isinstance(v, bytes):
        return [v]
    if isinstance(v, (tuple, list)) and v and all(
            isinstance(x, bytes) for x in v):
        return list(v)
    return None


# ---------------------------------------------------------------- callees ----

def callees(model, f, node):
    """package functions called from inside `node` (resolved exactly)"""
    out = []
    for n in walk_own(node) if not isinstance(node, list) else \
            [x for s in node for x in walk_own(s)]:
        if isinstance(n, ast.Call):
            kind, targets = model.resolve_call(f, n)
            if kind in ('exact', 'method'):
                for t in targets:
                    if isinstance(t, FuncInfo) and t is not f:
                        out.append((n, t))
    return out


def walk_deep(model, f, stmts, depth=2, _seen=None):
    """yield (function, node) for every node of the statements and of the
    bodies of package helpers they call (to the given depth)"""
    _seen = _seen if _seen is not None else {f.qual}
    if not isinstance(stmts, list):
        stmts = [stmts]
    for st in stmts:
        for n in walk_own(st):
            yield f, n
    if depth <= 0:
        return
    for (_call, t) in callees(model, f, stmts):
        if t.qual in _seen:
            continue
        _seen.add(t.qual)
        for r in walk_deep(model, t, list(t.node.body), depth - 1, _seen):
            yield r


# ------------------------------------------------------------ idiom views ----

class RegexUse:
    def __init__(self, method, pattern, subject, pos, node):
        self.method = method          # 'match' | 'search' | 'fullmatch'
        self.pattern = pattern        # bytes
        self.subject = subject        # ast expr
        self.pos = pos                # ast expr or None
        self.node = node


def regex_use(ctx, f, call):
    """re.match(P, subj) / re.search / compiled.match(subj[, pos]) -> RegexUse
    with the pattern as bytes, else None"""
    if not isinstance(call, ast.Call) or not isinstance(call.func,
                                                         ast.Attribute):
        return None
    meth = call.func.attr
    if meth not in ('match', 'search', 'fullmatch'):
        return None
    ext = ctx.model.ext_name(f.module, call.func)
    if ext in ('re.match', 're.search', 're.fullmatch') and \
            len(call.args) >= 2:
        p = fold(ctx, f, call.args[0])
        if isinstance(p, Regex):
            p = p.pattern
        if isinstance(p, bytes):
            return RegexUse(meth, p, call.args[1], None, call)
        return None
    recv = fold(ctx, f, call.func.value)
    if isinstance(recv, Regex) and call.args:
        return RegexUse(meth, recv.pattern, call.args[0],
                        call.args[1] if len(call.args) > 1 else None, call)
    return None


def find_use(ctx, f, call):
    """s.index(X) / s.find(X) -> (receiver expr, needle: bytes or the
    substituted needle expression)"""
    if isinstance(call, ast.Call) and isinstance(call.func, ast.Attribute) \
            and call.func.attr in ('index', 'find') and call.args:
        v = fold_bytes(ctx, f, call.args[0])
        return call.func.value, (v if v is not None else
                                 subst_locals(f.node, call.args[0]))
    return None


def prefixes_of(ctx, f, test, subject):
    """test == subject.startswith(a) [or subject.startswith(b) ...] or
    subject.startswith((a, b)) -> [a, b], else None"""
    parts = test.values if (isinstance(test, ast.BoolOp) and
                            isinstance(test.op, ast.Or)) else [test]
    out = []
    for p in parts:
        if isinstance(p, ast.Call) and isinstance(p.func, ast.Attribute) and \
                p.func.attr == 'startswith' and \
                isinstance(p.func.value, ast.Name) and \
                p.func.value.id == subject and len(p.args) == 1:
            alts = fold_bytes_alts(ctx, f, p.args[0])
            if alts is None:
                return _prefixes_by_language(test, subject)
            out.extend(alts)
        else:
            return _prefixes_by_language(test, subject)
    return out or None


def _prefixes_by_language(test, subject):
    """any other spelling of a prefix test (`s[:1] in (a, b)`, `s[0:2] ==
    a`, ...): the test as a language over the subject must be exactly
    (p1 | p2 | ..) followed by anything, for literals p_i that occur in it"""
    from .predlang import pred_lang, NotAPredicate
    from .lang import Lang
    from .core import AnalysisError
    cands = []
    for n in ast.walk(test):
        if isinstance(n, ast.Constant) and isinstance(n.value, bytes) and \
                n.value and n.value not in cands:
            cands.append(n.value)
    if not cands or not any(isinstance(n, ast.Name) and n.id == subject
                            for n in ast.walk(test)):
        return None
    try:
        lang = pred_lang(test, subject)
        ALL = Lang.all_strings()
        keep = [c for c in cands if Lang.literal(c).concat(ALL)
                .not_subset_witness(lang) is None]
        if not keep:
            return None
        union = Lang.empty()
        for c in keep:
            union = union.union(Lang.literal(c).concat(ALL))
        if lang.not_subset_witness(union) is not None:
            return None
        return keep
    except (NotAPredicate, AnalysisError):
        return None


def type_tests(test, subject):
    """token.matches(C) / isinstance(token, C) / isinstance(token, (C, D)) /
    or-chains of them -> (set of class names, negated?) or None.  Only the
    last dotted component of the class expression is returned."""
    neg = False
    while isinstance(test, ast.UnaryOp) and isinstance(test.op, ast.Not):
        neg = not neg
        test = test.operand
    parts = test.values if (isinstance(test, ast.BoolOp) and
                            isinstance(test.op, ast.Or)) else [test]
    names = set()
    for p in parts:
        cls_e = None
        if isinstance(p, ast.Call) and isinstance(p.func, ast.Attribute) and \
                p.func.attr == 'matches' and \
                isinstance(p.func.value, ast.Name) and \
                p.func.value.id == subject and len(p.args) == 1:
            cls_e = p.args[0]
        elif isinstance(p, ast.Call) and isinstance(p.func, ast.Name) and \
                p.func.id == 'isinstance' and len(p.args) == 2 and \
                isinstance(p.args[0], ast.Name) and p.args[0].id == subject:
            cls_e = p.args[1]
        if cls_e is None:
            return None
        elts = cls_e.elts if isinstance(cls_e, ast.Tuple) else [cls_e]
        for x in elts:
            if isinstance(x, ast.Call):
                return None            # token.matches(TokSymbol(b';')): value
            if not isinstance(x, (ast.Name, ast.Attribute)):
                return None
            names.add(ast.unparse(x).split('.')[-1])
    return names, neg


# ------------------------------------------------------------- regions -------

def new_helpers(ctx, f, depth=3, _seen=None):
    """package functions reachable from f through calls that are NOT part of
    the pinned tree (helpers a later change extracted), transitively"""
    from . import normalise
    base = normalise.load_baseline()['functions']
    _seen = _seen if _seen is not None else {f.qual}
    out = []
    if depth <= 0:
        return out
    for (_call, t) in callees(ctx.model, f, list(f.node.body)):
        if t.qual in _seen or t.qual in base:
            continue
        _seen.add(t.qual)
        out.append(t)
        out.extend(new_helpers(ctx, t, depth - 1, _seen))
    return out


def region(ctx, f):
    """f together with the helpers that were extracted from it"""
    return [f] + new_helpers(ctx, f)


def region_nodes(ctx, f):
    """(function, node) for every node of the region of f"""
    for g in region(ctx, f):
        for n in walk_own(g.node):
            yield g, n


def reaching_value(stmt, name):
    """value of the nearest assignment `name = <expr>` that precedes `stmt`
    in the same block with no compound statement that could re-bind the name
    in between (straight-line reaching definition), else None"""
    p = getattr(stmt, '_parent', None)
    blk = None
    for fld in ('body', 'orelse', 'finalbody'):
        b = getattr(p, fld, None)
        if isinstance(b, list) and any(x is stmt for x in b):
            blk = b
    if blk is None:
        return None
    i = [k for k, x in enumerate(blk) if x is stmt][0]
    for j in range(i - 1, -1, -1):
        st = blk[j]
        if isinstance(st, ast.Assign) and len(st.targets) == 1 and \
                isinstance(st.targets[0], ast.Name) and \
                st.targets[0].id == name:
            return st.value
        if any(isinstance(x, ast.Name) and x.id == name and
               isinstance(x.ctx, ast.Store) for x in ast.walk(st)):
            return None
    return None
