"""Tokenizer models built on E6.

A `Tokenizer` is an ordered list of `Row`s (kind, NFA, semantics).  Two
selection disciplines are modelled:

  'first'   -- picotool's: commit rows (procedural openers) in order, then the
               first table row that matches wins, token = that row's match;
  'longest' -- the reference: commit rows in order, then maximal munch over
               all rows, ties broken by row order (keyword before name).

`compare` decides, for ALL byte strings at once, whether the two disciplines
ever disagree on the first token (kind, length): it searches the product of
all row automata, run in lock step over a string with one nondeterministically
chosen cut position, for a (string, cut) where exactly one side says "the
first token is the prefix up to the cut, of kind k".  The search is exhaustive
over the (finite) product state space; a disagreement comes with the shortest
witness string.
"""
from . import rx
from .rx import END

NONE, BEFORE, AT, AFTER = 0, 1, 2, 3


class Row:
    def __init__(self, kind, nfa, sem='longest', commit=False, label='',
                 seg=None, undef=False):
        self.kind = kind
        self.nfa = nfa
        self.sem = sem              # 'longest' | 'firstacc'
        self.commit = commit        # opener commits once its prefix matched
        self.label = label
        self.seg = seg              # id of an unordered segment, or None
        self.undef = undef          # reference: input outside the dialect
        self.commit_states = frozenset(
            s for s, m in nfa.marks.items() if m == 'commit')


class Tokenizer:
    def __init__(self, rows, discipline, malformed_after=None):
        self.rows = rows
        self.discipline = discipline
        # {kind: byteset}: a token of that kind directly followed by one of
        # these bytes is outside the reference (e.g. numeral + letter).  The
        # flag follows the LONGEST match of that kind.
        self.malformed_after = malformed_after or {}

    def bytesets(self):
        out = set(self.malformed_after.values())
        for r in self.rows:
            out |= r.nfa.bytesets()
        return out

    def initial(self):
        # entry: (row index, state set or None, flag, committed); a final
        # pseudo entry (-1, None, malformed?, False) when malformed_after
        st = [(i, frozenset([r.nfa.start]), NONE, False)
              for i, r in enumerate(self.rows)]
        if self.malformed_after:
            st.append((-1, None, 0, False))
        return tuple(st)

    def advance(self, state, prev, b, phase):
        """Evaluate acceptance at the current position under look-ahead b
        (phase: 'pre' | 'cut' | 'post'), then consume b.  -> new state."""
        cache = self.__dict__.setdefault('_adv_cache', {})
        key = (state, prev, b, phase)
        r = cache.get(key)
        if r is None:
            r = self._advance(state, prev, b, phase)
            if len(cache) < 2000000:
                cache[key] = r
        return r

    def _advance(self, state, prev, b, phase):
        out = []
        mal = state[-1][2] if (state and state[-1][0] == -1) else None
        for (i, S, flag, com) in state:
            if i == -1:
                continue
            row = self.rows[i]
            if S is None:
                out.append((i, None, flag, com))
                continue
            c = rx.closure(row.nfa, S, prev, b)
            if row.commit_states and (c & row.commit_states):
                com = True
            acc = row.nfa.accept in c
            if acc and row.kind in self.malformed_after and mal is not None:
                mal = int(b != END and b in self.malformed_after[row.kind])
            if acc:
                if phase == 'pre':
                    nf = BEFORE
                elif phase == 'cut':
                    nf = AT
                else:
                    nf = AFTER
                if row.sem == 'firstacc':
                    out.append((i, None, nf, com))
                    continue
                flag = nf
                if nf == AFTER and row.kind not in self.malformed_after:
                    out.append((i, None, AFTER, com))
                    continue
            if b == END:
                ns = None
            else:
                ns = rx.step(row.nfa, c, b) or None
            if ns is None and flag == NONE and not com:
                continue                   # dead without trace: drop
            out.append((i, ns, flag, com))
        if mal is not None:
            out.append((-1, None, mal, False))
        return tuple(out)

    def alive(self, state):
        return any(S is not None for (_i, S, _f, _c) in state)

    def verdict(self, state):
        """-> ('yes', kind, row) | ('no', why, row) | ('undef', why, row) |
        ('ambiguous', detail, row)"""
        rows = self.rows
        if state and state[-1][0] == -1:
            if state[-1][2]:
                return ('undef', 'malformed numeral', None)
            state = state[:-1]
        for (i, _S, flag, com) in state:
            if rows[i].undef and (flag != NONE or com):
                return ('undef', rows[i].label, i)
        for (i, _S, flag, com) in state:
            r = rows[i]
            if r.commit and com:
                if flag == AT:
                    return ('yes', r.kind, i)
                return ('no', 'committed ' + r.label + (
                    ' unterminated' if flag == NONE else ' ends elsewhere'),
                    i)
        if self.discipline == 'first':
            matched = [(i, flag) for (i, _S, flag, com) in state
                       if not rows[i].commit and not rows[i].undef
                       and flag != NONE]
            if not matched:
                return ('no', 'no row matches', None)
            i0, f0 = matched[0]
            seg = rows[i0].seg
            if seg is not None:
                group = [(i, f) for (i, f) in matched if rows[i].seg == seg]
                verdicts = {(f == AT, rows[i].kind) for (i, f) in group}
                if len(verdicts) > 1:
                    return ('ambiguous', 'rows {} of an unordered segment '
                            'both match with different results'.format(
                                [rows[i].label for (i, _f) in group]), i0)
            if f0 == AT:
                return ('yes', rows[i0].kind, i0)
            return ('no', 'first matching row {} ends elsewhere'.format(
                rows[i0].label), i0)
        # longest
        norm = [(i, flag) for (i, _S, flag, com) in state
                if not rows[i].commit and not rows[i].undef]
        if any(f == AFTER for (_i, f) in norm):
            j = [i for (i, f) in norm if f == AFTER][0]
            return ('no', 'longer match by ' + rows[j].label, j)
        at = [i for (i, f) in norm if f == AT]
        if at:
            return ('yes', rows[at[0]].kind, at[0])
        return ('no', 'nothing ends here', None)


class Disagreement:
    def __init__(self, witness, cut, impl_v, ref_v, next_sym):
        self.witness, self.cut = witness, cut
        self.impl_v, self.ref_v = impl_v, ref_v
        self.next_sym = next_sym

    def key(self, impl, ref):
        def lab(tok, v):
            r = v[2]
            return (v[0], v[1] if v[0] == 'yes' else '',
                    tok.rows[r].label if r is not None else '-')
        return (lab(impl, self.impl_v), lab(ref, self.ref_v))

    def describe(self):
        return 'input {!r}: cut at {} -> impl {} / reference {}'.format(
            self.witness, self.cut, self.impl_v[:2], self.ref_v[:2])


def compare(impl, ref, malformed_after=None, max_states=400000,
            stats=None, uncompressed=False):
    if malformed_after:
        ref.malformed_after = malformed_after
        malformed_after = None
    """All (string, cut) on which impl and ref disagree, one shortest witness
    per disagreement class.  malformed_after = {kind: byteset}: the
    reference is undefined when its token of that kind is directly followed
    by one of these bytes (e.g. a numeral followed by a letter)."""
    malformed_after = malformed_after or {}
    class_of, reps = rx.partition(
        impl.bytesets() | ref.bytesets() | set(malformed_after.values()))
    if uncompressed:
        reps = list(range(256))
    syms = rx.symbols(reps)
    start = ('pre', impl.initial(), ref.initial(), None, None)
    seen = {start: None}
    queue = [start]
    found = {}
    n = 0
    ambiguous = {}

    def finalize(st, path_extra):
        (_ph, I, R, _prev, after) = st
        iv = impl.verdict(I)
        rv = ref.verdict(R)
        if iv[0] == 'ambiguous':
            w, cut = _rebuild(seen, st, path_extra)
            ambiguous.setdefault(iv[1], Disagreement(w, cut, iv, rv, after))
            return
        if rv[0] == 'undef' or iv[0] == 'undef':
            return
        if rv[0] == 'yes' and rv[1] in malformed_after and \
                after is not None and after != END and \
                after in malformed_after[rv[1]]:
            return
        if iv[0] == 'yes' and iv[1] in malformed_after and rv[0] != 'yes' \
                and after is not None and after != END and \
                after in malformed_after[iv[1]] and False:
            return
        same = (iv[0] == 'yes') == (rv[0] == 'yes') and (
            iv[0] != 'yes' or iv[1] == rv[1])
        if not same:
            w, cut = _rebuild(seen, st, path_extra)
            d = Disagreement(w, cut, iv, rv, after)
            found.setdefault(d.key(impl, ref), d)

    while queue:
        st = queue.pop(0)
        n += 1
        if n > max_states:
            raise rx.Unsupported('tokenizer product too large')
        (phase, I, R, prev, after) = st
        for b in syms:
            choices = ['post'] if phase == 'post' else (
                ['pre', 'cut'] if prev is not None or True else ['pre'])
            for ch in choices:
                if ch == 'cut' and st is start:
                    continue              # a token is never empty
                I2 = impl.advance(I, prev, b, ch)
                R2 = ref.advance(R, prev, b, ch)
                nphase = 'pre' if ch == 'pre' else 'post'
                nafter = after if phase == 'post' else (
                    b if ch == 'cut' else None)
                nst = (nphase, I2, R2, rx._prev_key(b) if b != END else prev,
                       nafter)
                if b == END:
                    if nphase == 'post':
                        if nst not in seen:
                            seen[nst] = (st, b, ch)
                        finalize(nst, None)
                    continue
                if not impl.alive(I2) and not ref.alive(R2):
                    if nphase == 'post':
                        if nst not in seen:
                            seen[nst] = (st, b, ch)
                        finalize(nst, None)
                    continue
                if nst not in seen:
                    seen[nst] = (st, b, ch)
                    queue.append(nst)
    if stats is not None:
        stats['product_states'] = n
        stats['alphabet_classes'] = len(reps)
    return list(found.values()), list(ambiguous.values())


def _rebuild(seen, st, _extra):
    syms = []
    cut = None
    while seen.get(st) is not None:
        (pst, b, ch) = seen[st]
        syms.append((b, ch))
        st = pst
    syms.reverse()
    out = bytearray()
    for (b, ch) in syms:
        if ch == 'cut':
            cut = len(out)
        if b != END:
            out.append(b)
    return bytes(out), cut


# ---------------------------------------------------------------------------
# no-glue search (C01 / C19)

CODE_KINDS = ('name', 'label', 'keyword', 'number', 'symbol', 'string')


def glue_search(tok, row_info, sep_of, adjacent, max_states=600000,
                extra_bytesets=(), stats=None):
    """Search for u, v, w such that the minifier, having emitted token u (kind
    A), the separator sep_of(A-info, B-info, last byte of u, first byte of v)
    and token v (kind B), produces text  u + sep + v + w  whose FIRST token is
    not u with kind A.

    tok       -- the implementation Tokenizer
    row_info  -- {row index: (kind, fixed spelling or None)}
    sep_of    -- f(infoA, infoB, last_u, first_v) -> bytes (b'' or b' ')
    adjacent  -- f(infoA, infoB) -> bool (grammar adjacency)
    Returns a list of witnesses (dicts), one per (A, B) class pair.
    """
    sets = set(tok.bytesets()) | set(extra_bytesets) | {frozenset([32])}
    class_of, reps = rx.partition(sets)
    bytes_syms = list(reps)
    found = {}
    init = tok.initial()
    start = ('U', init, None, None)
    seen = {start: None}
    queue = [start]
    n = 0

    def info_of(verdict):
        kind, row = verdict[1], verdict[2]
        return row_info.get(row, (kind, None))

    def push(st, parent, sym, tag):
        if st not in seen:
            seen[st] = (parent, sym, tag)
            queue.append(st)

    def witness(st):
        parts = {'u': bytearray(), 's': bytearray(), 'v': bytearray(),
                 'w': bytearray()}
        chain = []
        while seen.get(st) is not None:
            (pst, sym, tag) = seen[st]
            chain.append((sym, tag))
            st = pst
        for (sym, tag) in reversed(chain):
            if sym is not None and sym != END:
                parts[tag].append(sym)
        return {k: bytes(v) for k, v in parts.items()}

    while queue:
        st = queue.pop(0)
        n += 1
        if n > max_states:
            raise rx.Unsupported('glue search too large')
        ph = st[0]
        if ph == 'U':
            (_p, T3, prev, last_u) = st
            for b in bytes_syms:
                # (1) u continues
                T3n = tok.advance(T3, prev, b, 'pre')
                if tok.alive(T3n):
                    push(('U', T3n, rx._prev_key(b), b), st, b, 'u')
            if last_u is None:
                continue
            # (2) u ends here: standalone verdict
            v1 = tok.verdict(tok.advance(T3, prev, END, 'cut'))
            if v1[0] != 'yes':
                continue
            infoA = info_of(v1)
            if infoA[0] not in CODE_KINDS:
                continue

            def settled(T):
                # the first token is already decided and it is u: no glue
                if tok.alive(T):
                    return False
                vv = tok.verdict(T)
                return vv[0] == 'yes' and vv[1] == infoA[0]
            for sep in (b'', b' '):
                if sep:
                    T3c = tok.advance(T3, prev, 32, 'cut')
                    if settled(T3c):
                        continue
                    push(('V0', T3c, rx._prev_key(32), infoA, sep, last_u,
                          True), st, 32, 's')
                else:
                    push(('V0', T3, prev, infoA, sep, last_u, False),
                         st, None, 's')
        elif ph == 'V0':
            (_p, T3, prev3, infoA, sep, last_u, cut_done) = st
            for b in bytes_syms:
                T3n = tok.advance(T3, prev3, b, 'post' if cut_done else 'cut')
                if not tok.alive(T3n):
                    vv = tok.verdict(T3n)
                    if vv[0] == 'yes' and vv[1] == infoA[0]:
                        continue          # settled: u stays the first token
                T2n = tok.advance(init, None, b, 'pre')
                if not tok.alive(T2n):
                    continue
                push(('V', T3n, rx._prev_key(b), T2n, rx._prev_key(b), infoA,
                      sep, last_u, b), st, b, 'v')
        elif ph == 'V':
            (_p, T3, prev3, T2, prev2, infoA, sep, last_u, first_v) = st
            for b in bytes_syms:
                T3n = tok.advance(T3, prev3, b, 'post')
                if not tok.alive(T3n):
                    vv = tok.verdict(T3n)
                    if vv[0] == 'yes' and vv[1] == infoA[0]:
                        continue
                T2n = tok.advance(T2, prev2, b, 'pre')
                if tok.alive(T2n):
                    push(('V', T3n, rx._prev_key(b), T2n, rx._prev_key(b),
                          infoA, sep, last_u, first_v), st, b, 'v')
            # v ends here (standalone)
            v2 = tok.verdict(tok.advance(T2, prev2, END, 'cut'))
            if v2[0] != 'yes':
                continue
            infoB = info_of(v2)
            if infoB[0] not in CODE_KINDS:
                continue
            if not adjacent(infoA, infoB):
                continue
            if sep_of(infoA, infoB, last_u, first_v) != sep:
                continue
            push(('W', T3, prev3, infoA, infoB, sep), st, None, 'w')
        elif ph == 'W':
            (_p, T3, prev3, infoA, infoB, sep) = st
            key = (infoA, infoB)
            if key in found:
                continue
            # end of input here
            vend = tok.verdict(tok.advance(T3, prev3, END, 'post'))
            bad = not (vend[0] == 'yes' and vend[1] == infoA[0])
            if bad:
                w = witness(st)
                w.update({'A': infoA, 'B': infoB, 'first_token': vend[:2],
                          'first_kind': tok.rows[vend[2]].kind
                          if vend[2] is not None else None})
                found[key] = w
                continue
            if not tok.alive(T3):
                continue
            for b in bytes_syms:
                T3n = tok.advance(T3, prev3, b, 'post')
                push(('W', T3n, rx._prev_key(b), infoA, infoB, sep), st, b,
                     'w')
    if stats is not None:
        stats['glue_states'] = n
    return list(found.values())
