"""E6 -- regex automata.

Patterns are taken from the *source text* of /repo (evaluated by E2 to their
pattern bytes) and parsed with re._parser into a regex AST; from there on
everything is this module's own automata: Thompson NFAs over the 256 byte
values with ordered (priority) epsilon edges and guarded epsilon edges for
the zero-width assertions the repository uses (\\b, ^, one-byte negative /
positive look-ahead).  No pattern is ever run against repository data.

Simulation is position synchronous with one symbol of look-ahead: the state
after n bytes is closed under epsilon edges only once the next symbol (a byte
or END) is known, so trailing context is resolved exactly.
"""
import re
try:
    import re._parser as sre_parse
    import re._constants as sre_c
except ImportError:                                   # python < 3.11
    import sre_parse
    import sre_constants as sre_c

from .core import AnalysisError

END = 256                      # end-of-input symbol
ALL = frozenset(range(256))
WORD = frozenset(b'abcdefghijklmnopqrstuvwxyzABCDEFGHIJKLMNOPQRSTUVWXYZ'
                 b'0123456789_')
DIGIT = frozenset(b'0123456789')
SPACE = frozenset(b' \t\n\r\f\v')


class Unsupported(AnalysisError):
    pass


# ---------------------------------------------------------------- parsing --

def _category(cat):
    name = str(cat)
    table = {
        'CATEGORY_DIGIT': DIGIT, 'CATEGORY_NOT_DIGIT': ALL - DIGIT,
        'CATEGORY_WORD': WORD, 'CATEGORY_NOT_WORD': ALL - WORD,
        'CATEGORY_SPACE': SPACE, 'CATEGORY_NOT_SPACE': ALL - SPACE,
    }
    if name in table:
        return table[name]
    raise Unsupported('regex category ' + name)


def _in_set(items):
    neg = False
    s = set()
    for (op, av) in items:
        op = str(op)
        if op == 'NEGATE':
            neg = True
        elif op == 'LITERAL':
            if av < 256:
                s.add(av)
        elif op == 'RANGE':
            s.update(range(av[0], min(av[1], 255) + 1))
        elif op == 'CATEGORY':
            s |= _category(av)
        else:
            raise Unsupported('regex set item ' + op)
    return frozenset(ALL - s if neg else s)


class NFA:
    """Thompson NFA.  eps[s] is an ORDERED list of (guard, target); guard is
    None or a tuple.  byte[s] is a list of (byteset, target)."""

    def __init__(self):
        self.eps = []
        self.byte = []
        self.start = self.new()
        self.accept = None
        self.marks = {}          # state -> label (e.g. 'commit')

    def new(self):
        self.eps.append([])
        self.byte.append([])
        return len(self.eps) - 1

    def add_eps(self, a, b, guard=None):
        self.eps[a].append((guard, b))

    def add_byte(self, a, bs, b):
        self.byte[a].append((frozenset(bs), b))

    @property
    def n(self):
        return len(self.eps)

    def bytesets(self):
        out = set()
        for lst in self.byte:
            for (bs, _t) in lst:
                out.add(bs)
        for lst in self.eps:
            for (g, _t) in lst:
                if g and g[0] in ('la', 'nla'):
                    out.add(g[1])
        return out


def parse(pattern, flags=0):
    if isinstance(pattern, str):
        raise Unsupported('str patterns are analysed as bytes only')
    try:
        return sre_parse.parse(pattern, flags)
    except re.error as e:
        raise Unsupported('pattern does not parse: {}'.format(e))


_STRIP_ANCHORS = [False]


def build(pattern, flags=0, strip_anchors=False):
    """bytes pattern -> NFA (anchored at its start, like re.match).
    strip_anchors: drop ^ $ \\A \\Z (they only restrict where a match may
    sit, never what text it covers)."""
    tree = parse(pattern, flags)
    return build_tree(tree, flags, strip_anchors)


def build_tree(tree, flags=0, strip_anchors=False):
    nfa = NFA()
    old = _STRIP_ANCHORS[0]
    _STRIP_ANCHORS[0] = strip_anchors
    try:
        end = _build_seq(nfa, tree, nfa.start, flags)
    finally:
        _STRIP_ANCHORS[0] = old
    nfa.accept = end
    return nfa


def groups_of(tree, out=None):
    """{group number: sub-pattern} for every capturing group."""
    out = {} if out is None else out
    for (op, av) in tree:
        o = str(op)
        if o == 'SUBPATTERN':
            if av[0] is not None:
                out[av[0]] = av[-1]
            groups_of(av[-1], out)
        elif o == 'BRANCH':
            for alt in av[1]:
                groups_of(alt, out)
        elif o in ('MAX_REPEAT', 'MIN_REPEAT'):
            groups_of(av[2], out)
        elif o in ('ASSERT', 'ASSERT_NOT'):
            groups_of(av[1], out)
    return out


def anchors_of(tree, out=None):
    out = [] if out is None else out
    for (op, av) in tree:
        o = str(op)
        if o == 'AT':
            out.append(str(av))
        elif o == 'SUBPATTERN':
            anchors_of(av[-1], out)
        elif o == 'BRANCH':
            for alt in av[1]:
                anchors_of(alt, out)
        elif o in ('MAX_REPEAT', 'MIN_REPEAT'):
            anchors_of(av[2], out)
    return out


def _build_seq(nfa, seq, cur, flags):
    for (op, av) in seq:
        cur = _build_item(nfa, str(op), av, cur, flags)
    return cur


def _single_byteset(seq):
    """byte set of a one-item subpattern consuming exactly one byte, or None"""
    items = list(seq)
    if len(items) != 1:
        return None
    op, av = str(items[0][0]), items[0][1]
    if op == 'LITERAL':
        return frozenset([av]) if av < 256 else frozenset()
    if op == 'NOT_LITERAL':
        return ALL - {av}
    if op == 'IN':
        return _in_set(av)
    if op == 'ANY':
        return ALL - {10}
    return None


def _build_item(nfa, op, av, cur, flags):
    dotall = bool(flags & re.DOTALL)
    if op == 'LITERAL':
        nxt = nfa.new()
        if flags & re.IGNORECASE:
            c = bytes([av])
            nfa.add_byte(cur, set(c.lower() + c.upper()), nxt)
        else:
            nfa.add_byte(cur, {av} if av < 256 else set(), nxt)
        return nxt
    if op == 'NOT_LITERAL':
        nxt = nfa.new()
        nfa.add_byte(cur, ALL - {av}, nxt)
        return nxt
    if op == 'ANY':
        nxt = nfa.new()
        nfa.add_byte(cur, ALL if dotall else ALL - {10}, nxt)
        return nxt
    if op == 'IN':
        nxt = nfa.new()
        nfa.add_byte(cur, _in_set(av), nxt)
        return nxt
    if op == 'SUBPATTERN':
        # (group, add_flags, del_flags, pattern)
        sub = av[-1]
        return _build_seq(nfa, sub, cur, flags)
    if op == 'BRANCH':
        _none, alts = av
        out = nfa.new()
        for alt in alts:
            s = nfa.new()
            nfa.add_eps(cur, s)
            e = _build_seq(nfa, alt, s, flags)
            nfa.add_eps(e, out)
        return out
    if op in ('MAX_REPEAT', 'MIN_REPEAT', 'POSSESSIVE_REPEAT'):
        lo, hi, sub = av
        greedy = op != 'MIN_REPEAT'
        if op == 'POSSESSIVE_REPEAT':
            raise Unsupported('possessive repeat')
        for _ in range(lo):
            cur = _build_seq(nfa, sub, cur, flags)
        if hi == sre_c.MAXREPEAT:
            loop = nfa.new()
            out = nfa.new()
            nfa.add_eps(cur, loop)
            body_s = nfa.new()
            if greedy:
                nfa.add_eps(loop, body_s)
                nfa.add_eps(loop, out)
            else:
                nfa.add_eps(loop, out)
                nfa.add_eps(loop, body_s)
            e = _build_seq(nfa, sub, body_s, flags)
            nfa.add_eps(e, loop)
            return out
        if hi - lo > 64:
            raise Unsupported('bounded repeat too large')
        out = nfa.new()
        for _ in range(hi - lo):
            body_s = nfa.new()
            if greedy:
                nfa.add_eps(cur, body_s)
                nfa.add_eps(cur, out)
            else:
                nfa.add_eps(cur, out)
                nfa.add_eps(cur, body_s)
            cur = _build_seq(nfa, sub, body_s, flags)
        nfa.add_eps(cur, out)
        return out
    if op == 'AT':
        name = str(av)
        if _STRIP_ANCHORS[0] and name in (
                'AT_BEGINNING', 'AT_BEGINNING_STRING', 'AT_END',
                'AT_END_STRING'):
            return cur
        nxt = nfa.new()
        if name == 'AT_BOUNDARY':
            nfa.add_eps(cur, nxt, ('wb', True))
        elif name == 'AT_NON_BOUNDARY':
            nfa.add_eps(cur, nxt, ('wb', False))
        elif name in ('AT_BEGINNING', 'AT_BEGINNING_STRING'):
            if flags & re.MULTILINE and name == 'AT_BEGINNING':
                nfa.add_eps(cur, nxt, ('bol_m',))
            else:
                nfa.add_eps(cur, nxt, ('bos',))
        elif name == 'AT_END_STRING':
            nfa.add_eps(cur, nxt, ('eos',))
        elif name == 'AT_END':
            # `$`: end, or before a final newline -- needs two symbols of
            # look-ahead; only the analyses that model it may build it
            nfa.add_eps(cur, nxt, ('dollar',))
        else:
            raise Unsupported('regex anchor ' + name)
        return nxt
    if op in ('ASSERT_NOT', 'ASSERT'):
        direction, sub = av
        if direction != 1:
            raise Unsupported('look-behind')
        bs = _single_byteset(sub)
        if bs is None:
            raise Unsupported('look-ahead over more than one byte')
        nxt = nfa.new()
        nfa.add_eps(cur, nxt, ('nla' if op == 'ASSERT_NOT' else 'la', bs))
        return nxt
    raise Unsupported('regex construct ' + op)


# ------------------------------------------------------- alphabet classes --

def partition(bytesets):
    """Equivalence classes of 0..255 w.r.t. membership in every given set
    (WORD and newline are always distinguished).  -> (class_of[256], reps)"""
    sets = list(bytesets) + [WORD, frozenset([10])]
    sig = {}
    for b in range(256):
        key = tuple(b in s for s in sets)
        sig.setdefault(key, []).append(b)
    class_of = [0] * 256
    reps = []
    for i, (key, members) in enumerate(sorted(sig.items(),
                                              key=lambda kv: kv[1][0])):
        for b in members:
            class_of[b] = i
        reps.append(members[0])
    return class_of, reps


# -------------------------------------------------------------- simulation --

def _guard_ok(g, prev, nxt):
    """prev: None (start of string) or a byte; nxt: byte or END."""
    if g is None:
        return True
    k = g[0]
    if k == 'nla':
        return nxt == END or nxt not in g[1]
    if k == 'la':
        return nxt != END and nxt in g[1]
    if k == 'wb':
        pw = prev is not None and prev in WORD
        nw = nxt != END and nxt in WORD
        return (pw != nw) == g[1]
    if k == 'bos':
        return prev is None
    if k == 'bol_m':
        return prev is None or prev == 10
    if k == 'eos':
        return nxt == END
    if k == 'dollar':
        raise Unsupported('`$` needs the two-symbol analysis')
    raise Unsupported('guard ' + k)


def closure(nfa, states, prev, nxt):
    """Unordered epsilon closure under (prev, nxt)."""
    seen = set(states)
    stack = list(states)
    while stack:
        s = stack.pop()
        for (g, t) in nfa.eps[s]:
            if t not in seen and _guard_ok(g, prev, nxt):
                seen.add(t)
                stack.append(t)
    return frozenset(seen)


def step(nfa, closed, b):
    out = set()
    for s in closed:
        for (bs, t) in nfa.byte[s]:
            if b in bs:
                out.add(t)
    return frozenset(out)


def ordered_closure(nfa, threads, prev, nxt):
    """Priority-ordered closure (Pike VM add-thread order)."""
    out = []
    seen = set()

    def add(s):
        if s in seen:
            return
        seen.add(s)
        out.append(s)
        for (g, t) in nfa.eps[s]:
            if _guard_ok(g, prev, nxt):
                add(t)
    for s in threads:
        add(s)
    return out


def ordered_step(nfa, ordered, b):
    out = []
    seen = set()
    for s in ordered:
        for (bs, t) in nfa.byte[s]:
            if b in bs and t not in seen:
                seen.add(t)
                out.append(t)
    return out


def symbols(reps):
    return [END] + list(reps)


def _prev_key(prev):
    # only word-ness / start / newline of prev matter to the guards
    if prev is None:
        return None
    if prev == 10:
        return 10
    return ord('a') if prev in WORD else ord(' ')


def check_row(nfa, reps=None, max_states=20000):
    """Per-pattern obligations for re.match(): (1) never matches the empty
    string; (2) the leftmost-first (backtracking) match has the same length
    as the longest match on every input.  -> dict(empty=witness|None,
    priority=witness|None, states=n)."""
    if reps is None:
        _c, reps = partition(nfa.bytesets())
    syms = symbols(reps)
    res = {'empty': None, 'priority': None, 'states': 0}
    # BFS over (ordered threads P (pruned), full set S, lag, prev)
    start = ((nfa.start,), frozenset([nfa.start]), False, None, True)
    seen = {start: None}
    queue = [start]
    while queue:
        st = queue.pop(0)
        (P, S, lag, prev, at0) = st
        res['states'] += 1
        if res['states'] > max_states:
            raise Unsupported('row automaton too large')
        for b in syms:
            pc = ordered_closure(nfa, P, prev, b)
            sc = closure(nfa, S, prev, b)
            p_acc = nfa.accept in pc
            s_acc = nfa.accept in sc
            if at0 and s_acc and res['empty'] is None:
                res['empty'] = _witness(seen, st, b)
            nlag = False if p_acc else (True if s_acc else lag)
            if p_acc:
                pc = pc[:pc.index(nfa.accept)]     # cut lower priority
            if b == END:
                if nlag and res['priority'] is None:
                    res['priority'] = _witness(seen, st, b)
                continue
            np_ = tuple(ordered_step(nfa, pc, b))
            ns = step(nfa, sc, b)
            if not ns:
                if nlag and res['priority'] is None:
                    res['priority'] = _witness(seen, st, b)
                continue
            if not np_ and not nlag:
                # P is dead; S may still accept later -> keep going with S
                pass
            nst = (np_, ns, nlag, _prev_key(b), False)
            if nst not in seen:
                seen[nst] = (st, b)
                queue.append(nst)
    return res


def _witness(seen, st, last):
    out = [] if last == END else [last]
    while seen[st] is not None:
        st, b = seen[st]
        out.append(b)
    return bytes(reversed(out))


def first_bytes(nfa):
    """Set of bytes a match can start with (guards evaluated for prev=None)."""
    out = set()
    for b in range(256):
        c = closure(nfa, [nfa.start], None, b)
        if step(nfa, c, b):
            out.add(b)
    return frozenset(out)


def language_subset(nfa_a, nfa_b, max_states=50000):
    """L(a) subseteq L(b) for whole-string matching (fullmatch).  Returns None
    if it holds, else a witness in L(a) \\ L(b)."""
    _c, reps = partition(nfa_a.bytesets() | nfa_b.bytesets())
    syms = symbols(reps)
    start = (frozenset([nfa_a.start]), frozenset([nfa_b.start]), None)
    seen = {start: None}
    queue = [start]
    n = 0
    while queue:
        st = queue.pop(0)
        n += 1
        if n > max_states:
            raise Unsupported('inclusion check too large')
        (A, B, prev) = st
        for b in syms:
            ac = closure(nfa_a, A, prev, b)
            bc = closure(nfa_b, B, prev, b)
            if b == END:
                if nfa_a.accept in ac and nfa_b.accept not in bc:
                    return _witness(seen, st, b)
                continue
            na = step(nfa_a, ac, b)
            if not na:
                continue
            nb = step(nfa_b, bc, b)
            nst = (na, nb, _prev_key(b))
            if nst not in seen:
                seen[nst] = (st, b)
                queue.append(nst)
    return None


def accepts(nfa, data):
    """fullmatch of concrete bytes by this module's own simulation (used on
    reference strings written in /verif, never on repository data)."""
    S = frozenset([nfa.start])
    prev = None
    for b in data:
        c = closure(nfa, S, prev, b)
        S = step(nfa, c, b)
        prev = b
        if not S:
            return False
    return nfa.accept in closure(nfa, S, prev, END)


def match_len(nfa, data):
    """Longest prefix match length of concrete bytes, or None."""
    S = frozenset([nfa.start])
    prev = None
    best = None
    for i, b in enumerate(data):
        c = closure(nfa, S, prev, b)
        if nfa.accept in c:
            best = i
        S = step(nfa, c, b)
        prev = b
        if not S:
            return best
    if nfa.accept in closure(nfa, S, prev, END):
        best = len(data)
    return best
