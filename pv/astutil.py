"""Small AST utilities shared by the engines."""
import ast


def clone(node):
    """deep copy of an AST subtree that does NOT follow the `_parent` links
    the source model adds (copy.deepcopy would copy the whole module through
    them)"""
    if isinstance(node, list):
        return [clone(x) for x in node]
    if not isinstance(node, ast.AST):
        return node
    new = node.__class__()
    for name in node._fields:
        if hasattr(node, name):
            setattr(new, name, clone(getattr(node, name)))
    for name in node._attributes:
        if hasattr(node, name):
            setattr(new, name, getattr(node, name))
    return new
